------------------------------ MODULE TaskModel ------------------------------
(***************************************************************************)
(* The task-level interpretation of a TaskChampion task (docs/src/tasks.md,*)
(* src/task/{task,data,tag,status}.rs, Replica::dependency_map): one task  *)
(* "t1" as a map from key tokens to value tokens, the Task / TaskData       *)
(* object a caller holds (its map, its updated_modified flag, the snapshot  *)
(* of the dependency map it was created with), the operations recorded so   *)
(* far, and the stored task (existence, map, working-set membership).       *)
(*                                                                         *)
(* Keys and values are CLASS tokens, not concrete strings: the harness      *)
(* (harness/src/taskdrv.rs) substitutes concrete representatives (three per *)
(* class, or seeded random strings classified with i128 arithmetic).  All   *)
(* readers are TOTAL functions of the map: "never panics" is "the observed  *)
(* result equals the specification's result for every class"; the result    *)
(* token "panic" is produced by no definition below (unless Dev says so).   *)
(*                                                                         *)
(* Fixed context in which t1 lives: t2 pending and in the working set, t3   *)
(* completed, t4 pending, in the working set and depending on t1, t9 never  *)
(* created.                                                                *)
(***************************************************************************)
EXTENDS Naturals, Sequences, FiniteSets, TLC

CONSTANT Dev      \* named deviations (anti-vacuity): subset of
                  \* {"TS1","KeepEnd","ModAlways","ModExplicit","OldStale","UdaOpen","DepAny"}

NoVal == "~"

-----------------------------------------------------------------------------
(* Key tokens.  One token per (recognised key | prefix x class of suffix). *)
PropKeys      == {"status","description","modified","start","end","priority","wait","entry","due"}
TsKeys        == {"modified","start","end","wait","entry","due"}
TagValidKeys  == {"tag:valid","tag:valid2"}     \* tag_<legal user tag>
TagSynthKeys  == {"tag:synth"}                  \* tag_WAITING: a synthetic name as a stored key
TagBadKeys    == {"tag:empty","tag:malformed","tag:sep"}
TagKeys       == TagValidKeys \cup TagSynthKeys \cup TagBadKeys
AnnValidKeys  == {"ann:valid","ann:valid2","ann:neg","ann:plus"}   \* suffix is an i64 inside the calendar
AnnBadKeys    == {"ann:empty","ann:nonnum","ann:far","ann:huge","ann:negfar","ann:fw","ann:sep"}
AnnKeys       == AnnValidKeys \cup AnnBadKeys
\* suffix parses as a uuid; "dep:t2alt" names t2 in another spelling of its uuid (upper case,
\* un-hyphenated, ...): a second key for the same dependency
DepValidKeys  == {"dep:t2","dep:t2alt","dep:t3","dep:self","dep:missing"}
DepBadKeys    == {"dep:empty","dep:malformed","dep:sep"}
DepKeys       == DepValidKeys \cup DepBadKeys
UdaKeys       == {"uda:plain","uda:ns","uda:near","uda:empty"}     \* none of the recognised ones
AllKeys       == PropKeys \cup TagKeys \cup AnnKeys \cup DepKeys \cup UdaKeys

DepTarget(k) == CASE k = "dep:t2" -> "t2" [] k = "dep:t2alt" -> "t2" [] k = "dep:t3" -> "t3" [] k = "dep:self" -> "t1"
                  [] k = "dep:missing" -> "t9" [] OTHER -> "?"

(* Value tokens. *)
StatusVals == {"pending","completed","deleted","recurring"}
PastVals   == {"past","past2","pastx","neg"}    \* i64, inside the calendar, long before now
FutureVals == {"future","future2"}              \* i64, inside the calendar, long after now
TsGood     == PastVals \cup FutureVals \cup {"now"}
TsBad      == {"empty","nonnum","far","huge","negfar","fw"}
  \* empty string; not an integer; i64 beyond the calendar (8210266876800 and up);
  \* beyond i64; negative beyond the calendar; non-ASCII digits
TextVals   == {"text","text2","unknown"}
AllVals    == StatusVals \cup TsGood \cup TsBad \cup TextVals
ValsN      == AllVals \cup {NoVal}

EmptyMap == [k \in AllKeys |-> NoVal]
Present(m) == {k \in AllKeys : m[k] # NoVal}
B(b) == IF b THEN "true" ELSE "false"
ValOrNone(v) == IF v = NoVal THEN "none" ELSE v
ValOrEmpty(v) == IF v = NoVal THEN "empty" ELSE v

-----------------------------------------------------------------------------
(* Readers of Task / TaskData, as total functions of the map m and of the   *)
(* two facts the object's dependency map contributes (blk: some edge from   *)
(* t1; blkg: some edge to t1).                                              *)
StatusOf(m) == IF m["status"] = NoVal THEN "pending"            \* the default
               ELSE IF m["status"] \in StatusVals THEN m["status"]
               ELSE "unknown"

GetTs(v) == IF v \in TsGood THEN v
            ELSE IF "TS1" \in Dev /\ v \in {"far","negfar"} THEN "panic"   \* pinned utc_timestamp
            ELSE "none"

IsWaiting(m) == m["wait"] \in FutureVals     \* wait = "now" is never generated
IsActive(m)  == m["start"] # NoVal

SynthNames == {"WAITING","ACTIVE","PENDING","COMPLETED","DELETED","BLOCKED","UNBLOCKED","BLOCKING"}
HasSynth(m, blk, blkg, T) ==
  CASE T = "WAITING"   -> IsWaiting(m)
    [] T = "ACTIVE"    -> IsActive(m)
    [] T = "PENDING"   -> StatusOf(m) = "pending"
    [] T = "COMPLETED" -> StatusOf(m) = "completed"
    [] T = "DELETED"   -> StatusOf(m) = "deleted"
    [] T = "BLOCKED"   -> blk
    [] T = "UNBLOCKED" -> ~blk
    [] T = "BLOCKING"  -> blkg
    [] OTHER -> FALSE

UserTags(m)  == Present(m) \cap TagValidKeys
SynthTags(m, blk, blkg) == {T \in SynthNames : HasSynth(m, blk, blkg, T)}
KeySynth(m)  == IF m["tag:synth"] # NoVal THEN {"WAITING"} ELSE {}

(* scalar readers: a result token for reader f with key argument k ("-" if none) *)
RS(m, blk, blkg, f, k) ==
  CASE f \in {"get_uuid", "data.get_uuid"} -> "t1"
    [] f = "get_status"      -> StatusOf(m)
    [] f = "get_description" -> ValOrEmpty(m["description"])
    [] f = "get_priority"    -> ValOrEmpty(m["priority"])
    [] f = "get_entry"       -> GetTs(m["entry"])
    [] f = "get_wait"        -> GetTs(m["wait"])
    [] f = "get_modified"    -> GetTs(m["modified"])
    [] f = "get_due"         -> GetTs(m["due"])
    [] f = "is_waiting"      -> IF GetTs(m["wait"]) = "panic" THEN "panic" ELSE B(IsWaiting(m))
    [] f = "is_active"       -> B(IsActive(m))
    [] f = "is_blocked"      -> B(blk)
    [] f = "is_blocking"     -> B(blkg)
    [] f = "has_tag"         -> IF k \in SynthNames THEN B(HasSynth(m, blk, blkg, k))
                                ELSE B(m[k] # NoVal)
    [] f = "get_value"       -> ValOrNone(m[k])
    [] f = "get_timestamp"   -> GetTs(m[k])
    [] f \in {"get_user_defined_attribute", "get_legacy_uda", "get_uda"}
                             -> IF k \in UdaKeys THEN ValOrNone(m[k]) ELSE "none"
    [] f = "data.get"        -> ValOrNone(m[k])
    [] f = "data.has"        -> B(m[k] # NoVal)
    [] f = "eq_clone"        -> "true"
    [] f = "debug"           -> "ok"
    [] OTHER -> "undefined-reader"

KeyedReaders == {"get_value","get_timestamp","get_user_defined_attribute","get_legacy_uda",
                 "get_uda","data.get","data.has"}
PlainReaders == {"get_uuid","get_status","get_description","get_priority","get_entry","get_wait",
                 "get_modified","get_due","is_waiting","is_active","is_blocked","is_blocking",
                 "eq_clone","debug","data.get_uuid"}
(* the reader calls every sweep must contain *)
TaskScalarCalls(m) ==
  {<<f, "-">> : f \in PlainReaders}
  \cup {<<"has_tag", T>> : T \in SynthNames \cup UserTags(m)}
  \cup {<<f, k>> : f \in KeyedReaders, k \in Present(m)}

(* list readers: the result as a set, and the number of items (duplicates count) *)
Pairs(m, K) == {<<k, m[k]>> : k \in Present(m) \cap K}
RL(m, blk, blkg, f) ==
  CASE f = "get_tags"         -> UserTags(m) \cup KeySynth(m) \cup SynthTags(m, blk, blkg)
    [] f = "get_dependencies" -> {DepTarget(k) : k \in Present(m) \cap DepValidKeys}
    [] f = "data.properties"  -> Present(m)
    [] f = "get_annotations"  -> Pairs(m, AnnValidKeys)
    [] f \in {"get_udas","get_legacy_udas","get_user_defined_attributes"} -> Pairs(m, UdaKeys)
    [] f \in {"data.iter","get_taskmap"} -> Pairs(m, AllKeys)
    [] OTHER -> {"undefined-reader"}
RLLen(m, blk, blkg, f) ==
  IF f = "get_tags"
  THEN Cardinality(UserTags(m)) + Cardinality(KeySynth(m)) + Cardinality(SynthTags(m, blk, blkg))
  \* one entry per dep_ key: the same task named by two spellings of its uuid is listed twice
  ELSE IF f = "get_dependencies" THEN Cardinality(Present(m) \cap DepValidKeys)
  ELSE Cardinality(RL(m, blk, blkg, f))
TaskListCalls == {"get_tags","get_dependencies","data.properties","get_annotations","get_udas",
                  "get_legacy_udas","get_user_defined_attributes","data.iter","get_taskmap"}

-----------------------------------------------------------------------------
(* The stored task and what the replica derives from it.                    *)
Absent == [ex |-> FALSE, m |-> EmptyMap, ws |-> FALSE]
IsPR(v) == v \in {"pending","recurring"}

StoredPending(s) == s.ex /\ s.m["status"] = "pending"   \* Replica::dependency_map: no default here
TargetPending(s, t) == CASE t = "t1" -> StoredPending(s) [] t = "t2" -> TRUE [] OTHER -> FALSE
(* edges: from each working-set task, for each dep_<uuid> key whose target is stored pending *)
Edges(s) ==
  (IF s.ex /\ s.ws
   THEN {<<"t1", DepTarget(k)>> : k \in {k \in Present(s.m) \cap DepValidKeys :
                                          "DepAny" \in Dev \/ TargetPending(s, DepTarget(k))}}
   ELSE {})
  \cup (IF StoredPending(s) THEN {<<"t4", "t1">>} ELSE {})
Blocked(s)  == \E e \in Edges(s) : e[1] = "t1"
Blocking(s) == \E e \in Edges(s) : e[2] = "t1"

WSet(s)    == {"t2","t4"} \cup (IF s.ws THEN {"t1"} ELSE {})
AllSet(s)  == {"t2","t3","t4"} \cup (IF s.ex THEN {"t1"} ELSE {})
PendSet(s) == {"t2","t4"} \cup (IF s.ws /\ s.ex THEN {"t1"} ELSE {})

Num(n) == CASE n = 0 -> "0" [] n = 1 -> "1" [] n = 2 -> "2" [] n = 3 -> "3" [] OTHER -> "many"

(* expire_tasks removes exactly the tasks stored as deleted whose modified is readable and old *)
Expires(s) == s.ex /\ s.m["status"] = "deleted" /\ s.m["modified"] \in PastVals

(* replica-level scalar readers *)
SS(s, f, k) ==
  CASE f = "get_task"        -> IF s.ex THEN "some" ELSE "none"
    [] f = "get_task_data"   -> IF s.ex THEN "some" ELSE "none"
    [] f = "ws.len"          -> Num(Cardinality(WSet(s)))
    [] f = "ws.largest_index"-> Num(Cardinality(WSet(s)))     \* no gaps arise in these histories
    [] f = "ws.is_empty"     -> "false"
    [] f = "ws.by_uuid"      -> IF k \in WSet(s) THEN "some" ELSE "none"
    [] f \in {"ws.consistent", "all_tasks.t1eq"} -> "true"
    [] f \in {"num_local_operations","num_undo_points","get_undo_operations",
              "get_task_operations"} -> "ok"
    [] f = "expire"          -> IF ~s.ex THEN "absent" ELSE IF Expires(s) THEN "gone" ELSE "kept"
    [] OTHER -> "undefined-reader"
ReplicaScalarCalls == {<<"get_task","-">>, <<"get_task_data","-">>, <<"ws.len","-">>,
                       <<"ws.largest_index","-">>, <<"ws.is_empty","-">>, <<"ws.by_uuid","t1">>,
                       <<"ws.by_uuid","t2">>, <<"ws.by_uuid","t3">>, <<"ws.consistent","-">>,
                       <<"all_tasks.t1eq","-">>,
                       <<"num_local_operations","-">>, <<"num_undo_points","-">>,
                       <<"get_undo_operations","-">>, <<"get_task_operations","t1">>}
OptionalScalarCalls == {<<"expire","t1">>}

(* replica-level list readers (sets of task tokens) *)
SL(s, f, k) ==
  CASE f \in {"all_tasks","all_task_data","all_task_uuids"} -> AllSet(s)
    [] f \in {"pending_tasks","pending_task_data"} -> PendSet(s)
    [] f = "ws.iter" -> WSet(s)
    [] f \in {"dm.dependencies","dmf.dependencies"} -> {e[2] : e \in {e \in Edges(s) : e[1] = k}}
    [] f \in {"dm.dependents","dmf.dependents"}     -> {e[1] : e \in {e \in Edges(s) : e[2] = k}}
    [] OTHER -> {"undefined-reader"}
ReplicaListCalls ==
  {<<f, "-">> : f \in {"all_tasks","all_task_data","all_task_uuids","pending_tasks",
                       "pending_task_data","ws.iter"}}
  \cup {<<f, t>> : f \in {"dm.dependencies","dm.dependents","dmf.dependencies","dmf.dependents"},
                   t \in {"t1","t2","t4"}}

-----------------------------------------------------------------------------
(* Operations as recorded in an Operations vector.  o: Update.old_value;   *)
(* om: Delete.old_task.                                                    *)
UOp(p, v, o) == [k |-> "U", p |-> p, v |-> v, o |-> o, om |-> EmptyMap]
COp          == [k |-> "C", p |-> "-", v |-> "-", o |-> "-", om |-> EmptyMap]
DOp(old)     == [k |-> "D", p |-> "-", v |-> "-", o |-> "-", om |-> old]

(* The documented operation model (storage.md): create makes an empty task  *)
(* unless it exists, update changes one property of an existing task,       *)
(* delete removes it; anything else changes nothing.                       *)
ApplyOp(s, op) ==
  CASE op.k = "C" -> IF s.ex THEN s ELSE [s EXCEPT !.ex = TRUE, !.m = EmptyMap]
    [] op.k = "D" -> [s EXCEPT !.ex = FALSE, !.m = EmptyMap]
    [] op.k = "U" -> IF s.ex THEN [s EXCEPT !.m[op.p] = op.v] ELSE s
    [] OTHER -> s
RECURSIVE ApplyOps(_,_)
ApplyOps(s, os) == IF os = <<>> THEN s ELSE ApplyOps(ApplyOp(s, Head(os)), Tail(os))

(* Replica::commit_operations: apply, then append the task to the working   *)
(* set if some update moves status from outside {pending, recurring} into   *)
(* it (judged by the recorded old value)                                    *)
AddsToWS(op) == op.k = "U" /\ op.p = "status" /\ ~IsPR(op.o) /\ IsPR(op.v)
CommitOps(s, os) == [ApplyOps(s, os) EXCEPT !.ws = s.ws \/ \E i \in DOMAIN os : AddsToWS(os[i])]

(* every operation valid when it is applied (storage.md), and carrying the  *)
(* true old value / old task                                               *)
RECURSIVE OpsTrue(_,_)
OpsTrue(s, os) ==
  IF os = <<>> THEN TRUE
  ELSE LET op == Head(os)
           ok == CASE op.k = "C" -> ~s.ex
                   [] op.k = "D" -> s.ex /\ op.om = s.m
                   [] op.k = "U" -> s.ex /\ op.o = s.m[op.p]
                   [] OTHER -> FALSE
       IN ok /\ OpsTrue(ApplyOp(s, op), Tail(os))

-----------------------------------------------------------------------------
(* The mutable part of a Task / TaskData object together with the           *)
(* Operations vector the caller passes in.                                  *)
Upd(x, k, v) ==      \* TaskData::update
  [x EXCEPT !.m[k] = v,
            !.ops = Append(x.ops, UOp(k, v, IF "OldStale" \in Dev /\ Len(x.ops) > 0
                                            THEN NoVal ELSE x.m[k]))]

SV(x, k, v) ==       \* Task::set_value
  LET refresh == (k # "modified" \/ "ModExplicit" \in Dev) /\ (~x.um \/ "ModAlways" \in Dev)
      x1 == IF refresh THEN Upd(x, "modified", "now") ELSE x
  IN [Upd(x1, k, v) EXCEPT !.um = TRUE]

SetStatusX(x, s) ==  \* Task::set_status: maintains "end"
  LET hasEnd == x.m["end"] # NoVal
      x1 == IF s \in {"pending","recurring"} /\ hasEnd /\ "KeepEnd" \notin Dev
              THEN SV(x, "end", NoVal)
            ELSE IF s \in {"completed","deleted"} /\ ~hasEnd THEN SV(x, "end", "now")
            ELSE x
  IN SV(x1, "status", s)

Ok(x)  == [x |-> x, res |-> "ok"]
Err(x) == [x |-> x, res |-> "err"]

UdaSetters  == {"set_uda","set_legacy_uda","set_user_defined_attribute"}
UdaRemovers == {"remove_uda","remove_legacy_uda","remove_user_defined_attribute"}
UdaAllowed(k) == k \in UdaKeys \/ "UdaOpen" \in Dev

TaskMutators == {"set_status","set_description","set_priority","set_entry","set_wait","set_due",
                 "set_modified","start","stop","done","delete","add_tag","remove_tag",
                 "add_annotation","remove_annotation","add_dependency","remove_dependency",
                 "set_value","set_timestamp"} \cup UdaSetters \cup UdaRemovers
DataMutators == {"data.update","data.delete"}

TaskMut(x, f, k, v) ==
  CASE f = "set_status"      -> Ok(SetStatusX(x, v))
    [] f = "set_description" -> Ok(SV(x, "description", v))
    [] f = "set_priority"    -> Ok(SV(x, "priority", v))
    [] f = "set_entry"       -> Ok(SV(x, "entry", v))
    [] f = "set_wait"        -> Ok(SV(x, "wait", v))
    [] f = "set_due"         -> Ok(SV(x, "due", v))
    [] f = "set_modified"    -> Ok(SV(x, "modified", v))
    [] f = "start"           -> IF x.m["start"] # NoVal THEN Ok(x) ELSE Ok(SV(x, "start", "now"))
    [] f = "stop"            -> Ok(SV(x, "start", NoVal))
    [] f = "done"            -> Ok(SetStatusX(x, "completed"))
    [] f = "delete"          -> Ok(SetStatusX(x, "deleted"))
    [] f = "add_tag"         -> IF k \in TagSynthKeys THEN Err(x) ELSE Ok(SV(x, k, "empty"))
    [] f = "remove_tag"      -> IF k \in TagSynthKeys THEN Err(x) ELSE Ok(SV(x, k, NoVal))
    [] f = "add_annotation"  -> Ok(SV(x, k, v))
    [] f = "remove_annotation" -> Ok(SV(x, k, NoVal))
    [] f = "add_dependency"  -> Ok(SV(x, k, "empty"))
    [] f = "remove_dependency" -> Ok(SV(x, k, NoVal))
    [] f \in UdaSetters      -> IF UdaAllowed(k) THEN Ok(SV(x, k, v)) ELSE Err(x)
    [] f \in UdaRemovers     -> IF UdaAllowed(k) THEN Ok(SV(x, k, NoVal)) ELSE Err(x)
    [] f \in {"set_value","set_timestamp"} -> Ok(SV(x, k, v))
    [] OTHER -> Err(x)

DataMut(x, f, k, v) ==
  CASE f = "data.update" -> Ok(Upd(x, k, v))
    [] f = "data.delete" -> Ok([x EXCEPT !.m = EmptyMap, !.ops = Append(x.ops, DOp(x.m))])
    [] OTHER -> Err(x)

-----------------------------------------------------------------------------
VARIABLES st,     \* the stored task: [ex, m, ws]
          ob,     \* the object in the caller's hands: [kind, m, um, blk, blkg]
          ops,    \* the Operations vector recorded since the last commit
          prev,   \* [m, n]: object map and Len(ops) before the last mutator call
          last    \* the last mutator call: [f, k, v, res]
vars == <<st, ob, ops, prev, last>>

NoObj  == [kind |-> "none", m |-> EmptyMap, um |-> FALSE, blk |-> FALSE, blkg |-> FALSE]
NoLast == [f |-> "-", k |-> "-", v |-> "-", res |-> "-"]
NoPrev == [m |-> EmptyMap, n |-> 0]

TypeOK ==
  /\ st.ex \in BOOLEAN /\ st.ws \in BOOLEAN /\ \A k \in AllKeys : st.m[k] \in ValsN
  /\ ob.kind \in {"none","task","data"} /\ \A k \in AllKeys : ob.m[k] \in ValsN
  /\ \A i \in DOMAIN ops : ops[i].k \in {"C","D","U"}

Init == st = Absent /\ ob = NoObj /\ ops = <<>> /\ prev = NoPrev /\ last = NoLast

Reset == st' = Absent /\ ob' = NoObj /\ ops' = <<>> /\ prev' = NoPrev /\ last' = NoLast

(* a task written by some application: TaskData::create, one TaskData::update *)
(* per entry, one commit                                                    *)
RECURSIVE InstallX(_,_)
InstallX(x, es) == IF es = <<>> THEN x ELSE InstallX(Upd(x, Head(es)[1], Head(es)[2]), Tail(es))
Install(es) ==
  /\ ~st.ex
  /\ st' = CommitOps(st, InstallX([m |-> EmptyMap, um |-> FALSE, ops |-> <<COp>>], es).ops)
  /\ ob' = NoObj /\ ops' = <<>> /\ prev' = NoPrev /\ last' = NoLast

(* Replica::get_task / create_task / get_task_data *)
Load(how) ==
  /\ \/ /\ how \in {"get_task","create_task"} /\ st.ex
        /\ ob' = [kind |-> "task", m |-> st.m, um |-> FALSE,
                  blk |-> Blocked(st), blkg |-> Blocking(st)]
        /\ ops' = ops
     \/ /\ how = "get_task_data" /\ st.ex
        /\ ob' = [kind |-> "data", m |-> st.m, um |-> FALSE, blk |-> FALSE, blkg |-> FALSE]
        /\ ops' = ops
     \/ /\ how \in {"get_task","get_task_data"} /\ ~st.ex
        /\ ob' = NoObj /\ ops' = ops
     \/ /\ how = "create_task" /\ ~st.ex      \* a new task and a recorded Create
        /\ ob' = [kind |-> "task", m |-> EmptyMap, um |-> FALSE, blk |-> FALSE, blkg |-> FALSE]
        /\ ops' = Append(ops, COp)
  /\ prev' = NoPrev /\ last' = NoLast /\ UNCHANGED st

Mut(f, k, v) ==
  LET x == [m |-> ob.m, um |-> ob.um, ops |-> ops]
      r == IF f \in TaskMutators THEN TaskMut(x, f, k, v) ELSE DataMut(x, f, k, v)
  IN /\ \/ f \in TaskMutators /\ ob.kind = "task"
        \/ f \in DataMutators /\ ob.kind = "data"
     /\ ob' = [ob EXCEPT !.m = r.x.m, !.um = r.x.um]
     /\ ops' = r.x.ops
     /\ prev' = [m |-> ob.m, n |-> Len(ops)]
     /\ last' = [f |-> f, k |-> k, v |-> v, res |-> r.res]
     /\ UNCHANGED st

IntoData ==    \* Task::into_task_data
  /\ ob.kind = "task"
  /\ ob' = [ob EXCEPT !.kind = "data", !.um = FALSE, !.blk = FALSE, !.blkg = FALSE]
  /\ prev' = [m |-> ob.m, n |-> Len(ops)]
  /\ last' = [f |-> "into_data", k |-> "-", v |-> "-", res |-> "ok"]
  /\ UNCHANGED <<st, ops>>

Commit ==      \* Replica::commit_operations(ops); the object is dropped
  /\ st' = CommitOps(st, ops)
  /\ ops' = <<>> /\ ob' = NoObj /\ prev' = NoPrev /\ last' = NoLast

-----------------------------------------------------------------------------
(* C18 *)
ReadersTotal ==
  \A m \in {st.m, ob.m} :
    /\ \A c \in TaskScalarCalls(m) : RS(m, FALSE, FALSE, c[1], c[2]) \notin {"panic","undefined-reader"}
    /\ \A c \in ReplicaScalarCalls : SS(st, c[1], c[2]) # "undefined-reader"

(* the model rules of tasks.md as relations between readers *)
ModelRules ==
  LET m == st.m  blk == Blocked(st)  blkg == Blocking(st)
      tags == RL(m, blk, blkg, "get_tags")
  IN /\ ("PENDING" \in tags) = (StatusOf(m) = "pending")
     /\ ("COMPLETED" \in tags) = (StatusOf(m) = "completed")
     /\ ("DELETED" \in tags) = (StatusOf(m) = "deleted")
     /\ ("ACTIVE" \in tags) = (m["start"] # NoVal)
     /\ ("BLOCKED" \in tags) # ("UNBLOCKED" \in tags)
     /\ ("WAITING" \in tags /\ m["tag:synth"] = NoVal) => m["wait"] \in FutureVals
     \* unreadable values are ignored, never reported
     /\ \A k \in TsKeys : m[k] \in TsBad => RS(m, blk, blkg, "get_timestamp", k) = "none"
     /\ RL(m, blk, blkg, "get_annotations") \subseteq {<<k, m[k]>> : k \in AnnValidKeys}
     /\ \A k \in Present(m) \ UdaKeys : RS(m, blk, blkg, "get_user_defined_attribute", k) = "none"
     \* blocked exactly when a stored dependency key names a stored-pending task and t1 is listed
     /\ blk = (st.ex /\ st.ws /\ \E k \in Present(m) \cap DepValidKeys : TargetPending(st, DepTarget(k)))
     /\ blkg = StoredPending(st)

(* C19 *)
Holding == ob.kind \in {"task","data"}
ValidSoFar == OpsTrue(st, ops)

(* committing the recorded operations gives the object's map *)
Agree ==
  (Holding /\ ValidSoFar) =>
     LET c == CommitOps(st, ops)
     IN IF c.ex THEN c.m = ob.m ELSE ob.m = EmptyMap

(* each recorded update carries the value the property really had (checked  *)
(* whenever the operations are applicable at all: no update after delete)   *)
RECURSIVE Applicable(_,_)
Applicable(s, os) ==
  IF os = <<>> THEN TRUE
  ELSE LET op == Head(os)
       IN (CASE op.k = "C" -> ~s.ex [] OTHER -> s.ex) /\ Applicable(ApplyOp(s, op), Tail(os))
OldValuesTrue == Applicable(st, ops) => OpsTrue(st, ops)

StatusArg == CASE last.f = "set_status" -> last.v [] last.f = "done" -> "completed"
               [] last.f = "delete" -> "deleted" [] OTHER -> "-"
EndRule ==
  /\ StatusArg \in {"completed","deleted"} => ob.m["end"] # NoVal
  /\ StatusArg \in {"pending","recurring"} => ob.m["end"] = NoVal
  /\ StatusArg # "-" => ob.m["status"] = StatusArg

IsAuto(op)     == op.k = "U" /\ op.p = "modified" /\ op.v = "now"
IsExplicit(op) == op.k = "U" /\ op.p = "modified" /\ op.v # "now"
ModifiedOnce ==
  /\ Cardinality({i \in DOMAIN ops : IsAuto(ops[i])}) <= 1
  /\ \A i, j \in DOMAIN ops : (IsExplicit(ops[i]) /\ IsAuto(ops[j])) => j < i
  \* never when set explicitly: such a call records the explicit update and nothing else
  /\ (last.f = "set_modified" \/ (last.f \in {"set_value","set_timestamp"} /\ last.k = "modified"))
       => (Len(ops) = prev.n + 1 /\ ~\E i \in (prev.n + 1)..Len(ops) : IsAuto(ops[i]))
  \* a Task mutator that changed something left a refreshed or explicitly set modified behind
  /\ (last.f \in TaskMutators /\ last.res = "ok" /\ Len(ops) > prev.n /\ ob.kind = "task")
       => \E i \in DOMAIN ops : ops[i].k = "U" /\ ops[i].p = "modified"

Rejections ==
  /\ last.res = "err" => (ob.m = prev.m /\ Len(ops) = prev.n)
  /\ (last.f \in UdaSetters \cup UdaRemovers /\ last.k \notin UdaKeys) => last.res = "err"
  /\ (last.f \in {"add_tag","remove_tag"} /\ last.k \in TagSynthKeys) => last.res = "err"

ReadBack ==
  LET m == ob.m IN
  /\ (last.f = "add_tag" /\ last.res = "ok") => last.k \in RL(m, ob.blk, ob.blkg, "get_tags")
  /\ (last.f = "remove_tag" /\ last.res = "ok") => last.k \notin RL(m, ob.blk, ob.blkg, "get_tags")
  /\ last.f = "add_annotation" => <<last.k, last.v>> \in RL(m, ob.blk, ob.blkg, "get_annotations")
  /\ last.f = "remove_annotation"
       => \A p \in RL(m, ob.blk, ob.blkg, "get_annotations") : p[1] # last.k
  /\ last.f = "add_dependency" => DepTarget(last.k) \in RL(m, ob.blk, ob.blkg, "get_dependencies")
  /\ last.f = "remove_dependency" => DepTarget(last.k) \notin RL(m, ob.blk, ob.blkg, "get_dependencies")
  /\ (last.f \in UdaSetters /\ last.res = "ok")
       => RS(m, ob.blk, ob.blkg, "get_user_defined_attribute", last.k) = last.v
  /\ (last.f \in UdaRemovers /\ last.res = "ok")
       => RS(m, ob.blk, ob.blkg, "get_user_defined_attribute", last.k) = "none"

TaskRules == TypeOK /\ Agree /\ OldValuesTrue /\ EndRule /\ ModifiedOnce /\ Rejections /\ ReadBack
=============================================================================
