----------------------------- MODULE ChainServer -----------------------------
(***************************************************************************)
(* The version-chain protocol every server backend must implement          *)
(* (docs/src/sync-protocol.md, src/server/types.rs), at the grain of whole *)
(* Server-trait calls: a single parent-child chain of versions, a new      *)
(* version accepted iff its parent is the latest one (any parent when      *)
(* there is none), otherwise rejected naming the latest, nothing changed   *)
(* on rejection; versions returned byte for byte; snapshots returned       *)
(* intact with the version they were stored for.                           *)
(*                                                                         *)
(* Version ids are positive integers in order of acceptance; parents that  *)
(* the server has never seen are any other integer (negative = unknown).   *)
(***************************************************************************)
EXTENDS Integers, Sequences, FiniteSets, TLC

VARIABLES chain,    \* Seq of [parent, id, body]
          snaps,    \* set of [ver, body]: snapshots currently stored (latest body per version)
          ghost     \* number of ids consumed by versions that were never acknowledged
                    \* (only used to keep trace ids aligned; see AddVersionUncertain)

cvars == <<chain, snaps, ghost>>

Latest == IF chain = <<>> THEN 0 ELSE chain[Len(chain)].id

CInit == chain = <<>> /\ snaps = {} /\ ghost = 0

Accepts(parent) == chain = <<>> \/ parent = Latest

(* add_version(parent, body) with its reply *)
AddVersionOk(parent, body, newid) ==
  /\ Accepts(parent)
  /\ chain' = Append(chain, [parent |-> parent, id |-> newid, body |-> body])
  /\ UNCHANGED <<snaps, ghost>>

AddVersionRejected(parent, expected) ==
  /\ ~Accepts(parent)
  /\ expected = Latest
  /\ UNCHANGED cvars

(* the call returned an error: either nothing happened, or the version was   *)
(* fully accepted and only the reply was lost (C11)                          *)
AddVersionFailed(parent, body, newid) ==
  \/ UNCHANGED cvars
  \/ AddVersionOk(parent, body, newid)

ChildOf(parent) == {i \in DOMAIN chain : chain[i].parent = parent}

(* get_child_version(parent): result is [kind, id, body] *)
GetChildResult(parent) ==
  IF ChildOf(parent) = {} THEN [kind |-> "none", id |-> 0, body |-> "-"]
  ELSE LET i == CHOOSE j \in ChildOf(parent) : TRUE
       IN [kind |-> "version", id |-> chain[i].id, body |-> chain[i].body]

AddSnapshot(ver, body) ==
  /\ snaps' = {s \in snaps : s.ver # ver} \cup {[ver |-> ver, body |-> body]}
  /\ UNCHANGED <<chain, ghost>>

(* a backend may keep only some of the stored snapshots (the newest, the last *)
(* written, ...), but at least one, and it never invents or alters one       *)
ForgetSnapshot(s) ==
  /\ s \in snaps /\ Cardinality(snaps) > 1
  /\ snaps' = snaps \ {s}
  /\ UNCHANGED <<chain, ghost>>

-----------------------------------------------------------------------------
(* every version has a distinct id and a distinct parent, and each version's  *)
(* parent is the id of the one before it: a single chain                     *)
VersionInvariant ==
  /\ \A i, j \in DOMAIN chain : i # j => chain[i].id # chain[j].id /\ chain[i].parent # chain[j].parent
  /\ \A i \in 2..Len(chain) : chain[i].parent = chain[i - 1].id
=============================================================================
