----------------------------- MODULE ChainServer -----------------------------
(***************************************************************************)
(* The version-chain protocol every server backend must implement          *)
(* (docs/src/sync-protocol.md, src/server/types.rs), at the grain of whole *)
(* Server-trait calls: a single parent-child chain of versions, a new      *)
(* version accepted iff its parent is the latest one (any parent when      *)
(* there is none), otherwise rejected naming the latest, nothing changed   *)
(* on rejection; versions returned byte for byte; snapshots returned       *)
(* intact with the version they were stored for.                           *)
(*                                                                         *)
(* Version ids are positive integers in order of acceptance; parents that  *)
(* the server has never seen are any other integer (negative = unknown).   *)
(***************************************************************************)
EXTENDS Integers, Sequences, FiniteSets, TLC

VARIABLES chain,    \* Seq of [parent, id, body]
          snaps,    \* set of [ver, body]: snapshots currently stored (latest body per version)
          ghost,    \* number of ids consumed by versions that were never acknowledged
                    \* (only used to keep trace ids aligned; see AddVersionUncertain)
          gone      \* ids of accepted versions the server no longer holds (docs/src/
                    \* sync-protocol.md: versions covered by a snapshot may be discarded;
                    \* the git backend does so after add_snapshot, src/server/gitsync cleanup)

cvars == <<chain, snaps, ghost, gone>>

Latest == IF chain = <<>> THEN 0 ELSE chain[Len(chain)].id

CInit == chain = <<>> /\ snaps = {} /\ ghost = 0 /\ gone = {}

Ids == {chain[i].id : i \in DOMAIN chain}
Pos(id) == IF id \in Ids THEN CHOOSE i \in DOMAIN chain : chain[i].id = id ELSE 0
(* version id is covered by the stored snapshot s: s is for a version on the chain at or  *)
(* after it, so a replica starting from s never asks for it                              *)
CoveredBy(id, s) == Pos(id) >= 1 /\ Pos(s.ver) >= Pos(id)
Covered(id) == \E s \in snaps : CoveredBy(id, s)

Accepts(parent) == chain = <<>> \/ parent = Latest

(* add_version(parent, body) with its reply *)
AddVersionOk(parent, body, newid) ==
  /\ Accepts(parent)
  /\ chain' = Append(chain, [parent |-> parent, id |-> newid, body |-> body])
  /\ UNCHANGED <<snaps, ghost, gone>>

AddVersionRejected(parent, expected) ==
  /\ ~Accepts(parent)
  /\ expected = Latest
  /\ UNCHANGED cvars

(* the call returned an error: either nothing happened, or the version was   *)
(* fully accepted and only the reply was lost (C11)                          *)
AddVersionFailed(parent, body, newid) ==
  \/ UNCHANGED cvars
  \/ AddVersionOk(parent, body, newid)

ChildOf(parent) == {i \in DOMAIN chain : chain[i].parent = parent}

(* get_child_version(parent): result is [kind, id, body]; Raw ignores discarding *)
GetChildRaw(parent) ==
  IF ChildOf(parent) = {} THEN [kind |-> "none", id |-> 0, body |-> "-"]
  ELSE LET i == CHOOSE j \in ChildOf(parent) : TRUE
       IN [kind |-> "version", id |-> chain[i].id, body |-> chain[i].body]
GetChildResult(parent) ==
  LET r == GetChildRaw(parent) IN
  IF r.kind = "version" /\ r.id \in gone THEN [kind |-> "none", id |-> 0, body |-> "-"] ELSE r

AddSnapshot(ver, body) ==
  /\ snaps' = {s \in snaps : s.ver # ver} \cup {[ver |-> ver, body |-> body]}
  /\ UNCHANGED <<chain, ghost, gone>>

(* a backend that holds a single snapshot (git: one file) replaces whatever it had *)
ReplaceSnapshot(ver, body) ==
  /\ snaps' = {[ver |-> ver, body |-> body]}
  /\ UNCHANGED <<chain, ghost, gone>>

(* a backend may keep only some of the stored snapshots (the newest, the last *)
(* written, ...), but at least one, and it never invents or alters one       *)
ForgetSnapshot(s) ==
  /\ s \in snaps /\ Cardinality(snaps) > 1
  /\ snaps' = snaps \ {s}
  /\ UNCHANGED <<chain, ghost, gone>>

(* the server discards versions: only versions covered by a snapshot it holds *)
Discard(S) ==
  /\ S # {} /\ S \subseteq Ids \ gone
  /\ \A id \in S : Covered(id)
  /\ gone' = gone \cup S
  /\ UNCHANGED <<chain, snaps, ghost>>

-----------------------------------------------------------------------------
(* every version has a distinct id and a distinct parent, and each version's  *)
(* parent is the id of the one before it: a single chain                     *)
VersionInvariant ==
  /\ \A i, j \in DOMAIN chain : i # j => chain[i].id # chain[j].id /\ chain[i].parent # chain[j].parent
  /\ \A i \in 2..Len(chain) : chain[i].parent = chain[i - 1].id

(* whatever was discarded, a new replica can still reach the latest state: some stored   *)
(* snapshot covers every discarded version, so snapshot + the versions after it suffice  *)
Reconstructible ==
  gone = {} \/ \E s \in snaps : \A id \in gone : CoveredBy(id, s)
=============================================================================
