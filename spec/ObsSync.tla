------------------------------- MODULE ObsSync -------------------------------
(***************************************************************************)
(* Property-level validation of the traces recorded by the sync driver     *)
(* (DESIGN.md 4.5).  TraceSync demands that every recorded step is the     *)
(* step the implementation-shaped specification TCSync takes next; this    *)
(* module demands only what the properties state.  The recorded values     *)
(* (what was committed, what was sent, what was stored as a snapshot) are  *)
(* taken as they are and JUDGED by the properties' formulas:               *)
(*   ReplicaInvariant, Converged, NoOutOfSync, SnapshotFaithful, WireClean *)
(*   (invariants), and per step: a commit applies its batch one operation  *)
(*   at a time and records it in order (C05), appends to the working set   *)
(*   only (C15); the undo clauses (C07); the rebuild clauses (C15); the    *)
(*   expiration batch (C20); snapshots only when the stated urgency meets  *)
(*   the threshold and never into a non-empty replica (C12); a failed sync *)
(*   only after an injected fault (C02/C04).                               *)
(* Internal steps of a sync (which requests it makes, in which order) are  *)
(* not constrained.  A trace accepted here but rejected by TraceSync is    *)
(* specification drift, not a violation.                                   *)
(***************************************************************************)
EXTENDS TCSync, Json, IOUtils, TLCExt

Rec == ndJsonDeserialize(IOEnv.TRACE)

VARIABLES l,
          pre,        \* [Replicas -> replica state when its running sync started]
          lasturg,    \* [Replicas -> urgency in the reply to the last accepted add_version]
          faulted,    \* [Replicas -> a fault was injected into the running sync]
          gotsnap,    \* [Replicas -> the running sync was handed a snapshot]
          own         \* [Replicas -> chain positions of the versions the running sync added]
ovars == <<vars, l, pre, lasturg, faulted, gotsnap, own>>

E == Rec[l]
IsEvent(name) == l <= Len(Rec) /\ Rec[l].a = name /\ l' = l + 1

JMapOK(pairs) == \A i \in DOMAIN pairs : pairs[i][1] \in Props
JMap(pairs) ==
  [q \in Props |-> IF \E i \in DOMAIN pairs : pairs[i][1] = q
                   THEN pairs[CHOOSE i \in DOMAIN pairs : pairs[i][1] = q][2]
                   ELSE NoVal]
JOp(j)  == [k |-> j.k, u |-> j.u, p |-> j.p, v |-> j.v, t |-> j.t, o |-> JMap(j.o)]
(* an empty JSON array is not always equal to <<>> for TLC: normalise *)
Norm(q) == IF DOMAIN q = {} THEN <<>> ELSE q
JOps(a) == IF DOMAIN a = {} THEN <<>> ELSE [i \in DOMAIN a |-> JOp(a[i])]
JOpsOK(a) == \A i \in DOMAIN a : JMapOK(a[i].o) /\ (a[i].k \in {"C","D","U"} => a[i].u \in Tasks)
                                /\ (a[i].k = "U" => a[i].p \in Props)
JTasksOK(a) == \A i \in DOMAIN a : a[i][1] \in Tasks /\ JMapOK(a[i][2])
JTasks(a) ==
  [u \in Tasks |-> IF \E i \in DOMAIN a : a[i][1] = u
                   THEN [ex |-> TRUE, m |-> JMap(a[CHOOSE i \in DOMAIN a : a[i][1] = u][2])]
                   ELSE Absent]
JDb(p) == [tasks |-> JTasks(p.tasks), ops |-> JOps(p.ops), base |-> p.base, ws |-> Norm(p.ws)]
JDbOK(p) == JTasksOK(p.tasks) /\ JOpsOK(p.ops) /\ p.ws0
Observed(r) == JDbOK(E.post) /\ db' = [db EXCEPT ![r] = JDb(E.post)]
Same(r) == JDbOK(E.post) /\ db[r] = JDb(E.post)

Running(r) == sy[r].pc # "idle"
Keep == UNCHANGED <<pre, lasturg, faulted, gotsnap, own>>

(* C01-C04 "no local change is lost, none takes effect twice": walking the chain from the     *)
(* replica's old base to its new one, rebasing its pending operations over every version that  *)
(* is not its own (docs/src/sync-model.md) and removing what its own versions carry, every    *)
(* own version must carry the next operations of the rebased list, in order, and nothing may  *)
(* be left at the end.  Independent of how many requests the sync made, and of batch sizes.   *)
IsPrefixOf(a, b) == Len(a) <= Len(b) /\ SubSeq(b, 1, Len(a)) = a
RECURSIVE SentExactly(_,_,_,_)
SentExactly(i, hi, cur, mine) ==
  IF i > hi THEN cur = <<>>
  ELSE IF i \in mine
       THEN IsPrefixOf(chain[i], cur)
            /\ SentExactly(i + 1, hi, SubSeq(cur, Len(chain[i]) + 1, Len(cur)), mine)
       ELSE SentExactly(i + 1, hi, RebaseVersion(chain[i], cur, EmptyDb, <<>>).l, mine)

OReset ==
  /\ IsEvent("Reset")
  /\ db' = [r \in Replicas |-> EmptyReplica] /\ chain' = <<>> /\ snap' = NoSnap
  /\ sy' = [r \in Replicas |-> Idle] /\ err' = [r \in Replicas |-> FALSE]
  /\ pre' = [r \in Replicas |-> EmptyReplica] /\ lasturg' = [r \in Replicas |-> "none"]
  /\ faulted' = [r \in Replicas |-> FALSE] /\ gotsnap' = [r \in Replicas |-> FALSE]
  /\ own' = [r \in Replicas |-> {}]

(* C05 / C15: the commit is the batch applied one operation at a time, recorded in order *)
OEdit ==
  /\ IsEvent("Edit") /\ JOpsOK(E.ops) /\ ~Running(E.r)
  /\ IF E.res = "ok"
     THEN /\ Observed(E.r)
          /\ LET d == db[E.r]  e == db'[E.r]  b == JOps(E.ops) IN
             /\ e.tasks = ApplyAll(d.tasks, b)
             /\ e.ops = d.ops \o b
             /\ e.base = d.base
             /\ (b # <<>> => e.ws = WsAdd(d.ws, b))
             /\ CommitAppendsOnly(d, e)
     ELSE Same(E.r) /\ UNCHANGED db                 \* all or nothing
  /\ UNCHANGED <<chain, snap, sy, err>> /\ Keep

OStart ==
  /\ IsEvent("SyncStart") /\ ~Running(E.r)
  /\ sy' = [sy EXCEPT ![E.r] = [Idle EXCEPT !.pc = "run", !.av = E.avoid]]
  /\ pre' = [pre EXCEPT ![E.r] = db[E.r]]
  /\ lasturg' = [lasturg EXCEPT ![E.r] = "none"]
  /\ faulted' = [faulted EXCEPT ![E.r] = FALSE]
  /\ gotsnap' = [gotsnap EXCEPT ![E.r] = FALSE]
  /\ own' = [own EXCEPT ![E.r] = {}]
  /\ UNCHANGED <<db, chain, snap, err>>

(* C12: a snapshot is handed only to an entirely empty replica *)
OGetSnapshot ==
  /\ IsEvent("GetSnapshot") /\ Running(E.r)
  /\ IsEmptyDb(pre[E.r])
  /\ gotsnap' = [gotsnap EXCEPT ![E.r] = E.some]
  /\ UNCHANGED <<vars, pre, lasturg, faulted, own>>

OPull == IsEvent("Pull") /\ Running(E.r) /\ UNCHANGED vars /\ Keep

(* what is stored on the server is what was sent; WireClean judges it *)
OPush ==
  /\ IsEvent("Push") /\ Running(E.r) /\ E.wire_ok /\ JOpsOK(E.ops)
  /\ IF E.res = "ok"
     THEN /\ chain' = Append(chain, JOps(E.ops)) /\ E.ver = Len(chain')
          /\ lasturg' = [lasturg EXCEPT ![E.r] = E.urg]
          /\ own' = [own EXCEPT ![E.r] = @ \cup {Len(chain) + 1}]
     ELSE UNCHANGED <<chain, lasturg, own>>
  /\ faulted' = [faulted EXCEPT ![E.r] = @ \/ E.lost]
  /\ UNCHANGED <<db, snap, sy, err, pre, gotsnap>>

(* C12: produced only when the stated urgency meets the threshold; SnapshotFaithful judges it *)
OSnapshot ==
  /\ IsEvent("Snapshot") /\ Running(E.r) /\ E.decode_ok /\ JTasksOK(E.tasks)
  /\ Rank(lasturg[E.r]) >= Threshold(sy[E.r])
  /\ snap' = IF ~snap.some \/ snap.ver < E.ver
             THEN [some |-> TRUE, ver |-> E.ver, tasks |-> JTasks(E.tasks), trim |-> snap.trim] ELSE snap
  /\ faulted' = [faulted EXCEPT ![E.r] = @ \/ E.lost]
  /\ UNCHANGED <<db, chain, sy, err, pre, lasturg, gotsnap, own>>

OFault ==
  /\ IsEvent("Fault") /\ Running(E.r)
  /\ faulted' = [faulted EXCEPT ![E.r] = TRUE]
  /\ UNCHANGED <<vars, pre, lasturg, gotsnap, own>>

(* the committed state is taken as recorded; the invariants judge it *)
OCommit ==
  /\ (IsEvent("SyncCommit") \/ IsEvent("SyncRebuild")) /\ Running(E.r)
  /\ Observed(E.r)
  /\ UNCHANGED <<chain, snap, sy, err>> /\ Keep

ODone ==
  /\ IsEvent("SyncDone") /\ Running(E.r) /\ Same(E.r)
  /\ \/ /\ E.res = "ok"
        \* the working set after a sync: exactly the pending tasks, old numbers stable (C15)
        /\ RebuildClauses([pre[E.r] EXCEPT !.tasks = db[E.r].tasks], db[E.r], FALSE)
        /\ SentExactly(pre[E.r].base + 1, db[E.r].base, ToSync(pre[E.r].ops), own[E.r])
        /\ UNCHANGED err
     \/ E.res = "outofsync" /\ err' = [err EXCEPT ![E.r] = TRUE]
     \/ /\ E.res = "injected"
        \* C04: an interrupted sync leaves the stored data as it was -- or, when the failure
        \* hit the working-set rebuild that FOLLOWS the committed sync transaction, the sync
        \* is complete (everything sent, in order) and only the working set may be stale
        /\ \/ db[E.r] = pre[E.r]
           \/ SentExactly(pre[E.r].base + 1, db[E.r].base, ToSync(pre[E.r].ops), own[E.r])
        /\ UNCHANGED err
  /\ sy' = [sy EXCEPT ![E.r] = Idle]
  /\ UNCHANGED <<db, chain, snap>> /\ Keep

OTrim == IsEvent("Trim") /\ ServerTrim(E.n) /\ Keep

(* C19: the dependency map and the synthetic tags derived from it reflect the stored tasks *)
OObserve == IsEvent("Observe") /\ Same(E.r) /\ DepMapAsStored(db[E.r], E) /\ UNCHANGED vars /\ Keep

OInstallWS ==
  /\ IsEvent("InstallWS") /\ ~Running(E.r) /\ Observed(E.r)
  /\ db'[E.r] = [db[E.r] EXCEPT !.ws = Norm(E.ws)]
  /\ UNCHANGED <<chain, snap, sy, err>> /\ Keep

OGetUndo ==
  /\ IsEvent("GetUndo") /\ JOpsOK(E.ops)
  /\ JOps(E.ops) = UndoOps(db[E.r])          \* back to and including the last undo point
  /\ UNCHANGED vars /\ Keep

(* C07 *)
OUndo ==
  /\ IsEvent("Undo") /\ JOpsOK(E.undo) /\ ~Running(E.r)
  /\ IF E.res = "injected" /\ JDb(E.post) = db[E.r] THEN Same(E.r) /\ UNCHANGED db
     ELSE /\ Observed(E.r)     \* (an injected failure of the rebuild that follows a committed undo)
          /\ UndoClauses(db[E.r], db'[E.r], JOps(E.undo), IF E.res = "injected" THEN "true" ELSE E.res)
          /\ db'[E.r].base = db[E.r].base /\ db'[E.r].ws = db[E.r].ws
  /\ UNCHANGED <<chain, snap, sy, err>> /\ Keep

(* C15 *)
ORebuild ==
  /\ IsEvent("Rebuild") /\ ~Running(E.r) /\ Observed(E.r)
  /\ db'[E.r] = [db[E.r] EXCEPT !.ws = db'[E.r].ws]
  /\ RebuildClauses(db[E.r], db'[E.r], E.renumber)
  /\ UNCHANGED <<chain, snap, sy, err>> /\ Keep

(* C20 *)
OExpire ==
  /\ IsEvent("Expire") /\ E.res = "ok" /\ ~Running(E.r) /\ Observed(E.r)
  /\ LET d == db[E.r]  e == db'[E.r]
         b == SubSeq(e.ops, Len(d.ops) + 1, Len(e.ops))
     IN /\ Len(e.ops) >= Len(d.ops) /\ SubSeq(e.ops, 1, Len(d.ops)) = d.ops
        /\ IsExpireBatch(d.tasks, b)
        /\ e.tasks = ApplyAll(d.tasks, b) /\ e.base = d.base
  /\ UNCHANGED <<chain, snap, sy, err>> /\ Keep

ONext ==
  \/ OReset \/ OEdit \/ OStart \/ OGetSnapshot \/ OPull \/ OPush \/ OSnapshot \/ OFault
  \/ OCommit \/ ODone \/ OTrim \/ OObserve \/ OInstallWS \/ OGetUndo \/ OUndo \/ ORebuild \/ OExpire

OInit ==
  /\ Init /\ l = 1
  /\ pre = [r \in Replicas |-> EmptyReplica] /\ lasturg = [r \in Replicas |-> "none"]
  /\ faulted = [r \in Replicas |-> FALSE] /\ gotsnap = [r \in Replicas |-> FALSE]
  /\ own = [r \in Replicas |-> {}]
OSpec == OInit /\ [][ONext]_ovars

(* ReplicaInvariant of TCSync speaks about pc "idle"/"rebuild": here a replica is idle iff no *)
(* sync of it is running                                                                     *)
Accepted ==
  LET d == TLCGet("stats").diameter IN
  IF d - 1 = Len(Rec) THEN TRUE
  ELSE Print(<<"TRACE-REJECTED-AT", d, ToJson(Rec[d])>>, FALSE)
=============================================================================
