----------------------------- MODULE LocalStore -----------------------------
(***************************************************************************)
(* The local SQLite server (src/server/local/mod.rs) at the grain of SQL   *)
(* transactions, with a process stop between any two of them (C11).        *)
(* TwoTxns = TRUE is the pinned tree (L1: INSERT version and REPLACE       *)
(* latest in separate transactions); FALSE is the repaired tree.           *)
(***************************************************************************)
EXTENDS Integers, Sequences, FiniteSets, TLC

CONSTANTS Handles, MaxVer, MaxOps, TwoTxns

VARIABLES versions,   \* table: set of [id, parent]
          latestPtr,  \* data.latest_version_id (0 = none)
          st,         \* [Handles -> [pc, parent, new]]
          base,       \* the version each handle's replica is based on
          nextId, nops, acked, served

vars == <<versions, latestPtr, st, base, nextId, nops, acked, served>>
Idle == [pc |-> "idle", parent |-> 0, new |-> 0]

Init == /\ versions = {} /\ latestPtr = 0 /\ st = [h \in Handles |-> Idle]
        /\ base = [h \in Handles |-> 0] /\ nextId = 1 /\ nops = [h \in Handles |-> 0]
        /\ acked = {} /\ served = {}

(* add_version(parent = base[h]) *)
AVStart(h) ==
  /\ st[h].pc = "idle" /\ nops[h] < MaxOps /\ nextId <= MaxVer
  /\ nops' = [nops EXCEPT ![h] = @ + 1]
  /\ IF latestPtr # 0 /\ base[h] # latestPtr
     THEN st' = st /\ UNCHANGED nextId                      \* ExpectedParentVersion
     ELSE /\ st' = [st EXCEPT ![h] = [pc |-> IF TwoTxns THEN "ins" ELSE "both", parent |-> base[h], new |-> nextId]]
          /\ nextId' = nextId + 1
  /\ UNCHANGED <<versions, latestPtr, base, acked, served>>

Insert(h) ==   \* pinned: its own transaction
  /\ st[h].pc = "ins"
  /\ versions' = versions \cup {[id |-> st[h].new, parent |-> st[h].parent]}
  /\ st' = [st EXCEPT ![h].pc = "set"]
  /\ UNCHANGED <<latestPtr, base, nextId, nops, acked, served>>

SetLatest(h) ==
  /\ st[h].pc = "set"
  /\ latestPtr' = st[h].new
  /\ acked' = acked \cup {st[h].new} /\ base' = [base EXCEPT ![h] = st[h].new]
  /\ st' = [st EXCEPT ![h] = Idle]
  /\ UNCHANGED <<versions, nextId, nops, served>>

Both(h) ==     \* repaired: one transaction
  /\ st[h].pc = "both"
  \* the latest pointer is re-read inside the transaction
  /\ IF latestPtr # 0 /\ st[h].parent # latestPtr
     THEN UNCHANGED <<versions, latestPtr, acked, base>>
     ELSE /\ versions' = versions \cup {[id |-> st[h].new, parent |-> st[h].parent]}
          /\ latestPtr' = st[h].new
          /\ acked' = acked \cup {st[h].new} /\ base' = [base EXCEPT ![h] = st[h].new]
  /\ st' = [st EXCEPT ![h] = Idle]
  /\ UNCHANGED <<nextId, nops, served>>

(* get_child_version(base[h]): serves whatever row has that parent *)
GetChild(h) ==
  /\ st[h].pc = "idle" /\ nops[h] < MaxOps
  /\ nops' = [nops EXCEPT ![h] = @ + 1]
  /\ IF \E v \in versions : v.parent = base[h]
     THEN LET v == CHOOSE x \in versions : x.parent = base[h]
          IN served' = served \cup {v.id} /\ base' = [base EXCEPT ![h] = v.id]
     ELSE UNCHANGED <<served, base>>
  /\ UNCHANGED <<versions, latestPtr, st, nextId, acked>>

Crash(h) ==    \* the process stops; uncommitted work is rolled back
  /\ st[h].pc # "idle"
  /\ st' = [st EXCEPT ![h] = Idle]
  /\ UNCHANGED <<versions, latestPtr, base, nextId, nops, acked, served>>

Next == \E h \in Handles : AVStart(h) \/ Insert(h) \/ SetLatest(h) \/ Both(h) \/ GetChild(h) \/ Crash(h)

(* each parent has at most one child row, so the chain cannot fork *)
OneChild == \A v, w \in versions : v.parent = w.parent => v = w
(* every version that is visible at all is on the walk back from the latest pointer:
   "either fully accepted or not visible at all" *)
RECURSIVE OnWalk(_,_,_)
OnWalk(id, cur, fuel) ==
  IF fuel = 0 \/ cur = 0 THEN FALSE
  ELSE IF cur = id THEN TRUE
  ELSE IF \E v \in versions : v.id = cur
       THEN OnWalk(id, (CHOOSE v \in versions : v.id = cur).parent, fuel - 1) ELSE FALSE
VisibleIsAccepted == \A v \in versions : OnWalk(v.id, latestPtr, MaxVer + 1)
=============================================================================
