------------------------------ MODULE GitStore ------------------------------
(***************************************************************************)
(* The git backend (src/server/gitsync/mod.rs) at the grain of file writes *)
(* and git commands: working tree, index, local branch and shared remote   *)
(* as trees; one action per file write / git command of add_version and    *)
(* get_child_version; a process stop (Crash: in-memory state lost, then    *)
(* init_repo on the next open) or a failing command (Fail: the process     *)
(* lives on with its cached meta) between any two of them.  C11 / C08.     *)
(*                                                                         *)
(* FixInitReset / FixInitRemote / FixErrRollback = FALSE is the pinned     *)
(* tree (G1, G2); all TRUE is the repaired tree (fix 3d73859).             *)
(***************************************************************************)
EXTENDS Integers, Sequences, FiniteSets, TLC

CONSTANTS Clones, MaxVer, MaxOps, MaxFaults,
          RemoteMode,      \* TRUE: clones share a remote; FALSE: local-only (use one clone)
          FixInitReset,    \* candidate repair: on open, restore tracked files to HEAD before reading meta
          FixInitRemote,   \* candidate repair: on open in remote mode, reset to the remote branch
          FixErrRollback,  \* candidate repair: a failed command inside add_version rolls the working tree back
          FixOwnPush       \* repair b5f755c (G7): after a "failed" push, a version that is the remote's
                           \* latest one is reported as accepted, not as rejected

Nil == 0
Tree(v, m) == [vers |-> v, meta |-> m]
Empty == Tree({}, Nil)

VARIABLES wt,        \* [c -> tree]   working tree files (version files + meta)
          idx,       \* [c -> tree]   index
          commits,   \* [c -> Seq(tree)] local branch
          remote,    \* Seq(tree)
          mem,       \* [c -> latest id cached in memory]
          st,        \* [c -> record: pc, parent, new]
          base,      \* [c -> version the client (replica) of this clone is based on]
          nextId, acked, served, nops, nfaults, bad,
          lied       \* a call answered "rejected" although the version it added is on the chain

vars == <<wt, idx, commits, remote, mem, st, base, nextId, acked, served, nops, nfaults, bad, lied>>

Idle == [pc |-> "idle", parent |-> 0, new |-> 0]

Init ==
  /\ wt = [c \in Clones |-> Empty] /\ idx = [c \in Clones |-> Empty]
  /\ commits = [c \in Clones |-> <<Empty>>] /\ remote = <<Empty>>
  /\ mem = [c \in Clones |-> Nil] /\ st = [c \in Clones |-> Idle]
  /\ base = [c \in Clones |-> Nil]
  /\ nextId = 1 /\ acked = {} /\ served = {} /\ nops = [c \in Clones |-> 0] /\ nfaults = 0 /\ bad = FALSE /\ lied = FALSE

Last(s) == s[Len(s)]
Front(s) == SubSeq(s, 1, Len(s) - 1)
IsPrefix(a, b) == Len(a) <= Len(b) /\ SubSeq(b, 1, Len(a)) = a

Go(c, pc) == st' = [st EXCEPT ![c].pc = pc]

\* ---- reset_to_remote in two command groups: fetch + reset --hard ; clean
RTR1(c) == IF RemoteMode
           THEN /\ commits' = [commits EXCEPT ![c] = remote]
                /\ idx' = [idx EXCEPT ![c] = Last(remote)]
                \* tracked files take the remote content; untracked version files survive until clean
                /\ wt' = [wt EXCEPT ![c] = Tree(Last(remote).vers \cup (wt[c].vers \ idx[c].vers), Last(remote).meta)]
           ELSE UNCHANGED <<commits, idx, wt>>
RTR2(c) == IF RemoteMode THEN wt' = [wt EXCEPT ![c].vers = wt[c].vers \cap idx[c].vers] ELSE UNCHANGED wt

\* ---------------- add_version(parent = base[c])
AVStart(c) ==
  /\ st[c].pc = "idle" /\ nops[c] < MaxOps /\ nextId <= MaxVer
  /\ nops' = [nops EXCEPT ![c] = @ + 1]
  /\ st' = [st EXCEPT ![c] = [pc |-> IF mem[c] # Nil /\ base[c] # mem[c] THEN "av_r1" ELSE "av_w1", parent |-> base[c], new |-> 0]]
  /\ UNCHANGED <<wt, idx, commits, remote, mem, base, nextId, acked, served, nfaults, bad, lied>>
AVr1(c) == /\ st[c].pc = "av_r1" /\ RTR1(c) /\ Go(c, "av_r2")
           /\ UNCHANGED <<remote, mem, base, nextId, acked, served, nops, nfaults, bad, lied>>
AVr2(c) == /\ st[c].pc = "av_r2" /\ RTR2(c) /\ Go(c, "av_r3")
           /\ UNCHANGED <<idx, commits, remote, mem, base, nextId, acked, served, nops, nfaults, bad, lied>>
AVr3(c) == /\ st[c].pc = "av_r3"
           /\ mem' = [mem EXCEPT ![c] = wt[c].meta]
           /\ IF st[c].parent # wt[c].meta THEN st' = [st EXCEPT ![c] = Idle]   \* ExpectedParentVersion
              ELSE Go(c, "av_w1")
           /\ UNCHANGED <<wt, idx, commits, remote, base, nextId, acked, served, nops, nfaults, bad, lied>>
AVw1(c) == /\ st[c].pc = "av_w1"
           /\ wt' = [wt EXCEPT ![c].vers = @ \cup {<<st[c].parent, nextId>>}]
           /\ st' = [st EXCEPT ![c].pc = "av_w2", ![c].new = nextId]
           /\ nextId' = nextId + 1
           /\ UNCHANGED <<idx, commits, remote, mem, base, acked, served, nops, nfaults, bad, lied>>
AVw2(c) == /\ st[c].pc = "av_w2"
           /\ mem' = [mem EXCEPT ![c] = st[c].new]
           /\ wt' = [wt EXCEPT ![c].meta = st[c].new]
           /\ Go(c, "av_a1")
           /\ UNCHANGED <<idx, commits, remote, base, nextId, acked, served, nops, nfaults, bad, lied>>
AVa1(c) == /\ st[c].pc = "av_a1"
           /\ idx' = [idx EXCEPT ![c].vers = @ \cup {<<st[c].parent, st[c].new>>}]
           /\ Go(c, "av_a2")
           /\ UNCHANGED <<wt, commits, remote, mem, base, nextId, acked, served, nops, nfaults, bad, lied>>
AVa2(c) == /\ st[c].pc = "av_a2"
           /\ idx' = [idx EXCEPT ![c].meta = wt[c].meta]
           /\ Go(c, "av_c")
           /\ UNCHANGED <<wt, commits, remote, mem, base, nextId, acked, served, nops, nfaults, bad, lied>>
AVc(c) ==  /\ st[c].pc = "av_c"
           /\ commits' = [commits EXCEPT ![c] = Append(@, idx[c])]
           /\ Go(c, "av_p")
           /\ UNCHANGED <<wt, idx, remote, mem, base, nextId, acked, served, nops, nfaults, bad, lied>>
AVp(c) ==  /\ st[c].pc = "av_p"
           /\ IF ~RemoteMode \/ IsPrefix(remote, commits[c])
              THEN /\ remote' = IF RemoteMode THEN commits[c] ELSE remote
                   /\ acked' = acked \cup {<<st[c].parent, st[c].new>>}
                   /\ base' = [base EXCEPT ![c] = st[c].new]
                   /\ st' = [st EXCEPT ![c] = Idle]
              ELSE /\ Go(c, "av_x1") /\ UNCHANGED <<remote, acked, base>>
           /\ UNCHANGED <<wt, idx, commits, mem, nextId, served, nops, nfaults, bad, lied>>
(* git push reports a failure although the remote took the push (reply lost): the code   *)
(* treats every failing push as a rejection and goes on to undo its commit                *)
AVpLost(c) ==
  /\ st[c].pc = "av_p" /\ RemoteMode /\ IsPrefix(remote, commits[c]) /\ nfaults < MaxFaults
  /\ nfaults' = nfaults + 1
  /\ remote' = commits[c]
  /\ Go(c, "av_x1")
  /\ UNCHANGED <<wt, idx, commits, mem, base, nextId, acked, served, nops, bad, lied>>
AVx1(c) == /\ st[c].pc = "av_x1"
           /\ commits' = [commits EXCEPT ![c] = Front(@)]
           /\ Go(c, "av_x2")
           /\ UNCHANGED <<wt, idx, remote, mem, base, nextId, acked, served, nops, nfaults, bad, lied>>
AVx2(c) == /\ st[c].pc = "av_x2" /\ RTR1(c) /\ Go(c, "av_x3")
           /\ UNCHANGED <<remote, mem, base, nextId, acked, served, nops, nfaults, bad, lied>>
AVx3(c) == /\ st[c].pc = "av_x3" /\ RTR2(c) /\ Go(c, "av_x4")
           /\ UNCHANGED <<idx, commits, remote, mem, base, nextId, acked, served, nops, nfaults, bad, lied>>
AVx4(c) == /\ st[c].pc = "av_x4"
           /\ mem' = [mem EXCEPT ![c] = wt[c].meta]
           /\ st' = [st EXCEPT ![c] = Idle]
           /\ IF FixOwnPush /\ <<st[c].parent, st[c].new>> \in wt[c].vers
              THEN \* the version this call added is part of the remote state taken over: Ok(new)
                   \* (the first form of the repair compared with the remote's LATEST version
                   \* only; TLC refuted it: another clone adds a version on top in between)
                   /\ acked' = acked \cup {<<st[c].parent, st[c].new>>}
                   /\ base' = [base EXCEPT ![c] = st[c].new]
                   /\ UNCHANGED lied
              ELSE \* ExpectedParentVersion(mem)
                   /\ lied' = (lied \/ <<st[c].parent, st[c].new>> \in Last(remote).vers)
                   /\ UNCHANGED <<acked, base>>
           /\ UNCHANGED <<wt, idx, commits, remote, nextId, served, nops, nfaults, bad>>

\* ---------------- get_child_version(parent = base[c]); a found version is adopted as the new base
Serve(c, e) == /\ base' = [base EXCEPT ![c] = e[2]]
               /\ served' = served \cup {e}
               \* in remote mode a served version must be on the remote; in local mode it must be connected
               /\ bad' = (bad \/ (RemoteMode /\ e \notin Last(remote).vers))
               /\ UNCHANGED lied
GCStart(c) ==
  /\ st[c].pc = "idle" /\ nops[c] < MaxOps
  /\ nops' = [nops EXCEPT ![c] = @ + 1]
  /\ LET found == {e \in wt[c].vers : e[1] = base[c]} IN
     IF found # {}
     THEN /\ \E e \in found : Serve(c, e)
          /\ UNCHANGED st
     ELSE /\ st' = [st EXCEPT ![c] = [pc |-> "gc_r1", parent |-> base[c], new |-> 0]]
          /\ UNCHANGED <<base, served, bad, lied>>
  /\ UNCHANGED <<wt, idx, commits, remote, mem, nextId, acked, nfaults>>
GCr1(c) == /\ st[c].pc = "gc_r1" /\ RTR1(c) /\ Go(c, "gc_r2")
           /\ UNCHANGED <<remote, mem, base, nextId, acked, served, nops, nfaults, bad, lied>>
GCr2(c) == /\ st[c].pc = "gc_r2" /\ RTR2(c) /\ Go(c, "gc_r3")
           /\ UNCHANGED <<idx, commits, remote, mem, base, nextId, acked, served, nops, nfaults, bad, lied>>
GCr3(c) == /\ st[c].pc = "gc_r3"
           /\ mem' = [mem EXCEPT ![c] = wt[c].meta]
           /\ LET found == {e \in wt[c].vers : e[1] = st[c].parent} IN
              IF found # {} THEN \E e \in found : Serve(c, e) ELSE UNCHANGED <<base, served, bad, lied>>
           /\ st' = [st EXCEPT ![c] = Idle]
           /\ UNCHANGED <<wt, idx, commits, remote, nextId, acked, nops, nfaults>>

\* ---------------- faults
\* process stop at any point: memory lost; reopen runs init_repo
Reopen(c) ==
  LET w0 == IF FixInitReset THEN idx[c] ELSE wt[c]   \* git reset --hard HEAD would also reset idx; see below
  IN TRUE
Crash(c) ==
  /\ nfaults < MaxFaults /\ st[c].pc # "idle"
  /\ nfaults' = nfaults + 1
  /\ st' = [st EXCEPT ![c] = Idle]
  /\ LET head == Last(commits[c])
         \* FixInitRemote: fetch + reset --hard to the remote branch first
         c1 == IF FixInitRemote /\ RemoteMode THEN remote ELSE commits[c]
         h1 == Last(c1)
         \* FixInitReset (or FixInitRemote): tracked files and index restored to the head tree
         restore == FixInitReset \/ (FixInitRemote /\ RemoteMode)
         i1 == IF restore THEN h1 ELSE idx[c]
         w1 == IF restore THEN Tree(h1.vers \cup (wt[c].vers \ idx[c].vers), h1.meta) ELSE wt[c]
         \* clean_stray_files: untracked version files removed
         w2 == Tree(w1.vers \cap i1.vers, w1.meta)
     IN /\ commits' = [commits EXCEPT ![c] = c1]
        /\ idx' = [idx EXCEPT ![c] = i1]
        /\ wt' = [wt EXCEPT ![c] = w2]
        /\ mem' = [mem EXCEPT ![c] = w2.meta]
  /\ UNCHANGED <<remote, base, nextId, acked, served, nops, bad, lied>>
\* a command fails: the call returns Err, the process (and its cached meta) lives on
Fail(c) ==
  /\ nfaults < MaxFaults /\ st[c].pc \in {"av_a1", "av_a2", "av_c", "av_r1", "av_x2", "gc_r1"}
  /\ nfaults' = nfaults + 1
  /\ st' = [st EXCEPT ![c] = Idle]
  /\ IF FixErrRollback /\ st[c].pc \in {"av_a1", "av_a2", "av_c", "av_x2"}
     THEN LET h == Last(commits[c]) IN
          /\ idx' = [idx EXCEPT ![c] = h] /\ wt' = [wt EXCEPT ![c] = h] /\ mem' = [mem EXCEPT ![c] = h.meta]
     ELSE UNCHANGED <<idx, wt, mem>>
  /\ UNCHANGED <<commits, remote, base, nextId, acked, served, nops, bad, lied>>

Next == \E c \in Clones :
  \/ AVStart(c) \/ AVr1(c) \/ AVr2(c) \/ AVr3(c) \/ AVw1(c) \/ AVw2(c) \/ AVa1(c) \/ AVa2(c)
  \/ AVc(c) \/ AVp(c) \/ AVpLost(c) \/ AVx1(c) \/ AVx2(c) \/ AVx3(c) \/ AVx4(c)
  \/ GCStart(c) \/ GCr1(c) \/ GCr2(c) \/ GCr3(c) \/ Crash(c) \/ Fail(c)

-----------------------------------------------------------------------------
\* walk back from id m over a set of version files
RECURSIVE Connected(_,_,_)
Connected(V, m, fuel) ==
  IF m = Nil THEN TRUE
  ELSE IF fuel = 0 THEN FALSE
  ELSE \E e \in V : e[2] = m /\ Connected(V, e[1], fuel - 1)

\* the authoritative state: the remote head in remote mode, the clone's disk in local mode
Auth(c) == IF RemoteMode THEN Last(remote) ELSE wt[c]

\* "latest" always names a version whose whole ancestry is present (no phantom, no hole)
ChainWhole == \A c \in Clones : st[c].pc = "idle" => Connected(Auth(c).vers, Auth(c).meta, MaxVer + 1)
\* an idle clone's cached/disk meta never names a version that is missing from its own files
NoPhantom == \A c \in Clones : st[c].pc = "idle" => Connected(wt[c].vers, wt[c].meta, MaxVer + 1)
OneChild == \A e1, e2 \in acked : e1[1] = e2[1] => e1 = e2
NoUnpushedServed == ~bad
\* "changes nothing on rejection" also when a reply is lost (G7)
NoFalseRejection == ~lied
\* everything a client was told is accepted, and everything it was served, stays in the authoritative chain
Durable == \A c \in Clones : st[c].pc = "idle" => (acked \cup served) \subseteq Auth(c).vers \cup (IF RemoteMode THEN {} ELSE {})
=============================================================================
