------------------------------ MODULE TraceTask ------------------------------
(***************************************************************************)
(* Trace validation for TaskModel: every line of the ndjson trace recorded *)
(* from the real code (harness/src/taskdrv.rs) must be a step of the       *)
(* corresponding TaskModel action, with the logged result, object map,     *)
(* recorded operations and stored task equal to the specification's; every *)
(* reader result of a Read / ReadObj sweep must be the specification's      *)
(* (total) reader function of the state the specification is in.           *)
(***************************************************************************)
EXTENDS TaskModel, Json, IOUtils, TLCExt

Rec == ndJsonDeserialize(IOEnv.TRACE)

VARIABLE l
tvars == <<vars, l>>

E == Rec[l]
IsEvent(name) == l <= Len(Rec) /\ Rec[l].a = name /\ l' = l + 1

-----------------------------------------------------------------------------
(* JSON -> specification values.  Maps are arrays of [key, value] pairs.    *)
JMapOK(pairs) ==
  /\ \A i \in DOMAIN pairs : pairs[i][1] \in AllKeys /\ pairs[i][2] \in AllVals
  /\ \A i, j \in DOMAIN pairs : pairs[i][1] = pairs[j][1] => i = j
JMap(pairs) ==
  [k \in AllKeys |-> IF \E i \in DOMAIN pairs : pairs[i][1] = k
                     THEN pairs[CHOOSE i \in DOMAIN pairs : pairs[i][1] = k][2]
                     ELSE NoVal]
JOpsOK(a) ==
  \A i \in DOMAIN a :
    /\ a[i].k \in {"C","D","U"} /\ a[i].u = "t1" /\ JMapOK(a[i].om)
    /\ a[i].k = "U" => (a[i].p \in AllKeys /\ a[i].v \in ValsN /\ a[i].o \in ValsN /\ a[i].t = "now")
JOps(a) == [i \in DOMAIN a |-> [k |-> a[i].k, p |-> a[i].p, v |-> a[i].v, o |-> a[i].o,
                                om |-> IF a[i].om = <<>> THEN EmptyMap ELSE JMap(a[i].om)]]
JEntries(a) == [i \in DOMAIN a |-> <<a[i][1], a[i][2]>>]

StoredIs(s) == JMapOK(E.m) /\ E.ex = B(s.ex) /\ E.ws = B(s.ws) /\ JMap(E.m) = s.m
ObjPost == /\ JMapOK(E.m) /\ JMap(E.m) = ob'.m
           /\ JOpsOK(E.ops) /\ JOps(E.ops) = ops'

-----------------------------------------------------------------------------
(* reader sweeps: E.s = [f, k, result], E.l = [f, k, list], E.p = [f, k, list of pairs] *)
ToSet(q) == {q[i] : i \in DOMAIN q}
Calls(a) == {<<a[i][1], a[i][2]>> : i \in DOMAIN a}
PairSet(q) == {<<q[i][1], q[i][2]>> : i \in DOMAIN q}
PairLists == {"get_annotations","get_udas","get_legacy_udas","get_user_defined_attributes",
              "data.iter","get_taskmap"}

(* task-level sweep: E.s scalars, E.l lists, E.p lists of pairs *)
TaskSweepOK(m, blk, blkg) ==
  LET tsc == TaskScalarCalls(m) IN
  /\ Calls(E.s) = tsc
  /\ \A i \in DOMAIN E.s : E.s[i][3] = RS(m, blk, blkg, E.s[i][1], E.s[i][2])
  /\ \A i \in DOMAIN E.l :
       /\ ToSet(E.l[i][3]) = RL(m, blk, blkg, E.l[i][1])
       /\ Len(E.l[i][3]) = RLLen(m, blk, blkg, E.l[i][1])
  /\ \A i \in DOMAIN E.p :
       /\ E.p[i][1] \in PairLists
       /\ PairSet(E.p[i][3]) = RL(m, blk, blkg, E.p[i][1])
       /\ Len(E.p[i][3]) = RLLen(m, blk, blkg, E.p[i][1])
  /\ TaskListCalls = {E.l[i][1] : i \in DOMAIN E.l} \cup {E.p[i][1] : i \in DOMAIN E.p}

(* replica-level sweep: E.rs scalars, E.rl lists *)
ReplicaSweepOK(s) ==
  LET calls == Calls(E.rs) IN
  /\ ReplicaScalarCalls \subseteq calls
  /\ calls \subseteq ReplicaScalarCalls \cup OptionalScalarCalls
  /\ \A i \in DOMAIN E.rs : E.rs[i][3] = SS(s, E.rs[i][1], E.rs[i][2])
  /\ Calls(E.rl) = ReplicaListCalls
  /\ \A i \in DOMAIN E.rl :
       LET x == SL(s, E.rl[i][1], E.rl[i][2])
       \* (the dependency map keeps one edge per dep_ key: a task named by two spellings of
       \* its uuid appears twice)
       IN ToSet(E.rl[i][3]) = x
          /\ IF E.rl[i][1] \in {"dm.dependencies", "dmf.dependencies", "dm.dependents", "dmf.dependents"}
             THEN Len(E.rl[i][3]) >= Cardinality(x) ELSE Len(E.rl[i][3]) = Cardinality(x)

-----------------------------------------------------------------------------
TReset == IsEvent("Reset") /\ Reset

TInstall ==
  /\ IsEvent("Install")
  /\ JMapOK(E.e)
  /\ Install(JEntries(E.e))
  /\ StoredIs(st')

TLoad ==
  /\ IsEvent("Load")
  /\ Load(E.f)
  /\ E.res = ob'.kind
  /\ E.blk = B(ob'.blk) /\ E.blkg = B(ob'.blkg)
  /\ ObjPost

TMut ==
  /\ IsEvent("Mut")
  /\ IF E.f = "into_data" THEN IntoData ELSE Mut(E.f, E.k, E.v)
  /\ E.res = last'.res
  /\ ObjPost

TCommit ==
  /\ IsEvent("Commit") /\ E.res = "ok"
  /\ Commit
  /\ StoredIs(st')

(* every read accessor on the task as handed out by the replica now *)
TRead ==
  /\ IsEvent("Read")
  /\ StoredIs(st)
  /\ IF st.ex THEN TaskSweepOK(st.m, Blocked(st), Blocking(st))
              ELSE E.s = <<>> /\ E.l = <<>> /\ E.p = <<>>
  /\ ReplicaSweepOK(st)
  /\ UNCHANGED vars

(* the Task readers on the object in the caller's hands *)
TReadObj ==
  /\ IsEvent("ReadObj")
  /\ ob.kind = "task"
  /\ JMapOK(E.m) /\ JMap(E.m) = ob.m
  /\ TaskSweepOK(ob.m, ob.blk, ob.blkg)
  /\ UNCHANGED vars

TNext == TReset \/ TInstall \/ TLoad \/ TMut \/ TCommit \/ TRead \/ TReadObj

TInit == Init /\ l = 1
TSpec == TInit /\ [][TNext]_tvars

(* accepted iff every line was consumed *)
Accepted ==
  LET d == TLCGet("stats").diameter IN
  IF d - 1 = Len(Rec) THEN TRUE
  ELSE Print(<<"TRACE-REJECTED-AT", d, ToJson(Rec[d])>>, FALSE)

(* the invariants of TaskModel evaluated along the trace.  TaskRules reads   *)
(* only ob, ops, prev, last and st, which change at Load / Mut steps (and    *)
(* at Commit / Reset / Install, after which no object is held);  ModelRules  *)
(* reads only st, which changes at Install / Commit / Reset: evaluating each *)
(* where its variables changed covers every state of the trace.            *)
After(S) == l > 1 /\ Rec[l - 1].a \in S
TraceInv ==
  /\ After({"Load", "Mut"}) => (TypeOK /\ TaskRules)
  /\ After({"Install", "Commit", "Reset"}) => (TypeOK /\ TaskRules /\ ModelRules)

-----------------------------------------------------------------------------
(* diagnostic configuration (run on one rejected behaviour): the reader     *)
(* results that differ from the specification, printed when the trace is    *)
(* stuck at a sweep                                                        *)
BadScalars(m, blk, blkg) ==
  {<<E.s[i], "expected", RS(m, blk, blkg, E.s[i][1], E.s[i][2])>> :
     i \in {i \in DOMAIN E.s : E.s[i][3] # RS(m, blk, blkg, E.s[i][1], E.s[i][2])}}
BadLists(m, blk, blkg) ==
  {<<E.l[i], "expected", RL(m, blk, blkg, E.l[i][1])>> :
     i \in {i \in DOMAIN E.l : ToSet(E.l[i][3]) # RL(m, blk, blkg, E.l[i][1])
                                 \/ Len(E.l[i][3]) # RLLen(m, blk, blkg, E.l[i][1])}}
BadPairs(m, blk, blkg) ==
  {<<E.p[i], "expected", RL(m, blk, blkg, E.p[i][1])>> :
     i \in {i \in DOMAIN E.p : PairSet(E.p[i][3]) # RL(m, blk, blkg, E.p[i][1])
                                 \/ Len(E.p[i][3]) # RLLen(m, blk, blkg, E.p[i][1])}}
BadRScalars(s) ==
  {<<E.rs[i], "expected", SS(s, E.rs[i][1], E.rs[i][2])>> :
     i \in {i \in DOMAIN E.rs : E.rs[i][3] # SS(s, E.rs[i][1], E.rs[i][2])}}
BadRLists(s) ==
  {<<E.rl[i], "expected", SL(s, E.rl[i][1], E.rl[i][2])>> :
     i \in {i \in DOMAIN E.rl : ToSet(E.rl[i][3]) # SL(s, E.rl[i][1], E.rl[i][2])
                                  \/ Len(E.rl[i][3]) # Cardinality(SL(s, E.rl[i][1], E.rl[i][2]))}}
CallDiff(m) == <<"missing-calls", TaskScalarCalls(m) \ Calls(E.s),
                 "unexpected-calls", Calls(E.s) \ TaskScalarCalls(m)>>
Diag ==
  (l <= Len(Rec) /\ ~ENABLED TNext) =>
     IF E.a = "Read" /\ JMapOK(E.m)
     THEN Print(<<"STUCK-AT-READ", l, "stored-as-specified", StoredIs(st),
                  IF st.ex THEN <<BadScalars(st.m, Blocked(st), Blocking(st)),
                                  BadLists(st.m, Blocked(st), Blocking(st)),
                                  BadPairs(st.m, Blocked(st), Blocking(st)), CallDiff(st.m)>>
                  ELSE <<"task absent in the specification">>,
                  BadRScalars(st), BadRLists(st)>>, FALSE)
     ELSE IF E.a = "ReadObj" /\ JMapOK(E.m)
     THEN Print(<<"STUCK-AT-READOBJ", l, "object-as-specified", JMap(E.m) = ob.m,
                  BadScalars(ob.m, ob.blk, ob.blkg), BadLists(ob.m, ob.blk, ob.blkg),
                  BadPairs(ob.m, ob.blk, ob.blkg), CallDiff(ob.m)>>, FALSE)
     ELSE Print(<<"STUCK-AT", l, E.a, "spec-state", st, ob, ops>>, FALSE)
=============================================================================
