------------------------------ MODULE MCCloud ------------------------------
(***************************************************************************)
(* Model-checking harness for CloudStore: each client performs a bounded   *)
(* number of server operations on behalf of a replica (add a version on    *)
(* top of the version it knows, read the child of that version, store /    *)
(* fetch a snapshot); every interleaving of the individual object-store    *)
(* requests is explored.                                                   *)
(***************************************************************************)
EXTENDS CloudStore, Json

CONSTANTS MaxOps,        \* operations per client
          Ops,           \* subset of {"AV","GC","AS","GS"}
          Draws,         \* draw values offered after a successful swap, e.g. {0, 255}
          WithAges,      \* TRUE: the Age action is enabled
          MaxFaults,     \* number of injected faults per behaviour
          Emit, MaxLen,
          Sit            \* which situation MEmitSit looks for (see Situation)

VARIABLES nops, nfaults, h, everSnapOnChain
mvars == <<vars, nops, nfaults, h, everSnapOnChain>>
MView == <<latest, vers, pay, old, snaps, spay, nextId,
           [c \in Clients |-> [cl[c] EXCEPT !.req = <<"-", "-">>, !.rres = "-", !.res = NoRes]],
           base, acked, bad, nops, nfaults, everSnapOnChain>>

Ev(a, c) == [a |-> a, c |-> c, draw |-> -1, arg |-> 0]
Body(c) == c \o "-" \o ToString(nops[c])

Track == everSnapOnChain' = (everSnapOnChain \/ (snaps' \cap {e[2] : e \in Walk(acked', latest')}) # {})

Call(c) ==
  /\ cl[c].pc = "idle" /\ nops[c] < MaxOps
  /\ \/ "AV" \in Ops /\ AVCall(c, base[c], Body(c)) /\ h' = Append(h, Ev("AV", c))
     \/ "GC" \in Ops /\ GCCall(c, base[c]) /\ h' = Append(h, Ev("GC", c))
     \* a snapshot is uploaded by the sync that has just added (or pulled) the version: it is not
     \* an old version by then
     \/ "AS" \in Ops /\ base[c] >= 1 /\ base[c] \notin old
          /\ ASCall(c, base[c], Body(c)) /\ h' = Append(h, Ev("AS", c))
     \/ "GS" \in Ops /\ GSCall(c) /\ h' = Append(h, Ev("GS", c))
  /\ nops' = [nops EXCEPT ![c] = @ + 1]
  /\ UNCHANGED nfaults /\ Track

(* one granted object-store request (or an internal step) of client c *)
Step(c) ==
  /\ \/ AV1(c) \/ AV4(c) \/ AV5(c)
     \/ (\E n \in NewIds : AV2(c, n))
     \/ ListStep(c)
     \/ CLL(c) \/ CLV(c) \/ CLS(c) \/ CLXO(c)
     \/ (\E e \in cl[c].dels : CLD(c, e))
     \/ (\E s \in cl[c].sdel : CLXS(c, s))
     \/ GC1(c) \/ GC2(c) \/ GC4(c)
     \/ (\E k \in cl[c].todo : GC3(c, k))
     \/ AS1(c) \/ GS2(c)
     \/ (\E s \in snaps \cup {0} : GS1(c, s))
  /\ h' = Append(h, Ev("Step", c))
  /\ UNCHANGED <<nops, nfaults>> /\ Track

StepDraw(c) ==
  \E d \in Draws :
    /\ (AV3(c, d) \/ AVU(c, d))
    /\ h' = Append(h, [Ev("Step", c) EXCEPT !.draw = d])
    /\ UNCHANGED <<nops, nfaults>> /\ Track

Fault(c) ==
  /\ nfaults < MaxFaults
  /\ \/ (FailBefore(c) \/ CLAbort(c)) /\ h' = Append(h, Ev("FailBefore", c))
     \/ ((\E n \in NewIds : FailAfterPut(c, n)) \/ FailAfterCas(c) \/ FailAfterDel(c) \/ FailAfterSnap(c))
          /\ h' = Append(h, Ev("FailAfter", c))
  /\ nfaults' = nfaults + 1
  /\ UNCHANGED nops /\ Track

(* the retention age is 180 days: it does not pass while an add_snapshot (one put, made by the *)
(* sync that has just added that version) is in flight                                      *)
AgeStep == WithAges /\ Age /\ (\A c \in Clients : cl[c].pc # "as1")
           /\ h' = Append(h, Ev("Age", "-")) /\ UNCHANGED <<nops, nfaults>> /\ Track

MInit == Init /\ nops = [c \in Clients |-> 0] /\ nfaults = 0 /\ h = <<>> /\ everSnapOnChain = FALSE
MNext == AgeStep \/ \E c \in Clients : Call(c) \/ Step(c) \/ StepDraw(c) \/ Fault(c)

(* C10: once a snapshot on the chain has been stored, cleanup never leaves   *)
(* the chain without one (it deletes only snapshots made redundant)         *)
SnapshotRetained == everSnapOnChain => SnapsOnChain # {}

AllIdleC == \A c \in Clients : cl[c].pc = "idle"
HBound == Len(h) <= MaxLen
MEmit == (Emit /\ ((AllIdleC /\ (\A c \in Clients : nops[c] = MaxOps)) \/ Len(h) >= MaxLen))
            => PrintT(<<"REPLAY", ToJson(h)>>)
(* schedules that lead to a state violating a property (used to demonstrate a  *)
(* deviation on the real code)                                               *)
MEmitBad == (Emit /\ ~(OneChildPerParent /\ AckedOnChain /\ ReadsOnChain /\ RetainedComplete
                       /\ FreshCanReconstruct))
            => PrintT(<<"REPLAY", ToJson(h)>>)
(* Situations that random schedules rarely reach; TLC finds shortest schedules   *)
(* into them, and the harness lets the operations run to their end from there.  *)
InSit(c) ==
  CASE Sit = "probe"   -> cl[c].pc = "gc3"
    [] Sit = "probe1"  -> cl[c].pc = "gc3" /\ Cardinality(cl[c].cands) = 1
    [] Sit = "probe2"  -> cl[c].pc = "gc3" /\ Cardinality(cl[c].cands) >= 2
    [] Sit = "lostcas" -> cl[c].pc = "av4"
    \* ... lost while latest moved on by two versions: the winner on this parent is not latest
    [] Sit = "lostcas2" -> cl[c].pc = "av4" /\ \E e \in acked : e[1] = cl[c].parent /\ e[2] # latest
    [] Sit = "orphans" -> cl[c].pc = "clD" /\ cl[c].dels # {}
    [] Sit = "snapdel" -> cl[c].pc = "clX" /\ cl[c].sdel # {}
    [] Sit = "olddel"  -> cl[c].pc = "clX" /\ cl[c].odel # <<>>
    [] Sit = "snapold" -> cl[c].pc = "clX" /\ cl[c].sdel # {} /\ cl[c].odel # <<>>
    [] OTHER -> FALSE
MEmitSit ==
  (Emit /\ \E c \in Clients : InSit(c))
    => PrintT(<<"REPLAY", ToJson(Append(h, Ev("Mark", CHOOSE c \in Clients : InSit(c))))>>)
=============================================================================
