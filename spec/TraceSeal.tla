------------------------------ MODULE TraceSeal ------------------------------
(***************************************************************************)
(* Trace validation for Seal: every event recorded by the harness driver   *)
(* sealdrv.rs (raw hook calls, the three remote backends) must be a step   *)
(* of Seal.  A stored value appears in the trace as the term the harness's *)
(* INDEPENDENT decoder (docs/src/encryption.md on ring primitives) made of *)
(* the bytes it found in the storage; it must equal the term the           *)
(* specification holds for that label.  Each read outcome must be the      *)
(* specification's Open of the term it holds for the label read.           *)
(*                                                                         *)
(* Nonce indices are global over the whole trace (order of first           *)
(* appearance of the 12 bytes), so nextNonce survives Reset: a term whose  *)
(* nonce was seen before has an older index and is rejected.               *)
(***************************************************************************)
EXTENDS Seal, Json, IOUtils, TLCExt

Rec == ndJsonDeserialize(IOEnv.TRACE)
VARIABLE l
tvars == <<vars, l>>
E == Rec[l]
IsEvent(name) == l <= Len(Rec) /\ Rec[l].a = name /\ l' = l + 1

Lab(x) == <<x[1], x[2], x[3]>>
Key(x) == <<x[1], x[2]>>

TReset ==
  /\ IsEvent("Reset")
  /\ backend' = E.backend
  /\ store' = EmptyStore /\ nver' = 0 /\ sealLog' = {} /\ nseals' = 0
  /\ returned' = {} /\ last' = NoLast /\ phase' = "write"
  /\ UNCHANGED nextNonce

(* the decoded stored value is the specification's term, byte layout as     *)
(* documented: format byte 1, 12 nonce bytes, ciphertext and 16-byte tag    *)
StoredAsSpecified(lab) ==
  /\ E.term = store'[lab]
  /\ E.diag.fmt_byte = 1 /\ E.diag.nonce_len = 12
  /\ E.diag.len = E.diag.ptlen + 29
  /\ E.diag.opened_by = 1 /\ E.diag.roundtrip

TAddVersion ==
  /\ IsEvent("AddVersion")
  /\ Lab(E.lab) = <<"v", Vid(nver), Vid(nver + 1)>>
  /\ AddVersion(Key(E.key), E.pt)
  /\ StoredAsSpecified(Lab(E.lab))

TAddSnapshot ==
  /\ IsEvent("AddSnapshot")
  /\ AddSnapshot(Key(E.key), Lab(E.lab), E.pt)
  /\ StoredAsSpecified(Lab(E.lab))

TSealRaw ==
  /\ IsEvent("SealRaw")
  /\ SealRaw(Key(E.key), Lab(E.lab), E.pt)
  /\ StoredAsSpecified(Lab(E.lab))

TForeign ==
  /\ IsEvent("Foreign")
  /\ Foreign(Lab(E.lab), Key(E.key), E.pt)
  /\ StoredAsSpecified(Lab(E.lab))

TMutate == IsEvent("Mutate") /\ Mutate(E.m, Lab(E.lab))

TRelabel == IsEvent("Relabel") /\ Relabel(Lab(E.from), Lab(E.lab))

TRead ==
  /\ IsEvent("Read")
  /\ Read(Key(E.key), Lab(E.lab))
  /\ last'.res = E.res /\ last'.pt = E.pt

(* every mutated variant was refused: no data, no panic, nothing else *)
TSweep ==
  /\ IsEvent("Sweep")
  /\ SweepRefused(E.m, Key(E.key), Lab(E.lab))
  /\ E.n >= 1 /\ E.errors = E.n /\ E.returned = 0 /\ E.panics = 0 /\ E.others = 0
  /\ UNCHANGED vars

(* the value under one label offered under every other label: returned iff  *)
(* the label keeps the authenticated version id (and the reader has the key) *)
TRelabelSweep ==
  /\ IsEvent("RelabelSweep")
  /\ Lab(E.from) \in LabelsOf(backend) /\ store[Lab(E.from)] # NoTerm
  /\ Len(E.results) >= 1
  /\ \A i \in DOMAIN E.results :
       LET to == Lab(E.results[i][1])
           r == RelabelOutcome(Lab(E.from), Key(E.key), to) IN
       /\ to \in LabelsOf(backend)
       /\ E.results[i][2] = (IF r = Err THEN "error" ELSE "returned")
       /\ E.results[i][3] = (IF r = Err THEN None ELSE r)
  /\ UNCHANGED vars

(* nothing the storage holds (names, values, requests, files, git objects)  *)
(* contains the plaintext marker                                            *)
TScan ==
  /\ IsEvent("Scan")
  /\ E.items >= 1 /\ E.hits = 0
  /\ NoPlaintextStored
  /\ UNCHANGED vars

TNext == TReset \/ TAddVersion \/ TAddSnapshot \/ TSealRaw \/ TForeign \/ TMutate \/ TRelabel
         \/ TRead \/ TSweep \/ TRelabelSweep \/ TScan
TInit == Init /\ l = 1
TSpec == TInit /\ [][TNext]_tvars

Accepted ==
  LET d == TLCGet("stats").diameter IN
  IF d - 1 = Len(Rec) THEN TRUE
  ELSE Print(<<"TRACE-REJECTED-AT", d, ToJson(Rec[d])>>, FALSE)
=============================================================================
