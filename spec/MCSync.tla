------------------------------- MODULE MCSync -------------------------------
(***************************************************************************)
(* Model-checking harness for TCSync: bounded local edits, the phased      *)
(* initial states for racing configurations, and a history variable h from *)
(* which schedules are exported to the implementation harness.             *)
(***************************************************************************)
EXTENDS TCSync, Json

CONSTANTS MaxPending,  \* max unsynchronised operations per replica
          MaxEdits,    \* total budget of local edits
          AvoidSet,    \* replicas that pass avoid_snapshots = TRUE
          MaxSyncs,    \* total budget of sync calls
          MaxLen,      \* schedule length at which a simulated behaviour is emitted
          Urg,         \* urgencies the server may answer (subset of Urgencies)
          Sit,         \* which situation EmitSit looks for (see InSit)
          WithTrim,    \* TRUE: the server may discard versions covered by its snapshot
          EditKinds,   \* kinds of operations local edits may use (subset of {"C","D","U","P"})
          Emit         \* TRUE: print one REPLAY line per finished behaviour

VARIABLES edits, syncs, h
mcvars == <<vars, edits, syncs, h>>
View == <<vars, edits>>          \* h and the sync counter are observation only


ValidOps(ts) ==
  {o \in {C(u) : u \in {x \in Tasks : ~ts[x].ex}}
         \cup {D(u, ts[u].m) : u \in {x \in Tasks : ts[x].ex}}
         \cup {U(u, p, v, t, ts[u].m[p]) : u \in {x \in Tasks : ts[x].ex}, p \in Props,
                                          v \in ValsN, t \in Times}
         \cup {UndoPoint} : o.k \in EditKinds}

Ev(a, r) == [a |-> a, r |-> r, ops |-> <<>>, urg |-> "-"]

MCEdit(r) ==
  /\ (Racing \/ AllIdle)
  /\ edits < MaxEdits /\ syncs < MaxSyncs
  /\ Len(db[r].ops) < MaxPending
  /\ \E o \in ValidOps(db[r].tasks) :
       /\ Edit(r, <<o>>)
       /\ h' = Append(h, [Ev("Edit", r) EXCEPT !.ops = <<o>>])
  /\ edits' = edits + 1 /\ UNCHANGED syncs

HasWork(r) == db[r].ops # <<>> \/ db[r].base < Len(chain)

MCStart(r) ==
  /\ (edits < MaxEdits \/ HasWork(r))
  /\ syncs < MaxSyncs
  /\ (Racing \/ AllIdle)
  /\ SyncStart(r, r \in AvoidSet)
  /\ h' = Append(h, Ev("Start", r)) /\ UNCHANGED edits /\ syncs' = syncs + 1

(* one granted server request, or the final commit / rebuild *)
MCStep(r) ==
  /\ \/ SyncGetSnapshot(r) \/ SyncPull(r) \/ SyncSnapshot(r) \/ SyncCommit(r) \/ SyncRebuild(r)
  /\ h' = Append(h, Ev("Step", r)) /\ UNCHANGED <<edits, syncs>>

MCPush(r) ==
  \E urg \in Urg :
    /\ SyncPush(r, urg)
    /\ h' = Append(h, [Ev("Step", r) EXCEPT !.urg = urg]) /\ UNCHANGED <<edits, syncs>>

MCAbort(r) ==
  /\ sy[r].pc \notin {"commit", "rebuild"}    \* exported as: fail the next request
  /\ SyncAbort(r)
  /\ h' = Append(h, Ev("FailBefore", r)) /\ UNCHANGED <<edits, syncs>>

MCLost(r) ==
  /\ (PushLostReply(r) \/ SnapLostReply(r))
  /\ h' = Append(h, Ev("LostReply", r)) /\ UNCHANGED <<edits, syncs>>

MCTrim ==
  /\ WithTrim
  /\ \E n \in 1..Len(chain) : ServerTrim(n) /\ h' = Append(h, [Ev("Trim", "-") EXCEPT !.urg = ToString(n)])
  /\ UNCHANGED <<edits, syncs>>

MCInit == Init /\ edits = 0 /\ syncs = 0 /\ h = <<>>

MCNext == MCTrim \/ \E r \in Replicas :
  MCEdit(r) \/ MCStart(r) \/ MCStep(r) \/ MCPush(r) \/ MCAbort(r) \/ MCLost(r)

-----------------------------------------------------------------------------
(* Phased configuration (racing syncs): every replica starts at a common    *)
(* synchronised state holding a prior local history of its own-valued      *)
(* operations; afterwards only sync steps happen.                          *)
ValOf == CHOOSE f \in [Replicas -> Vals] : \A x, y \in Replicas : x # y => f[x] # f[y]
ExistAll == [u \in Tasks |-> EmptyTask]
RECURSIVE CreateAll(_)
CreateAll(S) == IF S = {} THEN <<>> ELSE LET u == CHOOSE x \in S : TRUE IN <<C(u)>> \o CreateAll(S \ {u})

RECURSIVE WithOld(_,_)    \* fill in true old values along the sequence
WithOld(ts, os) ==
  IF os = <<>> THEN <<>>
  ELSE LET o == Head(os)
           oo == IF o.k = "U" THEN U(o.u, o.p, o.v, o.t, ts[o.u].m[o.p])
                 ELSE IF o.k = "D" THEN D(o.u, ts[o.u].m) ELSE o
       IN <<oo>> \o WithOld(Apply(ts, oo), Tail(os))

GenAlphabet(r) == {U(u, p, ValOf[r], t, NoVal) : u \in Tasks, p \in Props, t \in Times}
                  \cup {D(u, EmptyMap) : u \in Tasks}
ValidSeq(os) == \A i \in 1..Len(os) : \A j \in 1..(i-1) :
                  os[j] # os[i] /\ ~(os[j].k = "D" /\ os[j].u = os[i].u)
GenSeqs(r) == {os \in SeqsUpTo(GenAlphabet(r), MaxPending) : ValidSeq(os)}
CONSTANT MaxLong   \* at most this many replicas hold more than one operation
PInit ==
  /\ chain = <<CreateAll(Tasks)>>
  /\ snap = NoSnap
  /\ \E f \in [Replicas -> UNION {GenSeqs(r) : r \in Replicas}] :
        /\ \A r \in Replicas : f[r] \in GenSeqs(r)
        /\ Cardinality({r \in Replicas : Len(f[r]) > 1}) <= MaxLong
        /\ db = [r \in Replicas |->
                   [tasks |-> ApplyAll(ExistAll, f[r]), ops |-> WithOld(ExistAll, f[r]),
                    base |-> 1, ws |-> <<>>]]
        /\ h = <<[a |-> "Prior", r |-> "-", urg |-> "-",
                  ops |-> [r \in Replicas |-> WithOld(ExistAll, f[r])]]>>
  /\ sy = [r \in Replicas |-> Idle]
  /\ err = [r \in Replicas |-> FALSE]
  /\ edits = MaxEdits
  /\ syncs = 0

-----------------------------------------------------------------------------
Done == \/ AllIdle /\ ((Quiescent /\ edits = MaxEdits) \/ syncs = MaxSyncs)
        \/ \E r \in Replicas : err[r]
        \/ Len(h) = MaxLen

(* Situations that random schedules rarely reach; TLC finds shortest schedules into them *)
InSit(r) ==
  CASE Sit = "reject2"  -> sy[r].nrej >= 2                          \* rejected twice in one sync
    [] Sit = "rejectmid" -> sy[r].nrej >= 1 /\ db[r].base < sy[r].tb /\ sy[r].cur # <<>>
                                                                    \* rejected after an own version
    [] Sit = "snaprace" -> sy[r].pc = "snapshot" /\ sy[r].tb < Len(chain)
                                                                    \* snapshot due, chain moved on
    [] OTHER -> FALSE
EmitSit == (Emit /\ \E r \in Replicas : InSit(r)) => PrintT(<<"REPLAY", ToJson(h)>>)

EmitReplay == (Emit /\ Done) => PrintT(<<"REPLAY", ToJson(h)>>)
=============================================================================
