------------------------------ MODULE MCReplica ------------------------------
(***************************************************************************)
(* Model-checking harness for the replica-local actions of TCReplica /     *)
(* TCSync: commit_operations with arbitrary batches (valid or not), undo   *)
(* (get_undo_operations + commit_reversed_operations, also with a stale    *)
(* list), rebuild_working_set in both modes, interleaved with complete     *)
(* syncs.  Serves C05, C07, C15.                                           *)
(***************************************************************************)
EXTENDS MCSync

CONSTANTS MaxBatch,      \* max length of a committed batch
          Alphabet,      \* subset of {"C","D","U","P","S"}: kinds in batches ("S": status updates)
          Statuses,      \* status values used by "S" updates
          LocalKinds,    \* subset of {"Batch","Undo","Rebuild","Sync"}: actions enabled
          OnlyValid,     \* TRUE: only batches whose operations are valid when committed
          EmitAll        \* TRUE: emit the schedule at every idle state (prefixes are dropped
                         \* afterwards); FALSE: only at length MaxLen (simulation)

VARIABLES fetched,       \* [Replicas -> undo list last fetched with get_undo_operations]
          wsok,          \* all working-set clauses held at every rebuild / commit so far
          undook         \* all undo clauses held at every undo so far
rvars == <<mcvars, fetched, wsok, undook>>
RView == <<vars, edits, fetched, wsok, undook>>

(* every operation over the alphabet, valid or not in the current state;   *)
(* old values are the true ones where the task exists, unset otherwise     *)
OpsFor(ts) ==
  (IF "C" \in Alphabet THEN {C(u) : u \in Tasks} ELSE {})
  \cup (IF "D" \in Alphabet THEN {D(u, ts[u].m) : u \in Tasks} ELSE {})
  \cup (IF "U" \in Alphabet
        THEN {U(u, p, v, t, ts[u].m[p]) : u \in Tasks, p \in Props \ {"status"}, v \in (Vals \ Statuses) \cup {NoVal}, t \in Times}
        ELSE {})
  \cup (IF "S" \in Alphabet /\ "status" \in Props
        THEN {U(u, "status", v, t, ts[u].m["status"]) : u \in Tasks, v \in Statuses, t \in Times}
        ELSE {})
  \cup (IF "P" \in Alphabet THEN {UndoPoint} ELSE {})

(* batches built operation by operation so that old values follow the      *)
(* state as the batch proceeds                                             *)
RECURSIVE Batches(_,_)
Batches(ts, n) ==
  IF n = 0 THEN {<<>>}
  ELSE {<<>>} \cup UNION { {<<o>> \o b : b \in Batches(Apply(ts, o), n - 1)} : o \in OpsFor(ts) }

RBatch(r) ==
  /\ "Batch" \in LocalKinds /\ sy[r].pc = "idle" /\ AllIdle
  /\ edits < MaxEdits
  /\ \E b \in Batches(db[r].tasks, MaxBatch) \ {<<>>} :
       /\ Len(db[r].ops) + Len(b) <= MaxPending
       /\ (OnlyValid => ValidFrom(db[r].tasks, b))
       /\ Edit(r, b)
       /\ h' = Append(h, [Ev("Edit", r) EXCEPT !.ops = b])
       \* C15: a commit only appends to the working set
       /\ wsok' = (wsok /\ CommitAppendsOnly(db[r], db'[r]))
  /\ edits' = edits + 1
  /\ UNCHANGED <<syncs, fetched, undook>>

RGetUndo(r) ==
  /\ "Undo" \in LocalKinds /\ sy[r].pc = "idle" /\ AllIdle
  /\ fetched[r] # UndoOps(db[r])
  /\ fetched' = [fetched EXCEPT ![r] = UndoOps(db[r])]
  /\ h' = Append(h, Ev("GetUndo", r))
  /\ UNCHANGED <<vars, edits, syncs, wsok, undook>>

RCommitReversedFetched(r) ==
  /\ "Undo" \in LocalKinds /\ sy[r].pc = "idle" /\ AllIdle
  /\ fetched[r] # <<>>
  /\ CommitReversed(r, fetched[r])
  /\ h' = Append(h, Ev("Undo", r))
  /\ undook' = (undook /\ UndoClauses(db[r], db'[r], fetched[r], UndoResult(db[r], fetched[r])))
  /\ fetched' = [fetched EXCEPT ![r] = <<>>]
  /\ UNCHANGED <<edits, syncs, wsok>>

RRebuildStep(r, renumber) ==
  /\ "Rebuild" \in LocalKinds /\ sy[r].pc = "idle" /\ AllIdle
  /\ Rebuild(r, renumber)
  /\ db'[r] # db[r] \/ ~WSExactlyPending(db[r])
  /\ h' = Append(h, [Ev("Rebuild", r) EXCEPT !.urg = IF renumber THEN "renumber" ELSE "keep"])
  /\ wsok' = (wsok /\ RebuildClauses(db[r], db'[r], renumber))
  /\ UNCHANGED <<edits, syncs, fetched, undook>>

(* a complete sync of one replica, run through its steps by MCSync's        *)
(* actions; the rebuild at its end is checked against the clauses too       *)
RSyncStep(r) ==
  /\ "Sync" \in LocalKinds
  /\ \/ MCStart(r) \/ MCPush(r)
     \/ (MCStep(r) /\ sy[r].pc # "rebuild")
  /\ UNCHANGED <<fetched, wsok, undook>>

RSyncRebuild(r) ==
  /\ "Sync" \in LocalKinds /\ sy[r].pc = "rebuild"
  /\ MCStep(r)
  /\ wsok' = (wsok /\ RebuildClauses(db[r], db'[r], FALSE))
  /\ UNCHANGED <<fetched, undook>>

RInit == MCInit /\ fetched = [r \in Replicas |-> <<>>] /\ wsok = TRUE /\ undook = TRUE

RNext == \E r \in Replicas :
  \/ RBatch(r) \/ RGetUndo(r) \/ RCommitReversedFetched(r)
  \/ (\E rn \in BOOLEAN : RRebuildStep(r, rn))
  \/ RSyncStep(r) \/ RSyncRebuild(r)

-----------------------------------------------------------------------------
(* C15 with arbitrary prior working sets: every task set over the statuses, *)
(* every prior working set (gaps, entries of completed / absent tasks),     *)
(* then rebuilds and commits.                                              *)
CONSTANT MaxWS
StatusTasks == [Tasks -> Statuses \cup {NoVal, "absent"}]
PriorWS == {w \in SeqsUpTo(Tasks \cup {NoVal}, MaxWS) :
              /\ (w = <<>> \/ w[Len(w)] # NoVal)
              /\ \A i, j \in DOMAIN w : (i # j /\ w[i] # NoVal) => w[i] # w[j]}
TaskOf(st) == IF st = "absent" THEN Absent ELSE [ex |-> TRUE, m |-> [EmptyMap EXCEPT !["status"] = st]]
RECURSIVE InstallOps(_,_)
InstallOps(f, S) ==
  IF S = {} THEN <<>>
  ELSE LET u == CHOOSE x \in S : TRUE
       IN (IF f[u] = "absent" THEN <<>>
           ELSE IF f[u] = NoVal THEN <<C(u)>>
           ELSE <<C(u), U(u, "status", f[u], 1, NoVal)>>) \o InstallOps(f, S \ {u})

WInit ==
  /\ chain = <<>> /\ snap = NoSnap
  /\ sy = [r \in Replicas |-> Idle] /\ err = [r \in Replicas |-> FALSE]
  /\ edits = 0 /\ syncs = 0
  /\ fetched = [r \in Replicas |-> <<>>] /\ wsok = TRUE /\ undook = TRUE
  /\ \E f \in StatusTasks : \E w \in PriorWS :
       /\ db = [r \in Replicas |->
                 [tasks |-> [u \in Tasks |-> TaskOf(f[u])], ops |-> InstallOps(f, Tasks),
                  base |-> 0, ws |-> w]]
       /\ h = <<[a |-> "Install", r |-> CHOOSE r \in Replicas : TRUE, urg |-> "-",
                 ops |-> InstallOps(f, Tasks), ws |-> w]>>

HBound == Len(h) <= MaxLen     \* state constraint for schedule generation
WSOK == wsok
UndoOK == undook

RDone == AllIdle /\ (IF EmitAll THEN TRUE ELSE Len(h) >= MaxLen)
REmit == (Emit /\ RDone) => PrintT(<<"REPLAY", ToJson(h)>>)
=============================================================================
