----------------------------- MODULE TraceCloud -----------------------------
(***************************************************************************)
(* Trace validation for CloudStore: every object-store request recorded    *)
(* through the gate of the in-memory service (hook H1), every server call  *)
(* and every return value must be a step of CloudStore.                    *)
(***************************************************************************)
EXTENDS CloudStore, Json, IOUtils, TLCExt

Rec == ndJsonDeserialize(IOEnv.TRACE)
VARIABLE l
tvars == <<vars, l>>
E == Rec[l]
IsEvent(name) == l <= Len(Rec) /\ Rec[l].a = name /\ l' = l + 1

TReset ==
  /\ IsEvent("Reset")
  /\ latest' = NoLatest /\ vers' = {} /\ pay' = [i \in 1..MaxVer |-> "-"] /\ old' = {}
  /\ snaps' = {} /\ spay' = [i \in 1..MaxVer |-> "-"] /\ nextId' = 1
  /\ cl' = [c \in Clients |-> Idle] /\ base' = [c \in Clients |-> Nil]
  /\ acked' = {} /\ bad' = FALSE

TCall ==
  /\ IsEvent("Call")
  /\ \/ E.op = "add_version" /\ AVCall(E.c, E.ver, E.body)
     \/ E.op = "get_child_version" /\ GCCall(E.c, E.ver)
     \/ E.op = "add_snapshot" /\ ASCall(E.c, E.ver, E.body)
     \/ E.op = "get_snapshot" /\ GSCall(E.c)

Name(n) == <<n[1], n[2], n[3]>>
Names(a) == {Name(a[i]) : i \in DOMAIN a}

(* the recorded request must be the one the specification issues next, with *)
(* the same observable result                                              *)
ReqMatches(c) ==
  /\ cl'[c].req = <<E.op, Name(E.name)>>
  /\ E.op = "get" /\ E.name[1] = "latest" => (E.found = (latest # NoLatest) /\ (E.found => E.val = latest))
  /\ E.op = "cas" => (E.swapped = (cl'[c].rres = "swapped") /\ E.new = cl[c].new
                       /\ E.expect = cl[c].seen)
  \* what a listing request returned: everything matching (atomic), or the next page
  /\ E.op = "list" /\ PageSize = 0 /\ E.name[1] = "vall" => Names(E.names) = {<<"v", e[1], e[2]>> : e \in vers}
  /\ E.op = "list" /\ PageSize = 0 /\ E.name[1] = "v" =>
        Names(E.names) = {<<"v", e[1], e[2]>> : e \in {x \in vers : x[1] = E.name[2]}}
  /\ E.op = "list" /\ PageSize = 0 /\ E.name[1] = "s" => Names(E.names) = {<<"s", x, 0>> : x \in snaps}
  /\ E.op = "list" /\ PageSize > 0 /\ ListPc(c) /\ E.name[1] # "s" =>
        Names(E.names) = {<<"v", n[1], n[2]>> : n \in LPage(c)}
  /\ E.op = "list" /\ PageSize > 0 /\ ListPc(c) /\ E.name[1] = "s" =>
        Names(E.names) = {<<"s", n[1], 0>> : n \in LPage(c)}

Steps(c) ==
  \/ AV1(c) \/ AV4(c) \/ AV5(c)
  \/ (E.op = "put" /\ E.name[1] = "v" /\ AV2(c, E.name[3]))
  \/ ListStep(c)
  \/ CLL(c) \/ CLV(c) \/ CLS(c) \/ CLXO(c)
  \/ (\E e \in cl[c].dels : CLD(c, e))
  \/ (\E s \in cl[c].sdel : CLXS(c, s))
  \/ GC1(c) \/ GC2(c) \/ GC4(c)
  \/ (\E k \in cl[c].todo : GC3(c, k))
  \/ AS1(c) \/ GS2(c)
  \/ (\E s \in snaps \cup {0} : GS1(c, s))
  \/ AV3(c, E.draw) \/ AVU(c, E.draw)

TReq ==
  /\ IsEvent("Req") /\ E.fault = "none"
  /\ Steps(E.c)
  /\ ReqMatches(E.c)
  \* get_snapshot takes the first snapshot listed
  /\ (cl[E.c].pc = "gs1" /\ snaps # {}) => cl'[E.c].chosen = E.names[1][2]

TFault ==
  /\ IsEvent("Req") /\ E.fault # "none"
  /\ IF InCleanup(E.c) THEN
        \* the effect of a failing delete may or may not have happened; the caller ignores it
        \/ CLAbort(E.c)
        \/ /\ E.fault = "after"
           /\ \/ (\E e \in cl[E.c].dels : CLDThenAbort(E.c, e) /\ E.name = <<"v", e[1], e[2]>>)
              \/ (\E x \in cl[E.c].sdel : CLXSThenAbort(E.c, x) /\ E.name = <<"s", x, 0>>)
              \/ (CLXOThenAbort(E.c) /\ E.name[1] = "v")
     ELSE IF E.fault = "before" \/ E.op \in {"get", "list"} THEN FailBefore(E.c)
     ELSE (E.op = "put" /\ E.name[1] = "v" /\ FailAfterPut(E.c, E.name[3]))
          \/ FailAfterCas(E.c) \/ FailAfterDel(E.c) \/ FailAfterSnap(E.c)

TReturn ==
  /\ IsEvent("Return")
  /\ cl[E.c].pc = "idle"
  /\ cl[E.c].res = [kind |-> E.kind, ver |-> E.ver, pay |-> E.pay]
  /\ UNCHANGED vars

TAge == IsEvent("Age") /\ Age

TNext == TReset \/ TCall \/ TReq \/ TFault \/ TReturn \/ TAge
TInit == Init /\ l = 1
TSpec == TInit /\ [][TNext]_tvars

Accepted ==
  LET d == TLCGet("stats").diameter IN
  IF d - 1 = Len(Rec) THEN TRUE
  ELSE Print(<<"TRACE-REJECTED-AT", d, ToJson(Rec[d])>>, FALSE)
=============================================================================
