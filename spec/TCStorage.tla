----------------------------- MODULE TCStorage -----------------------------
(***************************************************************************)
(* The StorageTxn contract (src/storage/mod.rs, docs/src/storage.md) as a  *)
(* state machine over a committed state `disk` and the buffer `buf` of the *)
(* open transaction.  One call of a StorageTxn method = one step; every    *)
(* call has a status ("ok" | "error" | "readonly") and a value that are    *)
(* functions of the buffer, so two backends that both follow this          *)
(* specification return the same results for the same call sequence        *)
(* (collections the contract leaves unordered are compared as sets/bags by *)
(* TraceStorage).  Only contract-respecting sequences are steps: one       *)
(* transaction at a time per handle, no call after commit,                 *)
(* set_working_set_item only within the existing range.                    *)
(*                                                                         *)
(* A stored operation is [op |-> operation, s |-> synced].  The working    *)
(* set is the sequence of positions 1..n (position 0 of the code is always *)
(* empty and is checked separately); an empty slot is "~".  The base       *)
(* version is a token of Versions, or "~" for the nil version.             *)
(***************************************************************************)
EXTENDS TCTypes

CONSTANTS Versions,   \* base-version tokens (strings)
          SDev        \* named deviations, subset of {"DEL", "ADD"}; {} = the contract
                      \*   "DEL": delete_task returns true also for a missing task
                      \*   "ADD": add_to_working_set returns index + 1

VARIABLES disk,       \* committed state
          buf,        \* state seen by the open transaction (= disk when none is open)
          open,       \* a transaction is open on the handle
          ro          \* the handle was opened with AccessMode::ReadOnly

svars == <<disk, buf, open, ro>>

SOp(op, s)  == [op |-> op, s |-> s]
EmptyStore  == [tasks |-> EmptyDb, ops |-> <<>>, base |-> NoVal, ws |-> <<>>]

(* a call: every field always present (one shape) *)
Mk(a) == [a |-> a, u |-> "-", m |-> EmptyMap, v |-> "-", op |-> NoOp, i |-> 0, x |-> "-"]

Readers  == {"GetTask", "AllTasks", "AllTaskUuids", "BaseVersion", "UnsyncedOperations",
             "NumUnsynced", "GetTaskOperations", "GetWorkingSet", "GetPendingTasks", "IsEmpty"}
Mutators == {"CreateTask", "SetTask", "DeleteTask", "SetBaseVersion", "AddOperation",
             "RemoveOperation", "SyncComplete", "AddToWorkingSet", "SetWorkingSetItem",
             "ClearWorkingSet"}

-----------------------------------------------------------------------------
RECURSIVE TrimWS(_)
TrimWS(w) == IF w # <<>> /\ w[Len(w)] = NoVal THEN TrimWS(SubSeq(w, 1, Len(w) - 1)) ELSE w

OpsOnly(es)   == [i \in DOMAIN es |-> es[i].op]
Unsynced(s)   == OpsOnly(SelectSeq(s.ops, LAMBDA e : ~e.s))
TaskOps(s, u) == OpsOnly(SelectSeq(s.ops, LAMBDA e : e.op.u = u))
Existing(s)   == {u \in Tasks : s.tasks[u].ex}

(* "The operation must exactly match the most recent operation, and must   *)
(* not be synced."                                                         *)
RemoveOK(s, op) == /\ s.ops # <<>>
                   /\ ~s.ops[Len(s.ops)].s
                   /\ s.ops[Len(s.ops)].op = op

(* working-set positions whose task exists, in position order (a task that *)
(* was added twice is listed twice)                                        *)
PendingSeq(s) == SelectSeq(s.ws, LAMBDA e : e # NoVal /\ s.tasks[e].ex)

(* contract-respecting calls only *)
Pre(s, c) ==
  CASE c.a = "SetWorkingSetItem" -> c.i \in 1..Len(s.ws)
    [] OTHER -> TRUE

(* the effect of a mutator on the buffer *)
Eff(s, c) ==
  CASE c.a = "CreateTask" ->
         IF s.tasks[c.u].ex THEN s ELSE [s EXCEPT !.tasks[c.u] = EmptyTask]
    [] c.a = "SetTask" -> [s EXCEPT !.tasks[c.u] = [ex |-> TRUE, m |-> c.m]]
    [] c.a = "DeleteTask" -> [s EXCEPT !.tasks[c.u] = Absent]
    [] c.a = "SetBaseVersion" -> [s EXCEPT !.base = c.v]
    [] c.a = "AddOperation" -> [s EXCEPT !.ops = Append(@, SOp(c.op, FALSE))]
    [] c.a = "RemoveOperation" ->
         IF RemoveOK(s, c.op) THEN [s EXCEPT !.ops = SubSeq(@, 1, Len(@) - 1)] ELSE s
    [] c.a = "SyncComplete" ->
         \* all operations are marked synchronised; operations of tasks that no longer
         \* exist are forgotten (undo points refer to no task and stay)
         LET kept == SelectSeq(s.ops, LAMBDA e : e.op.k = "P" \/ s.tasks[e.op.u].ex)
         IN [s EXCEPT !.ops = [i \in DOMAIN kept |-> SOp(kept[i].op, TRUE)]]
    [] c.a = "AddToWorkingSet" -> [s EXCEPT !.ws = Append(@, c.u)]
    [] c.a = "SetWorkingSetItem" -> [s EXCEPT !.ws = TrimWS([@ EXCEPT ![c.i] = c.x])]
    [] c.a = "ClearWorkingSet" -> [s EXCEPT !.ws = <<>>]
    [] OTHER -> s

(* status of a call made on a handle with mode r in buffer s *)
Status(r, s, c) ==
  IF r /\ c.a \in Mutators THEN "readonly"
  ELSE IF c.a = "RemoveOperation" /\ ~RemoveOK(s, c.op) THEN "error"
  ELSE "ok"

(* value returned by a successful call (shape depends on the call) *)
Val(s, c) ==
  CASE c.a = "GetTask" -> s.tasks[c.u]
    [] c.a = "CreateTask" -> ~s.tasks[c.u].ex
    [] c.a = "DeleteTask" -> IF "DEL" \in SDev THEN TRUE ELSE s.tasks[c.u].ex
    [] c.a = "AllTasks" -> s.tasks
    [] c.a = "AllTaskUuids" -> Existing(s)
    [] c.a = "BaseVersion" -> s.base
    [] c.a = "UnsyncedOperations" -> Unsynced(s)
    [] c.a = "NumUnsynced" -> Len(Unsynced(s))
    [] c.a = "GetTaskOperations" -> TaskOps(s, c.u)
    [] c.a = "GetWorkingSet" -> s.ws
    [] c.a = "AddToWorkingSet" -> Len(s.ws) + (IF "ADD" \in SDev THEN 2 ELSE 1)
    [] c.a = "GetPendingTasks" -> PendingSeq(s)
    [] c.a = "IsEmpty" -> /\ Existing(s) = {} /\ s.ws = <<>>
                          /\ s.base = NoVal /\ Unsynced(s) = <<>>
    [] OTHER -> "-"

-----------------------------------------------------------------------------
SInit == disk = EmptyStore /\ buf = EmptyStore /\ open = FALSE /\ ro = FALSE

Begin == /\ ~open /\ open' = TRUE /\ buf' = disk /\ UNCHANGED <<disk, ro>>

Call(c) ==
  /\ open /\ c.a \in Readers \cup Mutators /\ Pre(buf, c)
  /\ buf' = IF Status(ro, buf, c) = "ok" THEN Eff(buf, c) ELSE buf
  /\ UNCHANGED <<disk, open, ro>>

(* commit publishes the whole buffer at once and ends the transaction; on a   *)
(* read-only handle it is refused -- the transaction is over all the same   *)
(* (nothing may be called on it after commit, whatever commit returned)     *)
CommitStatus == IF ro THEN "readonly" ELSE "ok"
Commit ==
  /\ open /\ open' = FALSE
  /\ IF ro THEN disk' = disk /\ buf' = disk ELSE disk' = buf /\ buf' = buf
  /\ UNCHANGED ro

(* the transaction is dropped: nothing of it remains *)
Abandon == /\ open /\ open' = FALSE /\ buf' = disk /\ UNCHANGED <<disk, ro>>

(* the handle is closed and the directory opened again (SQLite only): the  *)
(* committed state is what it was                                          *)
Reopen(readonly) ==
  /\ ~open /\ ro' = readonly /\ UNCHANGED <<disk, buf, open>>

(* the database is rewritten under an older schema and upgraded on open.   *)
(* Schema 0.8 had no `synced` column: every stored operation comes back    *)
(* unsynchronised; nothing else may change.                                *)
LegacyVersions == {"0.8", "0.9", "0.1", "0.2"}
Legacy(ver) ==
  /\ ~open /\ ver \in LegacyVersions
  /\ LET d == IF ver = "0.8"
              THEN [disk EXCEPT !.ops = [i \in DOMAIN @ |-> SOp(@[i].op, FALSE)]]
              ELSE disk
     IN disk' = d /\ buf' = d
  /\ ro' = FALSE /\ UNCHANGED open

-----------------------------------------------------------------------------
OpOK(o) == /\ o.k \in {"C", "D", "U", "P"}
           /\ (o.k = "P" \/ o.u \in Tasks)
StoreOK(s) ==
  /\ s.tasks \in [Tasks -> [ex : BOOLEAN, m : [Props -> ValsN]]]
  /\ \A u \in Tasks : ~s.tasks[u].ex => s.tasks[u].m = EmptyMap
  /\ \A i \in DOMAIN s.ops : OpOK(s.ops[i].op) /\ s.ops[i].s \in BOOLEAN
  /\ s.base \in Versions \cup {NoVal}
  /\ \A i \in DOMAIN s.ws : s.ws[i] \in Tasks \cup {NoVal}
STypeOK == StoreOK(disk) /\ StoreOK(buf) /\ open \in BOOLEAN /\ ro \in BOOLEAN

(* no trailing empty slot is ever reported *)
NoTrailingGap(s) == s.ws = <<>> \/ s.ws[Len(s.ws)] # NoVal
(* unsynchronised operations are always the most recent ones, so "the last  *)
(* operation, if unsynchronised" (in-memory) and "the last unsynchronised   *)
(* operation" (SQLite) are the same thing                                   *)
UnsyncedSuffix(s) ==
  \A i, j \in DOMAIN s.ops : (i < j /\ ~s.ops[i].s) => ~s.ops[j].s
WellFormed == /\ NoTrailingGap(disk) /\ NoTrailingGap(buf)
              /\ UnsyncedSuffix(disk) /\ UnsyncedSuffix(buf)
              /\ (~open => buf = disk)
=============================================================================
