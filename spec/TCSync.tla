------------------------------- MODULE TCSync -------------------------------
(***************************************************************************)
(* Replicas synchronising against one version-chain server, at the grain   *)
(* of single server requests (get_snapshot, get_child_version,             *)
(* add_version, add_snapshot), mirroring src/taskdb/sync.rs.               *)
(*                                                                         *)
(* The server here is the abstract protocol of docs/src/sync-protocol.md   *)
(* (module ChainServer states it on its own for the backends): a linear    *)
(* chain, add_version accepted iff the parent is the latest version.       *)
(* Version ids are chain positions (0 = nil).                              *)
(*                                                                         *)
(* Dev selects named deviations of the pinned tree (DESIGN.md 2.3):        *)
(*   "PIN" the pinned loop structure: batches are cut from the un-rebased  *)
(*         list (D1, D2) and a rejected add_version re-reads that list     *)
(*         from storage (D3);                                              *)
(*   "D4"  a snapshot is uploaded after any accepted batch;                *)
(*   "WIRE" local operations are sent as stored (undo points, old values)  *)
(*         -- not a defect of the pinned tree, an anti-vacuity device.     *)
(* Dev = {} is the documented algorithm.                                   *)
(***************************************************************************)
EXTENDS TCReplica

CONSTANTS Racing,    \* TRUE: requests of concurrent syncs interleave
          Faults,    \* TRUE: abort / lost-reply actions enabled
          MaxChain   \* bound on versions (model checking only)

VARIABLES chain,     \* Seq of versions, each a Seq of (stripped) operations
          snap,      \* [some, ver, tasks]: the stored snapshot
          sy,        \* [Replicas -> in-flight sync record]
          err        \* [Replicas -> BOOLEAN]: a sync returned OutOfSync

vars == <<db, chain, snap, sy, err>>

(* trim: how many of the oldest versions the server has discarded (it may discard  *)
(* versions at or before its snapshot, docs/src/snapshots.md)                    *)
NoSnap == [some |-> FALSE, ver |-> 0, tasks |-> EmptyDb, trim |-> 0]
NoReq  == -1
Idle   == [pc |-> "idle", tt |-> EmptyDb, tb |-> 0, cur |-> <<>>, orig |-> <<>>,
           pos |-> 1, req |-> NoReq, av |-> FALSE, acc |-> <<>>, nrej |-> 0]
   \* acc: the transformed server operations applied so far (stored as synchronised operations
   \* at the end of the sync: the per-task operation history, get_task_operations)

Pinned == "PIN" \in Dev

Rank(u) == CASE u = "none" -> 0 [] u = "low" -> 1 [] u = "high" -> 2
Urgencies == {"none", "low", "high"}
Threshold(s) == IF s.av THEN 2 ELSE 1   \* s.av: the avoid_snapshots argument

AllIdle == \A r \in Replicas : sy[r].pc = "idle"
MayStep(r) == Racing \/ \A q \in Replicas \ {r} : sy[q].pc = "idle"

IsEmptyDb(d) == d.tasks = EmptyDb /\ d.ops = <<>> /\ d.base = 0 /\ d.ws = <<>>

-----------------------------------------------------------------------------
(* Local actions (only while no sync of that replica is in flight: the API  *)
(* takes &mut self).                                                       *)
Edit(r, batch) ==
  /\ sy[r].pc = "idle"
  /\ RCommit(r, batch)
  /\ UNCHANGED <<chain, snap, sy, err>>

CommitReversed(r, undo) ==
  /\ sy[r].pc = "idle"
  /\ RCommitReversed(r, undo)
  /\ UNCHANGED <<chain, snap, sy, err>>

Expire(r, batch) ==
  /\ sy[r].pc = "idle"
  /\ IsExpireBatch(db[r].tasks, batch)
  /\ RCommit(r, batch)
  /\ UNCHANGED <<chain, snap, sy, err>>

Rebuild(r, renumber) ==
  /\ sy[r].pc = "idle"
  /\ RRebuild(r, renumber)
  /\ UNCHANGED <<chain, snap, sy, err>>

-----------------------------------------------------------------------------
(* pinned loop: the current batch is cut from orig (the list as stored),    *)
(* starting at pos                                                         *)
NextBatch(s) ==
  LET rest == SubSeq(s.orig, s.pos, Len(s.orig))
      n == FirstBatchLen(rest)
  IN [s EXCEPT !.cur = SubSeq(rest, 1, n), !.pos = s.pos + n]

Outgoing(ops) == IF "WIRE" \in Dev THEN ops ELSE ToSync(ops)

SyncStart(r, av) ==
  /\ sy[r].pc = "idle" /\ MayStep(r)
  /\ LET d == db[r]
         s0 == [Idle EXCEPT !.pc = IF IsEmptyDb(d) THEN "snap" ELSE "pull",
                            !.tt = d.tasks, !.tb = d.base,
                            !.cur = Outgoing(d.ops), !.orig = Outgoing(d.ops), !.av = av]
     IN sy' = [sy EXCEPT ![r] = IF Pinned THEN NextBatch(s0) ELSE s0]
  /\ UNCHANGED <<db, chain, snap, err>>

(* request: get_snapshot *)
SyncGetSnapshot(r) ==
  /\ sy[r].pc = "snap" /\ MayStep(r)
  /\ sy' = [sy EXCEPT ![r] =
              IF snap.some THEN [@ EXCEPT !.pc = "pull", !.tt = snap.tasks, !.tb = snap.ver]
              ELSE [@ EXCEPT !.pc = "pull"]]
  /\ UNCHANGED <<db, chain, snap, err>>

(* request: get_child_version(tb) *)
SyncPull(r) ==
  /\ sy[r].pc = "pull" /\ MayStep(r)
  /\ LET s == sy[r] IN
     IF s.tb < Len(chain) /\ s.tb >= snap.trim      \* the child exists and was not discarded
     THEN LET rb == RebaseVersion(chain[s.tb + 1], s.cur, s.tt, <<>>)
          IN sy' = [sy EXCEPT ![r] = [s EXCEPT !.cur = rb.l, !.tt = rb.t, !.tb = s.tb + 1,
                                                !.acc = s.acc \o rb.s]]
     ELSE sy' = [sy EXCEPT ![r] = [s EXCEPT !.pc = IF s.cur = <<>> THEN "commit" ELSE "push"]]
  /\ UNCHANGED <<db, chain, snap, err>>

(* what the next add_version request carries *)
PushLen(s)   == IF Pinned THEN Len(s.cur) ELSE FirstBatchLen(s.cur)
PushBatch(s) == SubSeq(s.cur, 1, PushLen(s))

AfterOk(s, newv) ==
  IF Pinned THEN NextBatch([s EXCEPT !.tb = newv, !.pc = "pull"])
  ELSE [s EXCEPT !.tb = newv, !.pc = "pull", !.cur = SubSeq(s.cur, PushLen(s) + 1, Len(s.cur))]

Remaining(s) ==   \* after an accepted add_version: is anything left to send?
  IF Pinned THEN s.pos <= Len(s.orig) ELSE s.cur # <<>>

(* request: add_version(tb, PushBatch); urg is the urgency in the reply *)
SyncPush(r, urg) ==
  /\ sy[r].pc = "push" /\ MayStep(r)
  /\ LET s == sy[r] IN
     IF s.tb = Len(chain) \/ chain = <<>>
     THEN /\ Len(chain) < MaxChain
          /\ chain' = Append(chain, PushBatch(s))
          /\ LET a == AfterOk(s, Len(chain) + 1)
                 wantSnap == Rank(urg) >= Threshold(s)
                 takeSnap == wantSnap /\ ("D4" \in Dev \/ ~Remaining(IF Pinned THEN s ELSE a))
             IN sy' = [sy EXCEPT ![r] = IF takeSnap THEN [a EXCEPT !.pc = "snapshot"] ELSE a]
          /\ UNCHANGED <<snap, err>>
     ELSE \* rejected: ExpectedParentVersion(latest)
          /\ UNCHANGED <<chain, snap>>
          /\ IF s.req = Len(chain)
             THEN /\ err' = [err EXCEPT ![r] = TRUE]
                  /\ sy' = [sy EXCEPT ![r] = Idle]
             ELSE /\ UNCHANGED err
                  /\ sy' = [sy EXCEPT ![r] =
                       IF Pinned
                       THEN NextBatch([s EXCEPT !.req = Len(chain), !.pos = 1, !.pc = "pull",
                                                !.nrej = @ + 1])
                       ELSE [s EXCEPT !.req = Len(chain), !.pc = "pull", !.nrej = @ + 1]]
  /\ UNCHANGED db

(* request: add_snapshot(tb, tt).  The pinned loop (D4) takes the snapshot  *)
(* from the transaction's task set, which already contains the effects of *)
(* batches not sent yet; so does this action -- under Dev = {} nothing is   *)
(* left to send when it runs.                                              *)
SyncSnapshot(r) ==
  /\ sy[r].pc = "snapshot" /\ MayStep(r)
  /\ snap' = IF ~snap.some \/ snap.ver < sy[r].tb
             THEN [some |-> TRUE, ver |-> sy[r].tb, tasks |-> sy[r].tt, trim |-> snap.trim] ELSE snap
  /\ sy' = [sy EXCEPT ![r].pc = "pull"]
  /\ UNCHANGED <<db, chain, err>>

(* the single storage commit of the sync transaction *)
SyncCommit(r) ==
  /\ sy[r].pc = "commit" /\ MayStep(r)
  /\ db' = [db EXCEPT ![r] = [@ EXCEPT !.tasks = sy[r].tt, !.ops = <<>>, !.base = sy[r].tb]]
  /\ sy' = [sy EXCEPT ![r] = [Idle EXCEPT !.pc = "rebuild"]]
  /\ UNCHANGED <<chain, snap, err>>

(* Replica::sync then rebuilds the working set without renumbering, in a    *)
(* second transaction                                                      *)
SyncRebuild(r) ==
  /\ sy[r].pc = "rebuild" /\ MayStep(r)
  /\ RRebuild(r, FALSE)
  /\ sy' = [sy EXCEPT ![r] = Idle]
  /\ UNCHANGED <<chain, snap, err>>

(* the server discards its oldest versions, up to the version of its snapshot *)
ServerTrim(n) ==
  /\ snap.some /\ snap.trim < n /\ n <= snap.ver
  /\ snap' = [snap EXCEPT !.trim = n]
  /\ UNCHANGED <<db, chain, sy, err>>

-----------------------------------------------------------------------------
(* Faults (C04).  An abort at any point -- a failed request, a failed or    *)
(* stopped storage call, a process stop -- abandons the transaction.       *)
SyncAbort(r) ==
  /\ Faults /\ sy[r].pc # "idle" /\ MayStep(r)
  /\ sy' = [sy EXCEPT ![r] = Idle]
  /\ UNCHANGED <<db, chain, snap, err>>

(* the server carried out add_version but the reply never arrived *)
PushLostReply(r) ==
  /\ Faults /\ sy[r].pc = "push" /\ MayStep(r)
  /\ (sy[r].tb = Len(chain) \/ chain = <<>>) /\ Len(chain) < MaxChain
  /\ chain' = Append(chain, PushBatch(sy[r]))
  /\ sy' = [sy EXCEPT ![r] = Idle]
  /\ UNCHANGED <<db, snap, err>>

SnapLostReply(r) ==
  /\ Faults /\ sy[r].pc = "snapshot" /\ MayStep(r)
  /\ snap' = IF ~snap.some \/ snap.ver < sy[r].tb
             THEN [some |-> TRUE, ver |-> sy[r].tb, tasks |-> sy[r].tt, trim |-> snap.trim] ELSE snap
  /\ sy' = [sy EXCEPT ![r] = Idle]
  /\ UNCHANGED <<db, chain, err>>

-----------------------------------------------------------------------------
Init ==
  /\ db = [r \in Replicas |-> EmptyReplica]
  /\ chain = <<>>
  /\ snap = NoSnap
  /\ sy = [r \in Replicas |-> Idle]
  /\ err = [r \in Replicas |-> FALSE]

SyncStep(r) ==
  \/ (\E av \in BOOLEAN : SyncStart(r, av)) \/ SyncGetSnapshot(r) \/ SyncPull(r)
  \/ (\E urg \in Urgencies : SyncPush(r, urg))
  \/ SyncSnapshot(r) \/ SyncCommit(r) \/ SyncRebuild(r)
  \/ SyncAbort(r) \/ PushLostReply(r) \/ SnapLostReply(r)

-----------------------------------------------------------------------------
(* The clauses of the replica-local properties, as predicates over one step    *)
(* from replica state d to e (used by MCReplica as checked history predicates  *)
(* and by ObsSync at the property level).                                     *)

RECURSIVE ValidFrom(_,_)     \* every operation valid in the state it is applied to
ValidFrom(ts, ops) ==
  IF ops = <<>> THEN TRUE
  ELSE LET o == Head(ops)
           ok == CASE o.k = "C" -> ~ts[o.u].ex
                   [] o.k = "D" -> ts[o.u].ex /\ o.o = ts[o.u].m
                   [] o.k = "U" -> ts[o.u].ex /\ o.o[o.p] = ts[o.u].m[o.p]
                   [] OTHER -> TRUE
       IN ok /\ ValidFrom(Apply(ts, o), Tail(ops))


(* C07 clauses for one undo step from d to e with list u and result res *)
UndoClauses(d, e, u, res) ==
  IF u # <<>> /\ IsSuffix(u, d.ops)
  THEN LET pre == SubSeq(d.ops, 1, Len(d.ops) - Len(u))
           before == ApplyAll(Replay(chain, d.base), pre)
       IN \* for a valid sequence of changes on a replica that satisfies the replica invariant
          (ValidFrom(before, u) /\ ApplyAll(before, u) = d.tasks
             /\ \E i \in DOMAIN u : u[i].k # "P") =>
             /\ res = "true"
             /\ e.tasks = before               \* exactly the earlier content
             /\ e.ops = pre                    \* exactly those operations withdrawn
  ELSE res = "false" /\ e = d                  \* not the most recent ones: nothing changes


RebuildClauses(d, e, renumber) ==
  /\ WSExactlyPending(e) /\ WSNoTrailingGap(e)
  /\ IF renumber THEN WSCompact(d, e) ELSE WSStable(d, e)


(* C15: a commit only appends to the working set *)
CommitAppendsOnly(d, e) ==
  /\ Len(e.ws) >= Len(d.ws)
  /\ SubSeq(e.ws, 1, Len(d.ws)) = d.ws
  /\ \A i \in (Len(d.ws) + 1)..Len(e.ws) : e.ws[i] # NoVal

-----------------------------------------------------------------------------
(* Properties.                                                              *)

(* C01/C04/C05: an idle replica's tasks are its last synchronised state     *)
(* (the replay of the server's chain up to its base version) with its       *)
(* unsynchronised operations applied.                                      *)
ReplicaInvariant ==
  \A r \in Replicas : sy[r].pc \in {"idle", "rebuild"} =>
     ApplyAll(Replay(chain, db[r].base), db[r].ops) = db[r].tasks

(* C01/C02: once everyone has synchronised with nothing left to send, all   *)
(* replicas hold the replay of the stored versions.                        *)
Quiescent == AllIdle /\ \A r \in Replicas : db[r].ops = <<>> /\ db[r].base = Len(chain)
Converged == Quiescent => \A r \in Replicas : db[r].tasks = Replay(chain, Len(chain))

(* C02: a correct server never causes an out-of-sync error *)
NoOutOfSync == \A r \in Replicas : err[r] => db[r].base < snap.trim
   \* (a replica whose base version the server has discarded cannot be reconciled:
   \*  docs/src/sync-protocol.md; nobody else ever gets an out-of-sync error)

(* C12: the stored snapshot is the replay of the chain up to its version *)
SnapshotFaithful == snap.some => snap.tasks = Replay(chain, snap.ver)

(* C14 (content): nothing but stripped C/D/U operations is ever stored *)
WireClean ==
  \A i \in DOMAIN chain : \A j \in DOMAIN chain[i] :
     chain[i][j].k \in {"C", "D", "U"} /\ chain[i][j].o = EmptyMap

(* C02/C04: no update is sent twice.  Meaningful where every local update   *)
(* is unique (phased configurations: own values per replica, no repeats).  *)
NoDuplicateSend ==
  LET all == Flatten(chain)
  IN \A i, j \in DOMAIN all : (i # j /\ all[i].k = "U") => all[i] # all[j]

(* C12: a replica is handed a snapshot only while it is entirely empty      *)
(* (action property, checked as an invariant on the in-flight record)      *)
TypeOK ==
  /\ \A r \in Replicas : db[r].base \in 0..Len(chain)
  /\ \A r \in Replicas : sy[r].tb \in 0..Len(chain)
=============================================================================
