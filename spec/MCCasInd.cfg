SPECIFICATION Spec
CONSTANT Clients <- MCClients
CONSTANT MaxId <- MCMaxId
INVARIANT IndInv
INVARIANT Safety
CHECK_DEADLOCK FALSE
