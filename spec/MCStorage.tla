------------------------------ MODULE MCStorage ------------------------------
(***************************************************************************)
(* Model-checking harness for TCStorage (C16): bounded call sequences over *)
(* a configurable alphabet of call shapes, several transactions, commit or *)
(* abandon, reopen (read-write, read-only, through an older schema) at     *)
(* arbitrary points; a history variable h from which the call sequences    *)
(* are exported to the implementation harness; and the documented return   *)
(* values written out once more as clauses over (buffer before, call,      *)
(* result, buffer after), independently of TCStorage!Val / Eff, so that a  *)
(* deviation in a return value is a violated invariant.                    *)
(***************************************************************************)
EXTENDS TCStorage, Json

CONSTANTS TaskArgs,     \* tasks used as arguments of task / working-set calls
          OpTaskArgs,   \* tasks used in operations
          MapSel,       \* "small": three task maps; "all": every map over Props x Vals
          Kinds,        \* call kinds in the alphabet (subset of Readers \cup Mutators)
          Modes,        \* subset of {"reopen", "ro", "legacy"}: reopen variants enabled
          MaxLen,       \* bound on Len(h)  (CONSTRAINT HBound / emission length)
          MaxMut,       \* budget of state-changing calls (property configurations)
          MaxTxn,       \* budget of transactions
          Emit, EmitAll

VARIABLES h,            \* the call sequence so far (calls only, no results)
          cok,          \* every call so far satisfied the documented clause for its result
          nmut, ntxn
mvars == <<svars, h, cok, nmut, ntxn>>
SView == <<svars, cok, nmut, ntxn>>

ASSUME {"p", "q"} \subseteq Props /\ {"a", "b"} \subseteq Vals

SmallMaps == {EmptyMap, [EmptyMap EXCEPT !["p"] = "a"],
              [EmptyMap EXCEPT !["p"] = "b", !["q"] = "a"]}
Maps == IF MapSel = "all" THEN [Props -> ValsN] ELSE SmallMaps

(* operations are opaque to the storage except for their task and for      *)
(* equality: a create, an update and a delete per task, and the undo point *)
OpShapes ==
  {C(u) : u \in OpTaskArgs}
  \cup {U(u, "p", "a", 1, NoVal) : u \in OpTaskArgs}
  \cup (IF MapSel = "all" THEN {D(u, [EmptyMap EXCEPT !["p"] = "a"]) : u \in OpTaskArgs}
                              \cup {D(u, [EmptyMap EXCEPT !["p"] = "b", !["q"] = "a"]) : u \in OpTaskArgs}
        ELSE {})
  \cup {UndoPoint}

Shapes ==
  LET K(a) == a \in Kinds IN
  (IF K("GetTask") THEN {[Mk("GetTask") EXCEPT !.u = u] : u \in TaskArgs} ELSE {})
  \cup (IF K("CreateTask") THEN {[Mk("CreateTask") EXCEPT !.u = u] : u \in TaskArgs} ELSE {})
  \cup (IF K("SetTask") THEN {[Mk("SetTask") EXCEPT !.u = u, !.m = m] : u \in TaskArgs, m \in Maps} ELSE {})
  \cup (IF K("DeleteTask") THEN {[Mk("DeleteTask") EXCEPT !.u = u] : u \in TaskArgs} ELSE {})
  \cup (IF K("AllTasks") THEN {Mk("AllTasks")} ELSE {})
  \cup (IF K("AllTaskUuids") THEN {Mk("AllTaskUuids")} ELSE {})
  \cup (IF K("BaseVersion") THEN {Mk("BaseVersion")} ELSE {})
  \cup (IF K("SetBaseVersion") THEN {[Mk("SetBaseVersion") EXCEPT !.v = v] : v \in Versions \cup {NoVal}} ELSE {})
  \cup (IF K("AddOperation") THEN {[Mk("AddOperation") EXCEPT !.op = o] : o \in OpShapes} ELSE {})
  \cup (IF K("RemoveOperation") THEN {[Mk("RemoveOperation") EXCEPT !.op = o] : o \in OpShapes} ELSE {})
  \cup (IF K("UnsyncedOperations") THEN {Mk("UnsyncedOperations")} ELSE {})
  \cup (IF K("NumUnsynced") THEN {Mk("NumUnsynced")} ELSE {})
  \cup (IF K("GetTaskOperations") THEN {[Mk("GetTaskOperations") EXCEPT !.u = u] : u \in OpTaskArgs} ELSE {})
  \cup (IF K("SyncComplete") THEN {Mk("SyncComplete")} ELSE {})
  \cup (IF K("GetWorkingSet") THEN {Mk("GetWorkingSet")} ELSE {})
  \cup (IF K("AddToWorkingSet") THEN {[Mk("AddToWorkingSet") EXCEPT !.u = u] : u \in TaskArgs} ELSE {})
  \cup (IF K("SetWorkingSetItem")
        THEN {[Mk("SetWorkingSetItem") EXCEPT !.i = i, !.x = x] : i \in 1..2, x \in TaskArgs \cup {NoVal}}
        ELSE {})
  \cup (IF K("ClearWorkingSet") THEN {Mk("ClearWorkingSet")} ELSE {})
  \cup (IF K("GetPendingTasks") THEN {Mk("GetPendingTasks")} ELSE {})
  \cup (IF K("IsEmpty") THEN {Mk("IsEmpty")} ELSE {})

-----------------------------------------------------------------------------
(* The documented results, clause by clause (src/storage/mod.rs), over the *)
(* buffer before (s), the call, its status and value, and the buffer after *)
(* (t).  Written from the trait documentation, not from Eff / Val.         *)
HighestUsed(w) == IF \E i \in DOMAIN w : w[i] # NoVal
                  THEN CHOOSE i \in DOMAIN w : w[i] # NoVal /\ \A j \in DOMAIN w : w[j] # NoVal => j <= i
                  ELSE 0
Clause(s, c, st, val, t) ==
  CASE c.a = "CreateTask" ->
         \* "Returns true if the task was created (did not already exist)."
         /\ val = ~s.tasks[c.u].ex
         /\ t.tasks[c.u].ex
         /\ (val => t.tasks[c.u].m = EmptyMap)
         /\ (~val => t = s)
    [] c.a = "DeleteTask" ->
         \* "Returns true if the task was deleted (already existed)"
         /\ val = s.tasks[c.u].ex
         /\ ~t.tasks[c.u].ex
    [] c.a = "SetTask" -> t.tasks[c.u] = [ex |-> TRUE, m |-> c.m]
    [] c.a = "AddToWorkingSet" ->
         \* "return its (one-based) index.  This index will be one greater than the
         \*  highest used index."
         /\ val = HighestUsed(s.ws) + 1
         /\ val \in DOMAIN t.ws /\ t.ws[val] = c.u
         /\ \A i \in DOMAIN s.ws : t.ws[i] = s.ws[i]
    [] c.a = "SetWorkingSetItem" ->
         \* "This cannot add a new item to the working set."
         /\ Len(t.ws) <= Len(s.ws)
         /\ \A i \in DOMAIN t.ws : t.ws[i] = IF i = c.i THEN c.x ELSE s.ws[i]
    [] c.a = "GetWorkingSet" -> val = <<>> \/ val[Len(val)] # NoVal
    [] c.a = "RemoveOperation" ->
         \* "must exactly match the most recent operation, and must not be synced"
         /\ (st = "ok") = (s.ops # <<>> /\ s.ops[Len(s.ops)] = SOp(c.op, FALSE))
         /\ (st = "ok" => t.ops = SubSeq(s.ops, 1, Len(s.ops) - 1))
         /\ (st # "ok" => t = s)
    [] c.a = "SyncComplete" ->
         \* "all operations should be marked as synced"; operations of tasks that no
         \* longer exist are not kept (docs/src/storage.md)
         /\ Unsynced(t) = <<>>
         /\ \A i \in DOMAIN t.ops : t.ops[i].op.k = "P" \/ t.tasks[t.ops[i].op.u].ex
         /\ t.tasks = s.tasks
    [] c.a = "IsEmpty" ->
         \* "entirely empty": no task, no working-set entry, nil base version, nothing to send
         val = (/\ \A u \in Tasks : ~s.tasks[u].ex
                /\ s.ws = <<>> /\ s.base = NoVal
                /\ \A i \in DOMAIN s.ops : s.ops[i].s)
    [] OTHER -> TRUE

-----------------------------------------------------------------------------
MBegin ==
  /\ ntxn < MaxTxn /\ Begin
  /\ h' = Append(h, Mk("Begin")) /\ ntxn' = ntxn + 1 /\ UNCHANGED <<cok, nmut>>

MCall ==
  \E c \in Shapes :
    /\ (c.a \in Mutators => nmut < MaxMut)
    /\ Call(c)
    /\ h' = Append(h, c)
    /\ cok' = (cok /\ (ro \/ Clause(buf, c, Status(ro, buf, c), Val(buf, c), buf')))
    /\ nmut' = IF c.a \in Mutators THEN nmut + 1 ELSE nmut
    /\ UNCHANGED ntxn

MCommit  == Commit /\ h' = Append(h, Mk("Commit")) /\ UNCHANGED <<cok, nmut, ntxn>>
MAbandon == Abandon /\ h' = Append(h, Mk("Abandon")) /\ UNCHANGED <<cok, nmut, ntxn>>

MReopen ==
  \/ /\ "reopen" \in Modes /\ Reopen(FALSE)
     /\ h' = Append(h, [Mk("Reopen") EXCEPT !.v = "rw"]) /\ UNCHANGED <<cok, nmut, ntxn>>
  \/ /\ "ro" \in Modes /\ ~ro /\ Reopen(TRUE)
     /\ h' = Append(h, [Mk("Reopen") EXCEPT !.v = "ro"]) /\ UNCHANGED <<cok, nmut, ntxn>>
  \/ /\ "legacy" \in Modes
     /\ \E ver \in LegacyVersions :
          /\ Legacy(ver)
          /\ h' = Append(h, [Mk("Legacy") EXCEPT !.v = ver])
     /\ UNCHANGED <<cok, nmut, ntxn>>

(* a reopen directly after another reopen adds nothing *)
NoDoubleReopen == IF h = <<>> THEN TRUE ELSE h[Len(h)].a \notin {"Reopen", "Legacy"}

MInit == SInit /\ h = <<>> /\ cok = TRUE /\ nmut = 0 /\ ntxn = 0
MNext == MBegin \/ MCall \/ MCommit \/ MAbandon \/ (NoDoubleReopen /\ MReopen)

HBound == Len(h) <= MaxLen
ContractOK == cok

(* what is committed changes only by a commit; what an abandoned transaction *)
(* did is gone; reopening changes nothing                                   *)
Atomic == [][disk' # disk => (open /\ ~open' /\ disk' = buf) \/ (~open /\ ~open')]_mvars

MEmit == (Emit /\ Len(h) <= MaxLen /\ (EmitAll \/ Len(h) = MaxLen)) => PrintT(<<"REPLAY", ToJson(h)>>)
=============================================================================
