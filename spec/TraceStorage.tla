----------------------------- MODULE TraceStorage -----------------------------
(***************************************************************************)
(* Trace validation for TCStorage (C16): every line of the ndjson trace    *)
(* recorded by harness/src/stordrv.rs (storage-replay) from a real backend *)
(* -- InMemoryStorage, SqliteStorage, SqliteStorage with close/reopen, a   *)
(* read-only handle, a database rewritten under an older schema -- must be *)
(* the step of the TCStorage action of that name, with the logged status   *)
(* and value equal to the specification's.  Collections the contract       *)
(* leaves unordered (all_tasks, all_task_uuids, get_pending_tasks) are     *)
(* compared as sets / bags; everything else literally.  Both backends are  *)
(* validated against the same deterministic specification, so they agree   *)
(* with each other on every call.                                          *)
(***************************************************************************)
EXTENDS TCStorage, Json, IOUtils, TLCExt

Rec == ndJsonDeserialize(IOEnv.TRACE)

VARIABLE l
tvars == <<svars, l>>

E == Rec[l]
IsEvent(name) == l <= Len(Rec) /\ Rec[l].a = name /\ l' = l + 1

-----------------------------------------------------------------------------
(* JSON -> specification values (as in TraceSync) *)
JMapOK(pairs) == /\ \A i \in DOMAIN pairs : pairs[i][1] \in Props
                 /\ \A i, j \in DOMAIN pairs : i # j => pairs[i][1] # pairs[j][1]
JMap(pairs) ==
  [q \in Props |-> IF \E i \in DOMAIN pairs : pairs[i][1] = q
                   THEN pairs[CHOOSE i \in DOMAIN pairs : pairs[i][1] = q][2]
                   ELSE NoVal]
JOp(j)  == [k |-> j.k, u |-> j.u, p |-> j.p, v |-> j.v, t |-> j.t, o |-> JMap(j.o)]
JOps(a) == [i \in DOMAIN a |-> JOp(a[i])]
JOpsOK(a) == \A i \in DOMAIN a : JMapOK(a[i].o)
JTasksOK(a) == /\ \A i \in DOMAIN a : a[i][1] \in Tasks /\ JMapOK(a[i][2])
               /\ \A i, j \in DOMAIN a : i # j => a[i][1] # a[j][1]
JTasks(a) ==
  [u \in Tasks |-> IF \E i \in DOMAIN a : a[i][1] = u
                   THEN [ex |-> TRUE, m |-> JMap(a[CHOOSE i \in DOMAIN a : a[i][1] = u][2])]
                   ELSE Absent]
Count(a, u) == Cardinality({i \in DOMAIN a : a[i] = u})
Firsts(a) == [i \in DOMAIN a |-> a[i][1]]

(* the logged value of call c equals the specification's value in buffer s *)
ValMatches(s, c, v) ==
  LET w == Val(s, c) IN
  CASE c.a = "GetTask" -> JMapOK(v.m) /\ [ex |-> v.ex, m |-> JMap(v.m)] = w
    [] c.a \in {"CreateTask", "DeleteTask", "IsEmpty"} -> v = w
    [] c.a = "AllTasks" -> JTasksOK(v) /\ JTasks(v) = w
    [] c.a = "AllTaskUuids" ->
         /\ {v[i] : i \in DOMAIN v} = w
         /\ Len(v) = Cardinality(w)
    [] c.a = "BaseVersion" -> v = w
    [] c.a \in {"UnsyncedOperations", "GetTaskOperations"} -> JOpsOK(v) /\ JOps(v) = w
    [] c.a \in {"NumUnsynced", "AddToWorkingSet"} -> v = w
    [] c.a = "GetWorkingSet" -> v.ws0 /\ v.ws = w
    [] c.a = "GetPendingTasks" ->
         \* a bag of (task, content) pairs: one per working-set position whose task exists
         /\ Len(v) = Len(w)
         /\ \A i \in DOMAIN v : v[i][1] \in Tasks /\ JMapOK(v[i][2])
         /\ \A u \in Tasks : Count(Firsts(v), u) = Count(w, u)
         /\ \A i \in DOMAIN v : JMap(v[i][2]) = s.tasks[v[i][1]].m
    [] OTHER -> v = "-"

-----------------------------------------------------------------------------
TReset ==
  /\ IsEvent("Reset")
  /\ disk' = EmptyStore /\ buf' = EmptyStore /\ open' = FALSE /\ ro' = FALSE

TBegin == IsEvent("Begin") /\ E.st = "ok" /\ Begin

TCall ==
  /\ IsEvent("Call")
  /\ E.st = Status(ro, buf, E.c)
  /\ (E.st = "ok" => TRUE = ValMatches(buf, E.c, E.v))
  /\ Call(E.c)

TCommit  == IsEvent("Commit") /\ E.st = CommitStatus /\ Commit
TAbandon == IsEvent("Abandon") /\ Abandon
TReopen  == IsEvent("Reopen") /\ E.st = "ok" /\ Reopen(E.v = "ro")
TLegacy  == IsEvent("Legacy") /\ E.st = "ok" /\ Legacy(E.v)

TNext == TReset \/ TBegin \/ TCall \/ TCommit \/ TAbandon \/ TReopen \/ TLegacy

TInit == SInit /\ l = 1
TSpec == TInit /\ [][TNext]_tvars

Accepted ==
  LET d == TLCGet("stats").diameter IN
  IF d - 1 = Len(Rec) THEN TRUE
  ELSE Print(<<"TRACE-REJECTED-AT", d, ToJson(Rec[d])>>, FALSE)
=============================================================================
