--------------------------- MODULE TraceSqliteTxn ---------------------------
(***************************************************************************)
(* Trace validation for SqliteTxn.                                         *)
(*                                                                         *)
(* C06 (harness sqlite-kill): one behaviour per interrupted run.  The      *)
(* parent process logs the state it read from the directory before the     *)
(* child started (Open), the storage transactions the child completed      *)
(* before it was stopped (Begin / Commit, with the committed state taken   *)
(* from an uninterrupted reference run of the same action on a copy of the *)
(* same directory), the stop itself (Kill, or Drop for an injected error   *)
(* return) and what a fresh SqliteStorage then read from the directory     *)
(* (Recover).  Accepted iff every Commit is a complete replica action of   *)
(* TCReplica from the state before it and the recovered state is the       *)
(* specification's: the before-state of the interrupted transaction, or    *)
(* its after-state when COMMIT had returned.  For stops at a random        *)
(* instant (KillAsync) the parent does not know how far the child got: any *)
(* number of complete transactions, never a part of one; all of them when  *)
(* the child had reported completion.                                      *)
(*                                                                         *)
(* C17 (harness sqlite-concurrent): the audit of the directory after       *)
(* several handles worked on it at once (Audit).                           *)
(***************************************************************************)
EXTENDS SqliteTxn, Json, IOUtils, TLCExt

Rec == ndJsonDeserialize(IOEnv.TRACE)

VARIABLE l
tvars == <<tvars0, l>>

E == Rec[l]
IsEvent(name) == l <= Len(Rec) /\ Rec[l].a = name /\ l' = l + 1

-----------------------------------------------------------------------------
JMapOK(pairs) == \A i \in DOMAIN pairs : pairs[i][1] \in Props
JMap(pairs) ==
  [q \in Props |-> IF \E i \in DOMAIN pairs : pairs[i][1] = q
                   THEN pairs[CHOOSE i \in DOMAIN pairs : pairs[i][1] = q][2]
                   ELSE NoVal]
JOp(j)  == [k |-> j.k, u |-> j.u, p |-> j.p, v |-> j.v, t |-> j.t, o |-> JMap(j.o)]
JOps(a) == [i \in DOMAIN a |-> JOp(a[i])]
JOpsOK(a) == \A i \in DOMAIN a : JMapOK(a[i].o) /\ (a[i].k \in {"C","D","U"} => a[i].u \in Tasks)
                                /\ (a[i].k = "U" => a[i].p \in Props)
JTasksOK(a) == \A i \in DOMAIN a : a[i][1] \in Tasks /\ JMapOK(a[i][2])
JTasks(a) ==
  [u \in Tasks |-> IF \E i \in DOMAIN a : a[i][1] = u
                   THEN [ex |-> TRUE, m |-> JMap(a[CHOOSE i \in DOMAIN a : a[i][1] = u][2])]
                   ELSE Absent]
JDb(p) == [tasks |-> JTasks(p.tasks), ops |-> JOps(p.ops), base |-> p.base, ws |-> p.ws]
JDbOK(p) == JTasksOK(p.tasks) /\ JOpsOK(p.ops) /\ p.ws0 /\ p.base >= 0
JAct(a) == Act(a.kind, JOps(a.ops), a.rn)
JActOK(a) == JOpsOK(a.ops)

-----------------------------------------------------------------------------
TReset ==
  /\ IsEvent("Reset")
  /\ db' = [r \in Replicas |-> EmptyReplica]
  /\ lock' = "~" /\ hs' = [h \in Handles |-> IdleH]
  /\ pub' = <<EmptyReplica>> /\ serial' = <<>>

(* the directory as the parent found it before the run *)
TOpen ==
  /\ IsEvent("Open") /\ JDbOK(E.db)
  /\ \A h \in Handles : hs[h].st = "idle"
  /\ db' = [r \in Replicas |-> JDb(E.db)]
  /\ pub' = <<JDb(E.db)>> /\ serial' = <<>>
  /\ UNCHANGED <<lock, hs>>

TBegin  == IsEvent("Begin") /\ JActOK(E.act) /\ BeginImmediate(E.h, JAct(E.act))
TCommit == IsEvent("Commit") /\ JDbOK(E.post) /\ Commit(E.h, JDb(E.post))
TDrop   == IsEvent("Drop") /\ Drop(E.h)
TKill   == IsEvent("Kill") /\ Kill(E.h)

(* stopped at an unknown point of a known sequence of transactions *)
RECURSIVE ChainOK(_,_,_,_)
ChainOK(s, acts, posts, j) ==
  IF j = 0 THEN TRUE
  ELSE /\ IsTarget(s, acts[1], posts[1])
       /\ ChainOK(posts[1], Tail(acts), Tail(posts), j - 1)
TKillAsync ==
  /\ IsEvent("KillAsync") /\ hs[E.h].st = "idle" /\ lock = "~"
  /\ \A i \in DOMAIN E.acts : JActOK(E.acts[i])
  /\ \A i \in DOMAIN E.posts : JDbOK(E.posts[i])
  /\ LET acts  == [i \in DOMAIN E.acts |-> JAct(E.acts[i])]
         posts == [i \in DOMAIN E.posts |-> JDb(E.posts[i])]
     IN \E j \in 0..Len(acts) :
          /\ (E.reported => j = Len(acts))
          /\ ChainOK(Disk, acts, posts, j)
          /\ SetDisk(IF j = 0 THEN Disk ELSE posts[j])
          /\ pub' = pub \o SubSeq(posts, 1, j)
          /\ serial' = serial \o SubSeq(acts, 1, j)
  /\ hs' = [hs EXCEPT ![E.h].st = "dead"]
  /\ UNCHANGED lock

(* a fresh SqliteStorage on the directory after the stop *)
TRecover == IsEvent("Recover") /\ JDbOK(E.obs) /\ Disk = JDb(E.obs) /\ Restart(E.h)
(* the state read through a handle (the same one after an error return, or a fresh one) *)
TObserve == IsEvent("Observe") /\ JDbOK(E.obs) /\ Disk = JDb(E.obs) /\ UNCHANGED tvars0

-----------------------------------------------------------------------------
(* C17: the audit after concurrent use.  E.db is the directory as read by a *)
(* fresh handle; E.commits the batches the workers committed, with the      *)
(* result each worker was given; E.undone the lists that successful undos   *)
(* withdrew; E.final the state after one more rebuild by the auditor.       *)
IsP(o) == o.k = "P"
Positions(s, sub) == {i \in 1..(Len(s) - Len(sub) + 1) : SubSeq(s, i, i + Len(sub) - 1) = sub}
AuditOK(d, commits, undone, final) ==
  LET stored    == d.ops
      withdrawn == UNION {{undone[i][j] : j \in DOMAIN undone[i]} : i \in DOMAIN undone}
      changes(c) == {c.ops[j] : j \in {x \in DOMAIN c.ops : ~IsP(c.ops[x])}}
      gone(c)   == changes(c) \subseteq withdrawn
      okc       == {i \in DOMAIN commits : commits[i].ok}
      inStore   == {stored[i] : i \in {x \in DOMAIN stored : ~IsP(stored[x])}}
  IN \* replaying the stored operations in their stored order gives the stored tasks
     /\ ApplyAll(EmptyDb, ToSync(stored)) = d.tasks
     \* no operation is stored twice
     /\ \A i, j \in DOMAIN stored : (i < j /\ ~IsP(stored[i])) => stored[i] # stored[j]
     \* every successful commit is entirely present, as one uninterrupted run, unless an
     \* undo withdrew it -- then it is entirely absent
     /\ \A i \in okc : IF gone(commits[i]) THEN changes(commits[i]) \cap inStore = {}
                        ELSE /\ changes(commits[i]) \cap withdrawn = {}
                             /\ Positions(stored, commits[i].ops) # {}
     \* every failed commit is entirely absent
     /\ \A i \in DOMAIN commits : ~commits[i].ok => changes(commits[i]) \cap inStore = {}
     \* nothing else is stored
     /\ inStore \subseteq UNION {changes(commits[i]) : i \in okc}
     /\ Cardinality({i \in DOMAIN stored : IsP(stored[i])})
          = Cardinality({i \in okc : ~gone(commits[i])})
     \* the working set: no task twice, no pending task missing; and after one rebuild it
     \* lists exactly the pending tasks, every retained task at its old number
     /\ \A i, j \in DOMAIN d.ws : (i # j /\ d.ws[i] # NoVal) => d.ws[i] # d.ws[j]
     /\ \A u \in Tasks : InWS(d.tasks[u]) => u \in Range(d.ws)
     /\ final.tasks = d.tasks /\ final.ops = d.ops
     /\ WSExactlyPending(final) /\ WSNoTrailingGap(final) /\ WSStable(d, final)

(* what a handle read in one transaction while the others were working: only *)
(* complete transactions -- the operations are a sequence of whole committed *)
(* batches (each begins with its undo point), and they replay to the tasks   *)
SnapshotOK(d, commits) ==
  LET ops == d.ops
      okc == {i \in DOMAIN commits : commits[i].ok}
      WholeAt(i) == \E c \in okc :
                      LET n == Len(commits[c].ops)
                      IN /\ i + n - 1 <= Len(ops)
                         /\ SubSeq(ops, i, i + n - 1) = commits[c].ops
                         /\ IF i + n <= Len(ops) THEN IsP(ops[i + n]) ELSE TRUE
  IN /\ ApplyAll(EmptyDb, ToSync(ops)) = d.tasks
     /\ IF ops = <<>> THEN TRUE ELSE IsP(ops[1])
     /\ \A i \in DOMAIN ops : IsP(ops[i]) => WholeAt(i)
     /\ \A i, j \in DOMAIN d.ws : (i # j /\ d.ws[i] # NoVal) => d.ws[i] # d.ws[j]

TAudit ==
  /\ IsEvent("Audit") /\ JDbOK(E.db) /\ JDbOK(E.final)
  /\ \A i \in DOMAIN E.snaps : JDbOK(E.snaps[i])
  /\ \A i \in DOMAIN E.snaps :
        TRUE = SnapshotOK(JDb(E.snaps[i]),
                 [k \in DOMAIN E.commits |-> [ops |-> JOps(E.commits[k].ops), ok |-> E.commits[k].ok]])
  /\ \A i \in DOMAIN E.commits : JOpsOK(E.commits[i].ops)
  /\ \A i \in DOMAIN E.undone : JOpsOK(E.undone[i])
  \* (compared with TRUE so that TLC evaluates the predicate as an expression: at the level
  \* of an action it would evaluate both sides of every disjunction)
  /\ TRUE = AuditOK(JDb(E.db),
             [i \in DOMAIN E.commits |-> [ops |-> JOps(E.commits[i].ops), ok |-> E.commits[i].ok]],
             [i \in DOMAIN E.undone |-> JOps(E.undone[i])],
             JDb(E.final))
  /\ db' = [r \in Replicas |-> JDb(E.final)]
  /\ pub' = <<JDb(E.final)>> /\ serial' = <<>>
  /\ UNCHANGED <<lock, hs>>

TNext == TReset \/ TOpen \/ TBegin \/ TCommit \/ TDrop \/ TKill \/ TKillAsync \/ TRecover
         \/ TObserve \/ TAudit

TInit == TInit0(EmptyReplica) /\ l = 1
TSpec == TInit /\ [][TNext]_tvars

Accepted ==
  LET d == TLCGet("stats").diameter IN
  IF d - 1 = Len(Rec) THEN TRUE
  ELSE Print(<<"TRACE-REJECTED-AT", d, ToJson(Rec[d])>>, FALSE)
=============================================================================
