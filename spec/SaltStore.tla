----------------------------- MODULE SaltStore -----------------------------
(***************************************************************************)
(* Creation of the salt object by concurrently starting object-store       *)
(* clients (CloudServer::new / get_salt): get "salt"; if absent,           *)
(* compare-and-swap(absent -> a fresh random salt) and look again.         *)
(* Property: all clients end up deriving their key from the same salt, so  *)
(* that each can open what the others seal (part of C09/C13's ground).     *)
(***************************************************************************)
EXTENDS Integers, Sequences, FiniteSets, TLC, Json

CONSTANTS Clients, MaxSalts, Emit, DevPut   \* DevPut (anti-vacuity): plain put instead of compare-and-swap

VARIABLES stored,    \* 0: no salt object, else the id of the salt stored
          cl,        \* [Clients -> [pc, salt]]
          nextSalt, h
svars == <<stored, cl, nextSalt, h>>
SView == <<stored, cl, nextSalt>>

Init == stored = 0 /\ cl = [c \in Clients |-> [pc |-> "new", salt |-> 0]] /\ nextSalt = 1 /\ h = <<>>

Open(c) == /\ cl[c].pc = "new" /\ cl' = [cl EXCEPT ![c].pc = "get"]
           /\ h' = Append(h, [a |-> "Open", c |-> c]) /\ UNCHANGED <<stored, nextSalt>>

Get(c) ==  /\ cl[c].pc = "get"
           /\ cl' = [cl EXCEPT ![c] = IF stored # 0 THEN [pc |-> "ready", salt |-> stored]
                                       ELSE [pc |-> "cas", salt |-> 0]]
           /\ h' = Append(h, [a |-> "Step", c |-> c]) /\ UNCHANGED <<stored, nextSalt>>

Cas(c) ==  /\ cl[c].pc = "cas" /\ nextSalt <= MaxSalts
           /\ stored' = IF stored = 0 \/ DevPut THEN nextSalt ELSE stored
           /\ nextSalt' = nextSalt + 1
           /\ cl' = [cl EXCEPT ![c].pc = IF DevPut THEN "ready" ELSE "get",
                               ![c].salt = IF DevPut THEN nextSalt ELSE 0]
           /\ h' = Append(h, [a |-> "Step", c |-> c])

Next == \E c \in Clients : Open(c) \/ Get(c) \/ Cas(c)

(* every client that is ready uses the salt that is stored *)
Agreement == \A c \in Clients : cl[c].pc = "ready" => cl[c].salt = stored
Done == \A c \in Clients : cl[c].pc = "ready"
EmitReplay == (Emit /\ Done) => PrintT(<<"REPLAY", ToJson(h)>>)
=============================================================================
