------------------------------ MODULE TCTypes ------------------------------
(***************************************************************************)
(* Data and pure functions shared by every TaskChampion specification.     *)
(*                                                                         *)
(* Conventions (fixed by DESIGN.md section 3): all model values are        *)
(* strings; "no value" is the string "~"; every value of one variable has  *)
(* one shape (TLC raises an error when it compares values of different     *)
(* shapes): an absent task is [ex |-> FALSE, m |-> all-unset], an          *)
(* operation always carries the six fields k,u,p,v,t,o.                    *)
(***************************************************************************)
EXTENDS Naturals, Integers, Sequences, FiniteSets, TLC

CONSTANTS Tasks,    \* task ids (strings)
          Props,    \* property names (strings)
          Vals,     \* property values (strings)
          Times     \* timestamps (integers)

NoVal    == "~"
ValsN    == Vals \cup {NoVal}
EmptyMap == [p \in Props |-> NoVal]
Absent   == [ex |-> FALSE, m |-> EmptyMap]
EmptyTask == [ex |-> TRUE, m |-> EmptyMap]
EmptyDb  == [u \in Tasks |-> Absent]

(* Operations.  k: "C" create, "D" delete, "U" update, "P" undo point.     *)
(* o is the old-value record kept only locally (Operation::Update.old_value*)
(* at o[p]; Operation::Delete.old_task as the whole map).                  *)
C(u)          == [k |-> "C", u |-> u, p |-> "-", v |-> "-", t |-> 0, o |-> EmptyMap]
D(u, old)     == [k |-> "D", u |-> u, p |-> "-", v |-> "-", t |-> 0, o |-> old]
U(u,p,v,t,ov) == [k |-> "U", u |-> u, p |-> p, v |-> v, t |-> t, o |-> [EmptyMap EXCEPT ![p] = ov]]
UndoPoint     == [k |-> "P", u |-> "-", p |-> "-", v |-> "-", t |-> 0, o |-> EmptyMap]
NoOp          == [k |-> "N", u |-> "-", p |-> "-", v |-> "-", t |-> 0, o |-> EmptyMap]

(* SyncOp::from_op: what may leave the replica -- no undo points, no old   *)
(* values.                                                                 *)
Strip(op) == [op EXCEPT !.o = EmptyMap]
RECURSIVE ToSync(_)
ToSync(ops) == IF ops = <<>> THEN <<>>
               ELSE IF Head(ops).k = "P" THEN ToSync(Tail(ops))
               ELSE <<Strip(Head(ops))>> \o ToSync(Tail(ops))

(* The documented operation model (docs/src/storage.md, taskdb.md):        *)
(* create makes an empty task unless it exists; update sets/removes one    *)
(* property of an existing task; delete removes an existing task;          *)
(* operations on missing tasks and undo points change nothing.             *)
Apply(ts, op) ==
  IF op.k = "C" THEN (IF ts[op.u].ex THEN ts ELSE [ts EXCEPT ![op.u] = EmptyTask])
  ELSE IF op.k = "D" THEN [ts EXCEPT ![op.u] = Absent]
  ELSE IF op.k = "U" THEN
        (IF ts[op.u].ex THEN [ts EXCEPT ![op.u].m[op.p] = op.v] ELSE ts)
  ELSE ts

RECURSIVE ApplyAll(_,_)
ApplyAll(ts, ops) == IF ops = <<>> THEN ts ELSE ApplyAll(Apply(ts, Head(ops)), Tail(ops))

RECURSIVE Flatten(_)
Flatten(ss) == IF ss = <<>> THEN <<>> ELSE Head(ss) \o Flatten(Tail(ss))

(* The state obtained by applying the first n stored versions, in order,   *)
(* to an empty task set.                                                   *)
Replay(ch, n) == ApplyAll(EmptyDb, Flatten(SubSeq(ch, 1, n)))

(* Operational transformation: server op s against local op l gives        *)
(* <<s', l'>> (NoOp = nothing left).  Transcribed from the table in        *)
(* docs/src/sync-model.md / SyncOp::transform; MC_Xform checks the diamond *)
(* EqualCancels: a definition, not a constant, so that no configuration has to set it; the     *)
(* anti-vacuity run of C03 overrides it (EqualCancels <- EqTrue in the cfg file).             *)
EqualCancels == FALSE
EqTrue == TRUE
(* property for it instead of assuming it.                                 *)
Xform(s, l) ==
  IF s.u # l.u THEN <<s, l>>
  ELSE IF s.k = "C" /\ l.k = "C" THEN <<NoOp, NoOp>>
  ELSE IF s.k = "D" /\ l.k = "D" THEN <<NoOp, NoOp>>
  ELSE IF s.k = "C" /\ l.k = "D" THEN <<s, NoOp>>
  ELSE IF s.k = "D" /\ l.k = "C" THEN <<NoOp, l>>
  ELSE IF s.k = "U" /\ l.k = "C" THEN <<s, NoOp>>
  ELSE IF s.k = "C" /\ l.k = "U" THEN <<NoOp, l>>
  ELSE IF s.k = "U" /\ l.k = "D" THEN <<NoOp, l>>
  ELSE IF s.k = "D" /\ l.k = "U" THEN <<s, NoOp>>
  ELSE IF s.p # l.p THEN <<s, l>>
  \* (until fix EQ1 two updates to the same value cancelled each other, whatever their
  \* timestamps: EqualCancels = TRUE is that former table, kept for the anti-vacuity run)
  ELSE IF EqualCancels /\ s.v = l.v THEN <<NoOp, NoOp>>
  ELSE IF s.t < l.t THEN <<NoOp, l>>
  ELSE <<s, NoOp>>

(* Rebase one server op over the local list: <<remaining server op, new    *)
(* local list>>.  Once the server op is consumed the rest is copied.       *)
RECURSIVE RebaseOne(_,_)
RebaseOne(s, lops) ==
  IF lops = <<>> THEN <<s, <<>> >>
  ELSE IF s = NoOp THEN <<NoOp, lops>>
  ELSE LET x == Xform(s, Head(lops))
           r == RebaseOne(x[1], Tail(lops))
       IN <<r[1], IF x[2] = NoOp THEN r[2] ELSE <<x[2]>> \o r[2]>>

(* apply_version: [l |-> rebased local ops, t |-> tasks, s |-> transformed *)
(* server ops that were applied].  A surviving server op is applied with   *)
(* apply_op, whose failure on an invalid op is ignored -- same as Apply.   *)
RECURSIVE RebaseVersion(_,_,_,_)
RebaseVersion(sops, lops, ts, acc) ==
  IF sops = <<>> THEN [l |-> lops, t |-> ts, s |-> acc]
  ELSE LET r == RebaseOne(Head(sops), lops)
       IN IF r[1] = NoOp THEN RebaseVersion(Tail(sops), r[2], ts, acc)
          ELSE RebaseVersion(Tail(sops), r[2], Apply(ts, r[1]), Append(acc, r[1]))

(* Batching: an update of a value in BigVals has size BigSize, everything  *)
(* else size 1; a batch holds at least one operation and otherwise at most *)
(* Cap size units (the code: JSON length, 1 000 000 bytes).                *)
CONSTANTS Cap, BigVals, BigSize
Size(op) == IF op.k = "U" /\ op.v \in BigVals THEN BigSize ELSE 1
RECURSIVE BatchLen(_,_,_)
BatchLen(ops, n, used) ==
  IF ops = <<>> THEN n
  ELSE LET sz == used + Size(Head(ops))
       IN IF n = 0 \/ sz <= Cap THEN BatchLen(Tail(ops), n + 1, sz) ELSE n
FirstBatchLen(ops) == BatchLen(ops, 0, 0)

Range(f) == {f[i] : i \in DOMAIN f}
SeqsUpTo(S, n) == UNION {[1..k -> S] : k \in 0..n}
=============================================================================
