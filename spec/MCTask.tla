------------------------------- MODULE MCTask -------------------------------
(***************************************************************************)
(* Model-checking harness for TaskModel.                                   *)
(*  Mode "read"   (C18): every stored task map of <= MaxEntries entries    *)
(*     over (key token x value class); each is one stimulus.               *)
(*  Mode "mutate" (C19): from every prior state of a small family, every   *)
(*     sequence of MaxMut mutator calls over an alphabet of call shapes,   *)
(*     with up to MaxCommits commit+reload steps in between.               *)
(* The history variable h (action names and arguments only) is printed as  *)
(* a REPLAY line for the Rust harness to execute on the real crate.        *)
(***************************************************************************)
EXTENDS TaskModel, Json, SequencesExt

CONSTANTS Mode,        \* "read" | "mutate"
          EnumKeys,    \* read: key tokens used in the enumeration
          MaxEntries,  \* read: max number of entries of a map (<= 3)
          CoreOnly,    \* read: TRUE = maps of 3 entries only over CoreKeys
          CoreKeys,    \* read: the keys whose interplay the readers depend on
          Priors,      \* mutate: names of prior states
          AlphaName,   \* mutate: "full" | "core"
          MaxMut,      \* mutate: number of mutator calls per behaviour
          MaxCommits,  \* mutate: commit+reload steps allowed inside a behaviour
          Emit         \* TRUE: print REPLAY lines

VARIABLES pc, nm, nc, h
mcvars == <<vars, pc, nm, nc, h>>
View == <<vars, pc, nm, nc>>

Ev(a, f, k, v) == [a |-> a, f |-> f, k |-> k, v |-> v, e |-> <<>>]

-----------------------------------------------------------------------------
(* read mode *)
TsClasses == {"empty","nonnum","past","pastx","future","far","huge","neg","negfar","fw"}
ClassesFor(k) ==
  CASE k = "status" -> StatusVals \cup {"unknown","empty"}
    [] k \in TsKeys -> TsClasses
    [] k \in {"description","priority"} -> {"text","empty"}
    [] k = "tag:valid" -> {"empty","text"}
    [] k \in TagKeys -> {"empty"}
    [] k = "ann:valid" -> {"text","empty"}
    [] k \in AnnKeys -> {"text"}
    [] k \in DepKeys -> {"empty"}
    [] k = "uda:plain" -> {"text","past"}
    [] OTHER -> {"text"}
Entries == UNION {{<<k, c>> : c \in ClassesFor(k)} : k \in EnumKeys}
EntSeq == SetToSeq(Entries)
NEnt == Len(EntSeq)

(* index triples 0 <= i <= j <= k, zeros first, the others strictly           *)
(* increasing; the largest index is chosen in a step of its own so that     *)
(* the enumeration is spread over TLC's workers                             *)
ReadPick ==
  /\ pc = "init"
  /\ \E k \in 0..NEnt : nm' = k
  /\ pc' = "pick" /\ UNCHANGED <<vars, nc, h>>

ReadInstall ==
  /\ pc = "pick"
  /\ \E i, j \in 0..nm :
       LET k == nm IN
       /\ i <= j /\ j <= k
       /\ (i = 0 \/ i < j) /\ (j = 0 \/ j < k)
       /\ Cardinality({x \in {i, j, k} : x # 0}) <= MaxEntries
       /\ LET idx == {x \in {i, j, k} : x # 0}
              ks  == {EntSeq[x][1] : x \in idx}
              es  == SetToSeq({EntSeq[x] : x \in idx})
          IN /\ Cardinality(ks) = Cardinality(idx)          \* distinct keys
             /\ (CoreOnly /\ Cardinality(idx) = 3) => ks \subseteq CoreKeys
             /\ Install(es)
             /\ h' = <<[Ev("Install", "-", "-", "-") EXCEPT !.e = es]>>
  /\ pc' = "done" /\ nm' = 0 /\ UNCHANGED nc

-----------------------------------------------------------------------------
(* mutate mode: prior states, as the entries an earlier application wrote *)
PriorEntries(p) ==
  CASE p = "empty"     -> <<>>
    [] p = "fresh"     -> << <<"status","pending">>, <<"modified","past">>, <<"entry","past">>,
                             <<"description","text">> >>
    [] p = "done"      -> << <<"status","completed">>, <<"end","past">>, <<"modified","past">> >>
    [] p = "deleted"   -> << <<"status","deleted">>, <<"end","past">>, <<"modified","past">> >>
    [] p = "pendend"   -> << <<"status","pending">>, <<"end","past">> >>
    [] p = "donenoend" -> << <<"status","completed">> >>
    [] p = "rich"      -> << <<"status","pending">>, <<"wait","future">>, <<"start","past">>,
                             <<"tag:valid","empty">>, <<"ann:valid","text">>, <<"dep:t2","empty">>,
                             <<"uda:plain","text">>, <<"uda:ns","text">>, <<"modified","past">> >>
    [] p = "garbage"   -> << <<"status","unknown">>, <<"modified","nonnum">>, <<"end","empty">>,
                             <<"start","far">>, <<"wait","huge">>, <<"due","fw">>,
                             <<"tag:malformed","empty">>, <<"dep:self","empty">> >>
    [] p = "recurring" -> << <<"status","recurring">>, <<"dep:t3","empty">>, <<"end","far">> >>
    [] OTHER -> <<>>

A(f, k, v) == [f |-> f, k |-> k, v |-> v]
AlphaCore ==
  {A("set_status", "-", s) : s \in {"pending","completed","deleted"}}
  \cup {A("set_description", "-", "text2"), A("set_modified", "-", "past2"),
        A("start", "-", "-"), A("stop", "-", "-"), A("done", "-", "-"),
        A("add_tag", "tag:valid", "-"), A("remove_tag", "tag:valid", "-"),
        A("add_dependency", "dep:t2", "-"), A("remove_dependency", "dep:t2", "-"),
        A("set_wait", "-", "future2"), A("set_value", "end", "past2"),
        A("set_user_defined_attribute", "uda:plain", "text2"),
        A("set_user_defined_attribute", "status", "text2"),
        A("into_data", "-", "-"), A("data.update", "status", "pending"),
        A("data.delete", "-", "-")}
AlphaFull ==
  AlphaCore
  \cup {A("set_status", "-", s) : s \in {"recurring","unknown"}}
  \cup {A("set_description", "-", "empty"), A("set_priority", "-", "text"),
        A("set_modified", "-", "future")}
  \cup {A(f, "-", v) : f \in {"set_entry","set_wait","set_due"}, v \in {NoVal, "past", "future"}}
  \cup {A("delete", "-", "-")}
  \cup {A("add_tag", "tag:valid2", "-"), A("add_tag", "tag:synth", "-"),
        A("remove_tag", "tag:synth", "-"), A("remove_tag", "tag:valid2", "-")}
  \cup {A("add_annotation", "ann:valid", "text"), A("add_annotation", "ann:valid", "text2"),
        A("add_annotation", "ann:valid2", "empty"), A("add_annotation", "ann:neg", "text"),
        A("remove_annotation", "ann:valid", "-"), A("remove_annotation", "ann:valid2", "-")}
  \cup {A("add_dependency", k, "-") : k \in {"dep:t3","dep:self","dep:missing"}}
  \cup {A("remove_dependency", "dep:self", "-")}
  \cup {A(f, k, "text") : f \in UdaSetters,
                          k \in {"uda:plain","uda:ns","uda:empty","due","tag:valid","dep:t2"}}
  \cup {A(f, k, "-") : f \in UdaRemovers, k \in {"uda:plain","uda:ns","ann:valid","modified"}}
  \cup {A("set_value", k, v) : k \in {"modified","status","end","uda:near","tag:malformed"},
                               v \in {NoVal, "past", "completed"}}
  \cup {A("set_timestamp", k, v) : k \in {"due","uda:plain"}, v \in {NoVal, "future2"}}
  \cup {A("data.update", k, v) : k \in {"modified","status","uda:plain","tag:valid","end"},
                                 v \in {NoVal, "past2", "completed"}}
Alpha == IF AlphaName = "core" THEN AlphaCore ELSE AlphaFull

MCPrior ==
  /\ pc = "init"
  /\ \E p \in Priors :
       IF p = "absent"
       THEN /\ h' = <<>> /\ UNCHANGED vars
       ELSE /\ Install(PriorEntries(p))
            /\ h' = <<[Ev("Install", p, "-", "-") EXCEPT !.e = PriorEntries(p)]>>
  /\ pc' = "installed" /\ UNCHANGED <<nm, nc>>

HowNow == IF st.ex THEN "get_task" ELSE "create_task"
MCLoad ==
  /\ pc = "installed"
  /\ Load(HowNow)
  /\ h' = Append(h, Ev("Load", HowNow, "-", "-"))
  /\ pc' = "loaded" /\ UNCHANGED <<nm, nc>>

MCMut ==
  /\ pc = "loaded" /\ nm < MaxMut
  /\ \E a \in Alpha :
       /\ IF a.f = "into_data" THEN IntoData ELSE Mut(a.f, a.k, a.v)
       /\ h' = Append(h, Ev("Mut", a.f, a.k, a.v))
  /\ nm' = nm + 1 /\ UNCHANGED <<pc, nc>>

(* commit what was recorded, fetch the task again: a new editing session *)
MCCommit ==
  /\ pc = "loaded" /\ nm < MaxMut /\ nm > 0 /\ nc < MaxCommits /\ ops # <<>>
  /\ Commit
  /\ h' = Append(h, Ev("Commit", "-", "-", "-"))
  /\ pc' = "installed" /\ nc' = nc + 1 /\ UNCHANGED nm

MCInit == Init /\ pc = "init" /\ nm = 0 /\ nc = 0 /\ h = <<>>
MCNext == IF Mode = "read" THEN ReadPick \/ ReadInstall
          ELSE MCPrior \/ MCLoad \/ MCMut \/ MCCommit

Done == IF Mode = "read" THEN pc = "done" ELSE pc = "loaded" /\ nm = MaxMut
EmitReplay == (Emit /\ Done) => PrintT(<<"REPLAY", ToJson(h)>>)

(* invariants per mode *)
ReadInv   == TypeOK /\ ReadersTotal /\ ModelRules
MutateInv == TaskRules /\ ModelRules /\ ReadersTotal
=============================================================================
