------------------------------ MODULE TraceSync ------------------------------
(***************************************************************************)
(* Trace validation for TCSync: every line of the ndjson trace recorded    *)
(* from the real code (harness/src/syncdrv.rs) must be a step of the       *)
(* corresponding TCSync action, with the logged request, reply and          *)
(* post-state equal to what the specification says; every invariant of      *)
(* TCSync is evaluated on every state of the trace.                        *)
(***************************************************************************)
EXTENDS TCSync, Json, IOUtils, TLCExt

Rec == ndJsonDeserialize(IOEnv.TRACE)

VARIABLES l,        \* position in the trace
          hist      \* [Replicas -> synchronised operations kept in storage] (operation history)
tvars == <<vars, l, hist>>

E == Rec[l]
IsEvent(name) == l <= Len(Rec) /\ Rec[l].a = name /\ l' = l + 1

-----------------------------------------------------------------------------
(* JSON -> specification values *)
JMapOK(pairs) == \A i \in DOMAIN pairs : pairs[i][1] \in Props
JMap(pairs) ==
  [q \in Props |-> IF \E i \in DOMAIN pairs : pairs[i][1] = q
                   THEN pairs[CHOOSE i \in DOMAIN pairs : pairs[i][1] = q][2]
                   ELSE NoVal]
JOp(j)  == [k |-> j.k, u |-> j.u, p |-> j.p, v |-> j.v, t |-> j.t, o |-> JMap(j.o)]
JOps(a) == [i \in DOMAIN a |-> JOp(a[i])]
JOpsOK(a) == \A i \in DOMAIN a : JMapOK(a[i].o) /\ (a[i].k \in {"C","D","U"} => a[i].u \in Tasks)
                                /\ (a[i].k = "U" => a[i].p \in Props)
JTasksOK(a) == \A i \in DOMAIN a : a[i][1] \in Tasks /\ JMapOK(a[i][2])
JTasks(a) ==
  [u \in Tasks |-> IF \E i \in DOMAIN a : a[i][1] = u
                   THEN [ex |-> TRUE, m |-> JMap(a[CHOOSE i \in DOMAIN a : a[i][1] = u][2])]
                   ELSE Absent]
JDb(p) == [tasks |-> JTasks(p.tasks), ops |-> JOps(p.ops), base |-> p.base, ws |-> p.ws]
JDbOK(p) == JTasksOK(p.tasks) /\ JOpsOK(p.ops) /\ p.ws0

Post(r)    == JDbOK(E.post) /\ db'[r] = JDb(E.post)    \* logged state = state after the step
PostNow(r) == JDbOK(E.post) /\ db[r] = JDb(E.post)

-----------------------------------------------------------------------------
TReset ==
  /\ IsEvent("Reset")
  /\ db' = [r \in Replicas |-> EmptyReplica]
  /\ chain' = <<>> /\ snap' = NoSnap
  /\ sy' = [r \in Replicas |-> Idle]
  /\ err' = [r \in Replicas |-> FALSE]
  /\ hist' = [r \in Replicas |-> <<>>]

TEdit ==
  /\ IsEvent("Edit") /\ E.res = "ok" /\ JOpsOK(E.ops)
  /\ Edit(E.r, JOps(E.ops))
  /\ Post(E.r)

TStart == IsEvent("SyncStart") /\ SyncStart(E.r, E.avoid)

TGetSnapshot ==
  /\ IsEvent("GetSnapshot")
  /\ E.some = snap.some /\ (snap.some => E.ver = snap.ver)
  /\ SyncGetSnapshot(E.r)

TPull ==
  /\ IsEvent("Pull")
  /\ E.parent = sy[E.r].tb
  /\ (E.res = "version") = (sy[E.r].tb < Len(chain) /\ sy[E.r].tb >= snap.trim)
  /\ (E.res = "version" => E.ver = sy[E.r].tb + 1)
  /\ SyncPull(E.r)

Accepts(r) == sy[r].tb = Len(chain) \/ chain = <<>>

PushContent ==
  /\ E.wire_ok /\ JOpsOK(E.ops)
  /\ E.parent = sy[E.r].tb
  /\ JOps(E.ops) = PushBatch(sy[E.r])
  /\ (E.res = "ok") = Accepts(E.r)

TPush ==
  /\ IsEvent("Push") /\ ~E.lost
  /\ sy[E.r].pc = "push"
  /\ PushContent
  /\ SyncPush(E.r, E.urg)
  /\ E.ver = Len(chain')

TPushLost ==
  /\ IsEvent("Push") /\ E.lost
  /\ sy[E.r].pc = "push"
  /\ PushContent
  /\ IF E.res = "ok" THEN PushLostReply(E.r) ELSE SyncAbort(E.r)

SnapContent ==
  /\ E.decode_ok /\ JTasksOK(E.tasks)
  /\ E.ver = sy[E.r].tb
  /\ JTasks(E.tasks) = sy[E.r].tt

TSnapshot     == IsEvent("Snapshot") /\ ~E.lost /\ SnapContent /\ SyncSnapshot(E.r)
TSnapshotLost == IsEvent("Snapshot") /\ E.lost /\ SnapContent /\ SnapLostReply(E.r)

(* a request failed before taking effect *)
TFault == IsEvent("Fault") /\ E.kind = "before" /\ SyncAbort(E.r)

(* sync_complete: the local operations become synchronised, the transformed server operations *)
(* are recorded after them, and operations of tasks that no longer exist are forgotten        *)
KeepExisting(ops, ts) == SelectSeq(ops, LAMBDA o : o.k = "P" \/ ts[o.u].ex)
TCommit ==
  /\ IsEvent("SyncCommit") /\ SyncCommit(E.r) /\ Post(E.r)
  /\ hist' = [hist EXCEPT ![E.r] = KeepExisting(@ \o db[E.r].ops \o sy[E.r].acc, sy[E.r].tt)]
TRebuild == IsEvent("SyncRebuild") /\ SyncRebuild(E.r) /\ Post(E.r)

(* sync() returned *)
TDone ==
  /\ IsEvent("SyncDone")
  /\ \/ /\ E.res = "ok" /\ sy[E.r].pc = "idle" /\ ~err[E.r]
        /\ PostNow(E.r) /\ UNCHANGED vars
     \/ /\ E.res = "outofsync" /\ sy[E.r].pc = "idle" /\ err[E.r]
        /\ PostNow(E.r) /\ UNCHANGED vars
     \/ /\ E.res = "injected" /\ sy[E.r].pc = "idle"
        /\ PostNow(E.r) /\ UNCHANGED vars
     \/ \* a storage call failed: the transaction is abandoned wherever it was
        /\ E.res = "injected" /\ sy[E.r].pc # "idle"
        /\ SyncAbort(E.r) /\ Post(E.r)

Count(ops, P(_)) == Cardinality({i \in DOMAIN ops : P(ops[i])})
IsUndoPoint(o) == o.k = "P"
IsChange(o) == o.k # "P"
TObserve ==
  /\ IsEvent("Observe") /\ PostNow(E.r) /\ UNCHANGED vars
  /\ E.nlocal = Count(db[E.r].ops, IsChange)       \* num_local_operations
  /\ E.nundo = Count(db[E.r].ops, IsUndoPoint)     \* num_undo_points
  /\ DepMapAsStored(db[E.r], E)                    \* dependency map and BLOCKED/BLOCKING (C19)
  \* get_task_operations(u): the task's synchronised and unsynchronised operations, in order
  /\ \A i \in DOMAIN E.taskops :
       /\ JOpsOK(E.taskops[i][2])
       /\ JOps(E.taskops[i][2]) = SelectSeq(hist[E.r] \o db[E.r].ops, LAMBDA o : o.u = E.taskops[i][1])

(* commit_operations returned an error (injected storage failure): nothing changed *)
TEditFail == IsEvent("Edit") /\ E.res = "error" /\ PostNow(E.r) /\ UNCHANGED vars

(* the working set as left behind by an earlier program using the storage API directly *)
TInstallWS ==
  /\ IsEvent("InstallWS") /\ sy[E.r].pc = "idle"
  /\ db' = [db EXCEPT ![E.r].ws = E.ws]
  /\ Post(E.r)
  /\ UNCHANGED <<chain, snap, sy, err>>

TGetUndo ==
  /\ IsEvent("GetUndo") /\ JOpsOK(E.ops)
  /\ JOps(E.ops) = UndoOps(db[E.r])
  /\ UNCHANGED vars

TUndo ==
  /\ IsEvent("Undo") /\ JOpsOK(E.undo)
  /\ E.res = UndoResult(db[E.r], JOps(E.undo))
  /\ CommitReversed(E.r, JOps(E.undo))
  /\ Post(E.r)

(* an injected storage failure inside the undo transaction: nothing changed *)
(* ... or, if the failure hit the working-set rebuild that follows a successful undo (a second *)
(* transaction), the undo itself is committed although the call reports the error             *)
TUndoFail ==
  /\ IsEvent("Undo") /\ E.res = "injected" /\ JOpsOK(E.undo)
  /\ \/ PostNow(E.r) /\ UNCHANGED vars
     \/ /\ UndoResult(db[E.r], JOps(E.undo)) = "true"
        /\ CommitReversed(E.r, JOps(E.undo))
        /\ Post(E.r)

(* expire_tasks: the operations appended are exactly the deletions the         *)
(* specification prescribes                                                   *)
TExpire ==
  /\ IsEvent("Expire") /\ E.res = "ok" /\ JOpsOK(E.post.ops)
  /\ LET new == JOps(E.post.ops)
         n == Len(db[E.r].ops)
     IN /\ Len(new) >= n
        /\ Expire(E.r, SubSeq(new, n + 1, Len(new)))
  /\ Post(E.r)

TTrim == IsEvent("Trim") /\ ServerTrim(E.n)

TRebuildLocal == IsEvent("Rebuild") /\ Rebuild(E.r, E.renumber) /\ Post(E.r)

TNextNoHist ==
  \/ TEdit \/ TStart \/ TGetSnapshot \/ TPull \/ TPush \/ TPushLost
  \/ TSnapshot \/ TSnapshotLost \/ TFault \/ TRebuild \/ TDone \/ TObserve
  \/ TEditFail \/ TInstallWS \/ TGetUndo \/ TUndo \/ TUndoFail \/ TRebuildLocal \/ TExpire \/ TTrim
TNext == TReset \/ TCommit \/ (TNextNoHist /\ UNCHANGED hist)

TInit == Init /\ l = 1 /\ hist = [r \in Replicas |-> <<>>]
TSpec == TInit /\ [][TNext]_tvars

(* accepted iff every line was consumed *)
Accepted ==
  LET d == TLCGet("stats").diameter IN
  IF d - 1 = Len(Rec) THEN TRUE
  ELSE Print(<<"TRACE-REJECTED-AT", d, ToJson(Rec[d])>>, FALSE)

(* diagnostic configuration: the state at which the trace cannot continue   *)
(* is reported as an invariant violation, so TLC prints it                  *)
NotStuck == l <= Len(Rec) => ENABLED TNext
=============================================================================
