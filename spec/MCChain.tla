------------------------------- MODULE MCChain -------------------------------
(***************************************************************************)
(* Generator / model checker for ChainServer: all sequences of server      *)
(* calls from one or several handles, with the parent chosen relative to   *)
(* the current chain (latest, the one before, nil, unknown) and payload     *)
(* classes.  Emits the sequences for replay on every backend.              *)
(***************************************************************************)
EXTENDS ChainServer, Json

CONSTANTS Handles, Bodies, ParentChoices, Calls, MaxLen, Emit, DevFork

VARIABLE h
mvars == <<cvars, h>>

Resolve(pc) ==
  CASE pc = "latest"  -> Latest
    [] pc = "prev"    -> IF chain = <<>> THEN 0 ELSE chain[Len(chain)].parent
    [] pc = "nil"     -> 0
    [] pc = "unknown" -> -7

Ev(a, hd, pc, b) == [a |-> a, h |-> hd, p |-> pc, body |-> b]

AV(hd) == \E pc \in ParentChoices, b \in Bodies :
  /\ "AV" \in Calls
  /\ LET p == Resolve(pc) IN
     \* DevFork (anti-vacuity): a server that also accepts the parent of the latest version
     IF Accepts(p) \/ (DevFork /\ pc = "prev" /\ chain # <<>>)
     THEN /\ chain' = Append(chain, [parent |-> p, id |-> Len(chain) + 1, body |-> b])
          /\ UNCHANGED <<snaps, ghost>>
     ELSE UNCHANGED cvars
  /\ h' = Append(h, Ev("AV", hd, pc, b))

GC(hd) == \E pc \in ParentChoices :
  /\ "GC" \in Calls /\ UNCHANGED cvars /\ h' = Append(h, Ev("GC", hd, pc, "-"))

AS(hd) == \E pc \in {"latest", "prev"}, b \in Bodies :
  /\ "AS" \in Calls /\ Resolve(pc) >= 1
  /\ AddSnapshot(Resolve(pc), b)
  /\ h' = Append(h, Ev("AS", hd, pc, b))

GS(hd) == "GS" \in Calls /\ UNCHANGED cvars /\ h' = Append(h, Ev("GS", hd, "-", "-"))

Reopen(hd) == "Reopen" \in Calls /\ UNCHANGED cvars /\ h' = Append(h, Ev("Reopen", hd, "-", "-"))
              /\ (h = <<>> \/ h[Len(h)].a # "Reopen")

MInit == CInit /\ h = <<>>
MNext == Len(h) < MaxLen /\ \E hd \in Handles : AV(hd) \/ GC(hd) \/ AS(hd) \/ GS(hd) \/ Reopen(hd)

MEmit == (Emit /\ Len(h) = MaxLen) => PrintT(<<"REPLAY", ToJson(h)>>)
=============================================================================
