------------------------------- MODULE MCChain -------------------------------
(***************************************************************************)
(* Generator / model checker for ChainServer: all sequences of server      *)
(* calls from one or several handles, with the parent chosen relative to   *)
(* the current chain (latest, the one before, nil, unknown) and payload     *)
(* classes.  Emits the sequences for replay on every backend.              *)
(***************************************************************************)
EXTENDS ChainServer, Json

CONSTANTS Handles, Bodies, ParentChoices, Calls, MaxLen, Emit, DevFork,
          SingleSnap,   \* TRUE: the backend holds one snapshot, the last one stored (git)
          TrimRule,     \* what the backend discards after storing a snapshot for version v:
                        \*   "none"; "covered": old versions at or before v (git cleanup);
                        \*   "allold": every old version (deviation, anti-vacuity)
          OlderSnaps    \* FALSE: the generator does not store a snapshot for a version older
                        \* than that of a snapshot already held once something was discarded

VARIABLES h,
          oldEpoch,     \* versions accepted now count as older than the retention age
          olds          \* ids of such versions
mvars == <<cvars, h, oldEpoch, olds>>

Resolve(pc) ==
  CASE pc = "latest"  -> Latest
    [] pc = "prev"    -> IF chain = <<>> THEN 0 ELSE chain[Len(chain)].parent
    [] pc = "first"   -> IF chain = <<>> THEN 0 ELSE chain[1].id
    [] pc = "nil"     -> 0
    [] pc = "unknown" -> -7

Ev(a, hd, pc, b) == [a |-> a, h |-> hd, p |-> pc, body |-> b]

AV(hd) == \E pc \in ParentChoices, b \in Bodies :
  /\ "AV" \in Calls
  /\ LET p == Resolve(pc) IN
     \* DevFork (anti-vacuity): a server that also accepts the parent of the latest version
     IF Accepts(p) \/ (DevFork /\ pc = "prev" /\ chain # <<>>)
     THEN /\ chain' = Append(chain, [parent |-> p, id |-> Len(chain) + 1, body |-> b])
          /\ olds' = IF oldEpoch THEN olds \cup {Len(chain) + 1} ELSE olds
          /\ UNCHANGED <<snaps, ghost, gone>>
     ELSE UNCHANGED <<cvars, olds>>
  /\ h' = Append(h, Ev("AV", hd, pc, b))
  /\ UNCHANGED oldEpoch

GC(hd) == \E pc \in ParentChoices :
  /\ "GC" \in Calls /\ UNCHANGED <<cvars, oldEpoch, olds>> /\ h' = Append(h, Ev("GC", hd, pc, "-"))

Trimmed(v) ==
  CASE TrimRule = "none"    -> {}
    [] TrimRule = "covered" -> {id \in olds : Pos(id) <= Pos(v)}
    [] TrimRule = "allold"  -> olds

AS(hd) == \E pc \in {"latest", "prev"} \cup (ParentChoices \cap {"first"}), b \in Bodies :
  /\ "AS" \in Calls /\ Resolve(pc) >= 1
  /\ OlderSnaps \/ gone = {} \/ \A s \in snaps : Pos(Resolve(pc)) >= Pos(s.ver)
  /\ snaps' = (IF SingleSnap THEN {} ELSE {s \in snaps : s.ver # Resolve(pc)})
                 \cup {[ver |-> Resolve(pc), body |-> b]}
  /\ gone' = gone \cup Trimmed(Resolve(pc))
  /\ UNCHANGED <<chain, ghost, oldEpoch, olds>>
  /\ h' = Append(h, Ev("AS", hd, pc, b))

GS(hd) == "GS" \in Calls /\ UNCHANGED <<cvars, oldEpoch, olds>> /\ h' = Append(h, Ev("GS", hd, "-", "-"))

Reopen(hd) == "Reopen" \in Calls /\ UNCHANGED <<cvars, oldEpoch, olds>> /\ h' = Append(h, Ev("Reopen", hd, "-", "-"))
              /\ (h = <<>> \/ h[Len(h)].a # "Reopen")

(* from now on versions are recent (younger than the retention age) *)
Epoch(hd) == /\ "Epoch" \in Calls /\ oldEpoch /\ chain # <<>>
             /\ oldEpoch' = FALSE
             /\ UNCHANGED <<cvars, olds>> /\ h' = Append(h, Ev("Epoch", hd, "new", "-"))

MInit == CInit /\ h = <<>> /\ oldEpoch = ("Epoch" \in Calls) /\ olds = {}
MNext == Len(h) < MaxLen /\ \E hd \in Handles : AV(hd) \/ GC(hd) \/ AS(hd) \/ GS(hd) \/ Reopen(hd) \/ Epoch(hd)

(* every discarded version is covered by a snapshot the server still holds *)
MReconstructible == Reconstructible

MEmit == (Emit /\ Len(h) = MaxLen) => PrintT(<<"REPLAY", ToJson(h)>>)
=============================================================================
