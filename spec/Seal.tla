-------------------------------- MODULE Seal --------------------------------
(***************************************************************************)
(* C13: data leaving the host is sealed, version-bound and tamper-evident. *)
(*                                                                         *)
(* A SYMBOLIC model of docs/src/encryption.md and of the way the three     *)
(* remote backends (HTTP client, object store, git) and the raw hook       *)
(* seal/unseal use it.  TLC cannot compute PBKDF2 or ChaCha20-Poly1305; a   *)
(* sealed value is the term                                                 *)
(*   [fmt, nonce, key = <<secret, salt>>, aad = <<app, vid>>, pt, intact,   *)
(*    clear]                                                                *)
(* fmt    : the envelope's format byte ("1" documented)                     *)
(* nonce  : index of the 12-byte nonce in the order of first appearance    *)
(* key    : the (secret, salt) pair the key was derived from               *)
(* aad    : application id and the version id authenticated with the data  *)
(* pt     : the plaintext token                                             *)
(* intact : "ok" | "flip" (some byte changed) | "cut" (truncated / empty)  *)
(* clear  : "no" | "yes" (the plaintext can be read off the stored bytes)  *)
(*                                                                         *)
(* What is stored is a map from LABELS to terms.  A label is what the      *)
(* (untrusted) storage says the bytes are: <<kind, parent, vid>> with kind *)
(* "v" (a version, object/file name v-PARENT-VID or the HTTP headers       *)
(* X-Parent-Version-Id / X-Version-Id), "s" (a snapshot of version VID) or *)
(* "r" (a raw hook call for version id VID).  The binding rule says which  *)
(* component of the label is authenticated (DocBind).  Clients seal and    *)
(* read; an adversary owning the storage tampers, truncates, re-labels,    *)
(* replaces the format byte, and plants values sealed under other keys.    *)
(***************************************************************************)
EXTENDS Naturals, Sequences, FiniteSets, TLC

CONSTANTS Secrets,    \* e.g. {"k1", "k2"}
          Salts,      \* e.g. {"s1", "s2"}
          Vids,       \* version ids "v0" (the nil id), "v1", ...
          Payloads,   \* plaintext tokens
          Dev         \* set of named deviations (anti-vacuity), {} = documented behaviour

App   == "task"       \* application id byte 1
Err   == "error"
None  == "~"
Keys  == Secrets \X Salts
NoKey == <<None, None>>
NoLab == <<None, None, None>>

Vid(i) == "v" \o ToString(i)

VLabels == {<<"v", x[1], x[2]>> : x \in {y \in Vids \X Vids : y[1] # y[2]}}
SLabels == {<<"s", None, v>> : v \in Vids}
RLabels == {<<"r", None, v>> : v \in Vids}
Labels  == VLabels \cup SLabels \cup RLabels
LabelsOf(b) == IF b = "raw" THEN RLabels ELSE VLabels \cup SLabels

Term(fmt, nonce, key, vid, pt, intact, clear) ==
  [fmt |-> fmt, nonce |-> nonce, key |-> key, aad |-> <<App, vid>>, pt |-> pt,
   intact |-> intact, clear |-> clear]
NoTerm == [fmt |-> None, nonce |-> 0, key |-> NoKey, aad |-> <<None, None>>, pt |-> None,
           intact |-> None, clear |-> None]

(* The documented binding: the HTTP protocol authenticates a version with   *)
(* its PARENT version id (docs/src/encryption.md), everything else (HTTP    *)
(* snapshots; versions and snapshots of the object store and of git; a raw  *)
(* hook call) with the version id itself.                                   *)
DocBind(b, lab) == IF b = "http" /\ lab[1] = "v" THEN lab[2] ELSE lab[3]

(* the binding the (possibly deviating) implementation uses *)
Bind(b, lab) ==
  IF "HttpOwnId" \in Dev THEN lab[3]
  ELSE IF "CloudParentId" \in Dev /\ b = "cloud" /\ lab[1] = "v" THEN lab[2]
  ELSE DocBind(b, lab)

SealTerm(b, lab, key, pt, n) ==
  Term("1", IF "NonceReuse" \in Dev THEN 1 ELSE n, key, Bind(b, lab), pt, "ok",
       IF "ClearText" \in Dev THEN "yes" ELSE "no")

(* what an adversary can do to the bytes of a sealed value *)
Mutations == {"flip", "cut", "fmt"}
Mut(m, t) ==
  CASE m = "flip" -> [t EXCEPT !.intact = "flip"]
    [] m = "cut"  -> [t EXCEPT !.intact = "cut"]
    [] m = "fmt"  -> [t EXCEPT !.fmt = "2"]

Opens(t, key, vid) ==
  /\ t # NoTerm
  /\ t.fmt = "1" \/ "OpenIgnoresFmt" \in Dev
  /\ t.intact = "ok" \/ ("OpenIgnoresTag" \in Dev /\ t.intact = "flip")
  /\ t.key = key
  /\ t.aad = <<App, vid>> \/ ("OpenIgnoresVid" \in Dev /\ t.aad[1] = App)
Open(t, key, vid) == IF Opens(t, key, vid) THEN t.pt ELSE Err

VARIABLES backend,    \* "http" | "cloud" | "git" | "raw"
          store,      \* Labels -> term | NoTerm
          nver,       \* number of versions added through the Server interface
          nextNonce,  \* index the next never-seen nonce gets
          sealLog,    \* set of [b, lab, term]: everything sealed by a client
          nseals,     \* number of seal operations (in this behaviour)
          returned,   \* set of [b, key, lab, term, pt]: reads that returned data
          last,       \* outcome of the last read
          phase       \* "write" | "attack"
vars == <<backend, store, nver, nextNonce, sealLog, nseals, returned, last, phase>>

NoLast == [key |-> NoKey, lab |-> NoLab, res |-> None, pt |-> None]
EmptyStore == [l \in Labels |-> NoTerm]

Init ==
  /\ backend \in {"http", "cloud", "git", "raw"}
  /\ store = EmptyStore /\ nver = 0 /\ nextNonce = 1 /\ sealLog = {} /\ nseals = 0
  /\ returned = {} /\ last = NoLast /\ phase = "write"

(* Storing under a label shadows every other value the storage holds for the *)
(* same kind and parent (one child per parent, one snapshot); raw values do  *)
(* not interfere with each other.                                            *)
PutAt(lab, t) ==
  store' = [l \in Labels |->
              IF l = lab THEN t
              ELSE IF lab[1] # "r" /\ l[1] = lab[1] /\ l[2] = lab[2] THEN NoTerm
              ELSE store[l]]

Sealed(lab, t) ==
  /\ sealLog' = sealLog \cup {[b |-> backend, lab |-> lab, term |-> t]}
  /\ nseals' = nseals + 1
  /\ nextNonce' = nextNonce + 1

(* ---- clients ---------------------------------------------------------- *)
(* Server::add_version on top of the latest version; the backend invents   *)
(* the new version id                                                      *)
AddVersion(key, pt) ==
  /\ backend # "raw" /\ phase = "write"
  /\ Vid(nver + 1) \in Vids
  /\ LET lab == <<"v", Vid(nver), Vid(nver + 1)>>
         t == SealTerm(backend, lab, key, pt, nextNonce) IN
     PutAt(lab, t) /\ Sealed(lab, t)
  /\ nver' = nver + 1
  /\ UNCHANGED <<backend, returned, last, phase>>

(* Server::add_snapshot for an existing version *)
AddSnapshot(key, lab, pt) ==
  /\ backend # "raw" /\ phase = "write"
  /\ lab \in SLabels /\ \E i \in 1..nver : lab[3] = Vid(i)
  /\ \A l \in SLabels : store[l] = NoTerm
  /\ LET t == SealTerm(backend, lab, key, pt, nextNonce) IN PutAt(lab, t) /\ Sealed(lab, t)
  /\ UNCHANGED <<backend, nver, returned, last, phase>>

(* the hook seal() (or an independent implementation of the documented     *)
(* format) called directly                                                 *)
SealRaw(key, lab, pt) ==
  /\ backend = "raw" /\ phase = "write" /\ lab \in RLabels
  /\ LET t == SealTerm(backend, lab, key, pt, nextNonce) IN PutAt(lab, t) /\ Sealed(lab, t)
  /\ UNCHANGED <<backend, nver, returned, last, phase>>

(* Server::get_child_version / get_snapshot / hook unseal(): the storage    *)
(* offers the value it holds under `lab`                                    *)
Read(key, lab) ==
  /\ lab \in LabelsOf(backend) /\ store[lab] # NoTerm
  /\ LET t == store[lab]
         r == Open(t, key, Bind(backend, lab)) IN
     /\ last' = [key |-> key, lab |-> lab, res |-> IF r = Err THEN "error" ELSE "returned",
                 pt |-> IF r = Err THEN None ELSE r]
     /\ returned' = IF r = Err THEN returned
                    ELSE returned \cup {[b |-> backend, key |-> key, lab |-> lab, term |-> t, pt |-> r]}
  /\ phase' = "attack"
  /\ UNCHANGED <<backend, store, nver, nextNonce, sealLog, nseals>>

(* ---- the adversary owning the storage --------------------------------- *)
Mutate(m, lab) ==
  /\ lab \in LabelsOf(backend) /\ store[lab] # NoTerm /\ m \in Mutations
  /\ store' = [store EXCEPT ![lab] = Mut(m, @)]
  /\ phase' = "attack"
  /\ UNCHANGED <<backend, nver, nextNonce, sealLog, nseals, returned, last>>

(* the bytes stored under `from` are (also) offered under `to` *)
Relabel(from, to) ==
  /\ from \in LabelsOf(backend) /\ to \in LabelsOf(backend) /\ from # to
  /\ store[from] # NoTerm
  /\ PutAt(to, store[from])
  /\ phase' = "attack"
  /\ UNCHANGED <<backend, nver, nextNonce, sealLog, nseals, returned, last>>

(* a value correctly sealed for `lab` by somebody holding `key` (another     *)
(* secret or salt, or another implementation with the same key)            *)
Foreign(lab, key, pt) ==
  /\ lab \in LabelsOf(backend) /\ store[lab] # NoTerm
  /\ LET t == Term("1", nextNonce, key, DocBind(backend, lab), pt, "ok", "no") IN
     PutAt(lab, t) /\ Sealed(lab, t)
  /\ phase' = "attack"
  /\ UNCHANGED <<backend, nver, returned, last>>

(* a whole sweep of mutations of one kind of the value under `lab`, each     *)
(* offered to a reader: every single one must be refused                    *)
SweepRefused(m, key, lab) ==
  /\ lab \in LabelsOf(backend) /\ store[lab] # NoTerm
  /\ Open(Mut(m, store[lab]), key, Bind(backend, lab)) = Err

(* the value under `from` offered under the label `to` to a reader holding  *)
(* `key` (the storage is not changed): "error", or the plaintext returned    *)
RelabelOutcome(from, key, to) == Open(store[from], key, Bind(backend, to))

(* ---- properties -------------------------------------------------------- *)
TermOK(t) ==
  /\ t.fmt \in {"1", "2"} /\ t.nonce \in Nat /\ t.key \in Keys
  /\ t.aad[1] = App /\ t.aad[2] \in Vids /\ t.pt \in Payloads
  /\ t.intact \in {"ok", "flip", "cut"} /\ t.clear \in {"no", "yes"}
TypeOK ==
  /\ backend \in {"http", "cloud", "git", "raw"}
  /\ \A l \in Labels : store[l] = NoTerm \/ TermOK(store[l])
  /\ nver \in Nat /\ nextNonce \in Nat /\ nseals \in Nat
  /\ phase \in {"write", "attack"}
  /\ last.res \in {None, "error", "returned"}

SealedTerms == {s.term : s \in sealLog}

(* Nothing is RETURNED by a read unless it was sealed, by a client holding   *)
(* the same secret and salt, for that very version id (documented rule),   *)
(* and it is returned unchanged.                                            *)
ReturnedWasSealed ==
  \A r \in returned :
    /\ r.term \in SealedTerms
    /\ r.term.key = r.key
    /\ r.term.aad = <<App, DocBind(r.b, r.lab)>>
    /\ r.pt = r.term.pt

(* whatever a client seals has the documented form and binding *)
DocumentedForm ==
  \A s \in sealLog :
    /\ s.term.fmt = "1" /\ s.term.intact = "ok"
    /\ s.term.aad = <<App, DocBind(s.b, s.lab)>>

(* a nonce is never used twice *)
NoncesUnique == Cardinality({t.nonce : t \in SealedTerms}) = nseals

(* no stored value exposes its plaintext *)
NoPlaintextStored == \A l \in Labels : store[l] # NoTerm => store[l].clear = "no"

=============================================================================
