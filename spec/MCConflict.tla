----------------------------- MODULE MCConflict -----------------------------
(***************************************************************************)
(* C03: no lost updates, documented conflict winners, independent of the   *)
(* order in which replicas synchronise.                                    *)
(*                                                                         *)
(* Round 1: from a common synchronised state every replica has committed   *)
(* one operation family concurrently; then the replicas sync in any order  *)
(* (every order and, with Racing, every interleaving is explored) until    *)
(* quiescent.  Round 2 (optional): one replica, having seen everything,    *)
(* commits one more change with an arbitrary (also earlier) timestamp, and *)
(* everybody syncs again.                                                  *)
(*                                                                         *)
(* The oracle is written from docs/src/sync-model.md and tasks.md only --  *)
(* it does not mention Xform or the sync order.                            *)
(***************************************************************************)
EXTENDS MCSync

CONSTANTS BaseExists,    \* TRUE: the task exists (empty) in the common base
          WithRound2,    \* TRUE: a causally later change follows
          OracleLatest,  \* TRUE: the documented rule; FALSE: "earliest wins" (anti-vacuity)
          SharedVal      \* TRUE: besides its own value every replica may also write the value
                         \* "s", so that concurrent updates to the SAME value occur (EQ1)

u0 == CHOOSE u \in Tasks : TRUE
others == Tasks \ {u0}

(* operation families a replica may have performed concurrently: own value, *)
(* any property, any timestamp                                             *)
Fam(r) ==
  LET vs  == IF SharedVal THEN {ValOf[r], "s"} ELSE {ValOf[r]}
      upd == {U(u0, p, w, t, NoVal) : p \in Props, t \in Times, w \in vs}
      oth == {U(u, p, ValOf[r], t, NoVal) : u \in others, p \in Props, t \in Times}
  IN IF BaseExists
     THEN {<<>>} \cup {<<x>> : x \in upd} \cup {<<D(u0, EmptyMap)>>}
          \cup {<<x, D(u0, EmptyMap)>> : x \in upd}
          \cup UNION { {<<x, y>> : y \in {z \in upd : z.p # x.p}} : x \in upd }
          \cup {<<x>> : x \in oth}
          \* the same value asserted again later (the second update's old value equals its value)
          \cup UNION { {<<x, y>> : y \in {z \in upd : z.p = x.p /\ z.t > x.t}} : x \in upd }
     ELSE {<<>>} \cup {<<C(u0)>>} \cup {<<C(u0), x>> : x \in upd}
          \cup {<<C(u0), x, D(u0, EmptyMap)>> : x \in upd}

VARIABLES fam, fam2, phase
cvars == <<mcvars, fam, fam2, phase>>
CView == <<vars, fam, fam2, phase>>

Base0 == [u \in Tasks |-> IF BaseExists \/ u # u0 THEN EmptyTask ELSE Absent]
BaseChain == IF BaseExists THEN <<CreateAll(Tasks)>>
             ELSE IF others = {} THEN <<>> ELSE <<CreateAll(others)>>
BaseVer == Len(BaseChain)

CInit ==
  /\ chain = BaseChain
  /\ snap = NoSnap
  /\ fam \in [Replicas -> UNION {Fam(r) : r \in Replicas}]
  /\ \A r \in Replicas : fam[r] \in Fam(r)
  /\ fam2 = NoOp /\ phase = 1
  /\ db = [r \in Replicas |->
            [tasks |-> ApplyAll(Base0, fam[r]), ops |-> WithOld(Base0, fam[r]),
             base |-> BaseVer, ws |-> <<>>]]
  /\ h = <<[a |-> "Prior", r |-> "-", urg |-> "-", create |-> BaseExists,
            ops |-> [r \in Replicas |-> WithOld(Base0, fam[r])]]>>
  /\ sy = [r \in Replicas |-> Idle]
  /\ err = [r \in Replicas |-> FALSE]
  /\ edits = MaxEdits /\ syncs = 0

(* the causally later change: any update (any timestamp) or a delete, by a  *)
(* replica that has seen every round-1 change                              *)
Round2 ==
  /\ WithRound2 /\ phase = 1 /\ Quiescent
  /\ \E r \in Replicas :
       \E o \in {U(u0, p, "z", t, db[r].tasks[u0].m[p]) : p \in Props, t \in Times}
                \cup {D(u0, db[r].tasks[u0].m)} :
         /\ db[r].tasks[u0].ex
         /\ Edit(r, <<o>>)
         /\ fam2' = o
         /\ h' = Append(h, [Ev("Edit", r) EXCEPT !.ops = <<o>>])
  /\ phase' = 2
  /\ UNCHANGED <<fam, edits, syncs>>

CNext == (MCNext /\ UNCHANGED <<fam, fam2, phase>>) \/ Round2

-----------------------------------------------------------------------------
AllOps == UNION { {fam[r][i] : i \in DOMAIN fam[r]} : r \in Replicas }
Deleted == \E o \in AllOps : o.k = "D"
Created == BaseExists \/ \E o \in AllOps : o.k = "C"
UpdatesOf(u, p) == {o \in AllOps : o.k = "U" /\ o.u = u /\ o.p = p}
Wins(x, y) == IF OracleLatest THEN y.t <= x.t ELSE x.t <= y.t
(* admitted final values of a property: unset if nobody wrote it, else a   *)
(* value carrying the latest timestamp (equal timestamps: either one)      *)
Admitted(u, p) == IF UpdatesOf(u, p) = {} THEN {NoVal}
                  ELSE {o.v : o \in {x \in UpdatesOf(u, p) : \A y \in UpdatesOf(u, p) : Wins(x, y)}}

Round1OK(ts) ==
  /\ IF Deleted \/ ~Created THEN ~ts[u0].ex
     ELSE ts[u0].ex /\ \A p \in Props : ts[u0].m[p] \in Admitted(u0, p)
  /\ \A u \in others : ts[u].ex /\ \A p \in Props : ts[u].m[p] \in Admitted(u, p)

Round2OK(ts) ==
  IF fam2.k = "D" THEN ~ts[u0].ex
  ELSE /\ ts[u0].ex
       /\ ts[u0].m[fam2.p] = fam2.v                        \* overrides, whatever its timestamp
       /\ \A p \in Props \ {fam2.p} : ts[u0].m[p] \in Admitted(u0, p)

OracleInv ==
  Quiescent => \A r \in Replicas :
     IF phase = 1 THEN Round1OK(db[r].tasks) ELSE Round2OK(db[r].tasks)

CDone == Quiescent /\ (phase = 2 \/ ~WithRound2 \/ ~db[CHOOSE r \in Replicas : TRUE].tasks[u0].ex)
CEmit == (Emit /\ CDone) => PrintT(<<"REPLAY", ToJson(h)>>)
=============================================================================
