----------------------------- MODULE TCReplica -----------------------------
(***************************************************************************)
(* One replica's committed state and the storage transactions that change  *)
(* it locally: commit_operations, get_undo_operations /                    *)
(* commit_reversed_operations, rebuild_working_set, expire_tasks.          *)
(* Each action is one storage transaction of src/taskdb/mod.rs (the        *)
(* linearization point is the commit).  Sync is added by TCSync.           *)
(***************************************************************************)
EXTENDS TCTypes

CONSTANTS Replicas,
          Dev      \* named deviations of the pinned tree that are switched on
                   \* (subset of {"D1","D2","D3","D4","WS1","WS2"}); {} = the
                   \* documented behaviour, which a repaired tree must follow

VARIABLE db        \* [Replicas -> [tasks, ops, base, ws]]
                   \*   tasks : task set; ops : unsynchronised local operations
                   \*   base  : number of server versions incorporated
                   \*   ws    : working set, positions 1..Len (position 0 of the
                   \*           code is always empty and not represented)

EmptyReplica == [tasks |-> EmptyDb, ops |-> <<>>, base |-> 0, ws |-> <<>>]

PR(v) == v \in {"pending", "recurring"}
InWS(t) == "status" \in Props /\ t.ex /\ PR(t.m["status"])

RECURSIVE Trim(_)
Trim(s) == IF s # <<>> /\ s[Len(s)] = NoVal THEN Trim(SubSeq(s, 1, Len(s) - 1)) ELSE s

-----------------------------------------------------------------------------
(* commit_operations: apply, append to the working set the tasks whose     *)
(* status is updated from not-pending/recurring to pending/recurring (by   *)
(* the operation's own old value, as Replica::commit_operations does),     *)
(* record the operations; one transaction.  An empty batch does nothing.   *)
RECURSIVE WsAdd(_,_)
WsAdd(ws, batch) ==
  IF batch = <<>> THEN ws
  ELSE LET op == Head(batch)
           add == /\ op.k = "U" /\ op.p = "status"
                  /\ ~PR(op.o[op.p]) /\ PR(op.v)
                  /\ op.u \notin Range(ws)
       IN WsAdd(IF add THEN Append(ws, op.u) ELSE ws, Tail(batch))

Committed(d, batch) ==
  [d EXCEPT !.tasks = ApplyAll(d.tasks, batch),
            !.ops   = d.ops \o batch,
            !.ws    = WsAdd(d.ws, batch)]

RCommit(r, batch) ==
  db' = [db EXCEPT ![r] = IF batch = <<>> THEN @ ELSE Committed(@, batch)]

-----------------------------------------------------------------------------
(* Undo.                                                                    *)
RECURSIVE LastUndoPoint(_,_)
LastUndoPoint(ops, i) == IF i = 0 THEN 0 ELSE IF ops[i].k = "P" THEN i ELSE LastUndoPoint(ops, i - 1)

UndoOps(d) ==
  LET i == LastUndoPoint(d.ops, Len(d.ops))
  IN IF i = 0 THEN d.ops ELSE SubSeq(d.ops, i, Len(d.ops))

IsSuffix(s, t) == Len(s) <= Len(t) /\ SubSeq(t, Len(t) - Len(s) + 1, Len(t)) = s

(* apply_op is strict: the reversal of an operation that was itself        *)
(* invalid fails, and then the whole undo transaction is abandoned.        *)
SetProps(t, old) == [ex |-> TRUE, m |-> old]
ReverseOne(ts, op) ==
  IF op.k = "C" THEN
      IF ts[op.u].ex THEN [ok |-> TRUE, t |-> [ts EXCEPT ![op.u] = Absent]]
      ELSE [ok |-> FALSE, t |-> ts]
  ELSE IF op.k = "D" THEN
      IF ~ts[op.u].ex THEN [ok |-> TRUE, t |-> [ts EXCEPT ![op.u] = SetProps(@, op.o)]]
      ELSE [ok |-> FALSE, t |-> ts]
  ELSE IF op.k = "U" THEN
      IF ts[op.u].ex THEN [ok |-> TRUE, t |-> [ts EXCEPT ![op.u].m[op.p] = op.o[op.p]]]
      ELSE [ok |-> FALSE, t |-> ts]
  ELSE [ok |-> TRUE, t |-> ts]

RECURSIVE ReverseAll(_,_)   \* last operation first ("UNDO1": first operation first)
ReverseAll(ts, ops) ==
  IF ops = <<>> THEN [ok |-> TRUE, t |-> ts]
  ELSE IF "UNDO1" \in Dev
       THEN LET r == ReverseOne(ts, ops[1])
            IN IF r.ok THEN ReverseAll(r.t, Tail(ops)) ELSE r
       ELSE LET r == ReverseOne(ts, ops[Len(ops)])
            IN IF r.ok THEN ReverseAll(r.t, SubSeq(ops, 1, Len(ops) - 1)) ELSE r

(* result: "true" | "false" | "error".  The boolean is `applied`: whether   *)
(* any reversed operation was applied (false for a list of undo points).   *)
UndoResult(d, undo) ==
  IF undo = <<>> \/ ~IsSuffix(undo, d.ops) THEN "false"
  ELSE IF ~ReverseAll(d.tasks, undo).ok THEN "error"
  ELSE IF \A i \in DOMAIN undo : undo[i].k = "P" THEN "false" ELSE "true"

Undone(d, undo) ==
  IF undo = <<>> \/ ~IsSuffix(undo, d.ops) \/ ~ReverseAll(d.tasks, undo).ok THEN d
  ELSE [d EXCEPT !.tasks = ReverseAll(d.tasks, undo).t,
                 !.ops   = SubSeq(d.ops, 1, Len(d.ops) - Len(undo))]

RCommitReversed(r, undo) == db' = [db EXCEPT ![r] = Undone(@, undo)]

-----------------------------------------------------------------------------
(* expire_tasks: deletes exactly the tasks whose status is deleted and whose  *)
(* modification time is readable and more than 180 days in the past.  The     *)
(* "modified" values are classes: "mold" and "medge_old" are older than the   *)
(* threshold; recent, future, missing, empty, non-numeric and out-of-range    *)
(* values are not.  "EXP1" (anti-vacuity): completed tasks expire too.        *)
OldMod == {"mold", "medge_old"}
Expirable(t) ==
  /\ t.ex /\ "status" \in Props /\ "modified" \in Props
  /\ (t.m["status"] = "deleted" \/ ("EXP1" \in Dev /\ t.m["status"] = "completed"))
  /\ t.m["modified"] \in OldMod
ExpireSet(ts) == {u \in Tasks : Expirable(ts[u])}
(* the committed batch: one Delete per expirable task (any order), carrying the *)
(* task's content as old value                                                *)
IsExpireBatch(ts, batch) ==
  /\ Len(batch) = Cardinality(ExpireSet(ts))
  /\ {batch[i].u : i \in DOMAIN batch} = ExpireSet(ts)
  /\ \A i \in DOMAIN batch : batch[i] = D(batch[i].u, ts[batch[i].u].m)

-----------------------------------------------------------------------------
(* rebuild_working_set(renumber).  `order` is the order in which the        *)
(* storage happens to return the tasks that are not yet in the working set  *)
(* (all_tasks has undefined order).                                        *)
RECURSIVE Kept(_,_,_)
Kept(ws, ts, renumber) ==
  IF ws = <<>> THEN <<>>
  ELSE LET e == Head(ws)
           rest == Kept(Tail(ws), ts, renumber)
       IN IF e # NoVal /\ InWS(ts[e]) THEN <<e>> \o rest
          ELSE IF e # NoVal /\ ~ts[e].ex THEN
               \* the task no longer exists (deleted outright / removed by sync)
               (IF renumber \/ "WS1" \in Dev THEN rest ELSE <<NoVal>> \o rest)
          ELSE IF e # NoVal THEN
               \* exists but no longer pending
               (IF renumber THEN rest ELSE <<NoVal>> \o rest)
          ELSE \* already a gap
               (IF renumber /\ "WS2" \notin Dev THEN rest ELSE <<NoVal>> \o rest)

Newcomers(d) == {u \in Tasks : InWS(d.tasks[u]) /\ u \notin Range(d.ws)}
Orders(S) == {f \in [1..Cardinality(S) -> S] : \A i, j \in DOMAIN f : i # j => f[i] # f[j]}

(* the write-back through set_working_set_item / add_to_working_set, both   *)
(* storages trimming trailing empty positions                               *)
WriteBack(old, new) ==
  IF Len(new) <= Len(old) THEN Trim(new)
  ELSE Trim(SubSeq(new, 1, Len(old))) \o SubSeq(new, Len(old) + 1, Len(new))

Rebuilt(d, renumber, order) ==
  [d EXCEPT !.ws = WriteBack(d.ws, Kept(d.ws, d.tasks, renumber) \o order)]

RRebuild(r, renumber) ==
  \E order \in Orders(Newcomers(db[r])) :
     db' = [db EXCEPT ![r] = Rebuilt(@, renumber, order)]

-----------------------------------------------------------------------------
(* The clauses of the working-set property, as predicates over a rebuild    *)
(* step from d to e.                                                       *)
PosOf(ws, u) == CHOOSE i \in DOMAIN ws : ws[i] = u
WSExactlyPending(e) ==
  /\ \A u \in Tasks : InWS(e.tasks[u]) <=> u \in Range(e.ws)
  /\ \A i, j \in DOMAIN e.ws : (i # j /\ e.ws[i] # NoVal) => e.ws[i] # e.ws[j]
\* (IF, not \/: inside an action TLC evaluates both disjuncts)
WSNoTrailingGap(e) == IF Len(e.ws) = 0 THEN TRUE ELSE e.ws[Len(e.ws)] # NoVal
WSStable(d, e) ==      \* without renumbering
  LET stay == {u \in Range(d.ws) \ {NoVal} : u \in Range(e.ws)}
      maxStay == IF stay = {} THEN 0
                 ELSE CHOOSE m \in {PosOf(e.ws, u) : u \in stay} :
                        \A u \in stay : PosOf(e.ws, u) <= m
  IN /\ \A u \in stay : PosOf(d.ws, u) = PosOf(e.ws, u)
     /\ \A u \in Range(e.ws) \ (stay \cup {NoVal}) : PosOf(e.ws, u) > maxStay
WSCompact(d, e) ==     \* with renumbering
  LET stay == {u \in Range(d.ws) \ {NoVal} : u \in Range(e.ws)}
  IN /\ \A i \in DOMAIN e.ws : e.ws[i] # NoVal
     /\ \A u, v \in stay : (PosOf(d.ws, u) < PosOf(d.ws, v)) <=> (PosOf(e.ws, u) < PosOf(e.ws, v))
     /\ \A u \in stay : \A v \in Range(e.ws) \ stay : PosOf(e.ws, u) < PosOf(e.ws, v)

-----------------------------------------------------------------------------
(* The dependency map (Replica::dependency_map, docs/src/tasks.md): a task in the working  *)
(* set depends on every task named by one of its dep_<uuid> keys whose stored status is    *)
(* "pending".  Task tokens u1..u4 stand for the fixed uuids the harness uses, so the key   *)
(* of a dependency on uN is a constant string.                                             *)
DepKey(u) ==
  CASE u = "u1" -> "dep_7a5c0000-0000-0000-0000-000000000001"
    [] u = "u2" -> "dep_7a5c0000-0000-0000-0000-000000000002"
    [] u = "u3" -> "dep_7a5c0000-0000-0000-0000-000000000003"
    [] u = "u4" -> "dep_7a5c0000-0000-0000-0000-000000000004"
    [] OTHER    -> "dep_-"
IsPendingTask(t) == "status" \in Props /\ t.ex /\ t.m["status"] = "pending"
DepMapOf(d) ==
  {<<u, w>> \in Tasks \X Tasks :
      /\ u \in Range(d.ws) /\ d.tasks[u].ex
      /\ DepKey(w) \in Props /\ d.tasks[u].m[DepKey(w)] # NoVal
      /\ IsPendingTask(d.tasks[w])}
Blocked(d)  == {e[1] : e \in DepMapOf(d)}
Blocking(d) == {e[2] : e \in DepMapOf(d)}
(* what an Observe event reports: pairs, and the tasks get_task shows as BLOCKED / BLOCKING *)
PairSet(a) == {<<a[i][1], a[i][2]>> : i \in DOMAIN a}
DepMapAsStored(d, E) ==
  "dm" \in DOMAIN E =>
     /\ E.dm_ok
     /\ PairSet(E.dm) = DepMapOf(d)
     /\ Range(E.blocked) = Blocked(d)
     /\ Range(E.blocking) = Blocking(d)
=============================================================================
