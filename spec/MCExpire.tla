------------------------------ MODULE MCExpire ------------------------------
(***************************************************************************)
(* C20: expiration purges exactly the long-deleted tasks, everywhere.      *)
(* From a common synchronised state in which every task has some status    *)
(* and some modification-time class, one replica expires while the others  *)
(* concurrently edit; then all sync in every order.                        *)
(***************************************************************************)
EXTENDS MCSync

CONSTANTS StatusVals, ModVals, Concurrent   \* Concurrent: other replicas edit before syncing

VARIABLES expired, phase     \* ghost: tasks purged by the expiration; 1 = before, 2 = after it
evars == <<mcvars, expired, phase>>
EView == <<vars, expired, phase>>

TaskWith(st, md) == [ex |-> TRUE, m |-> [[EmptyMap EXCEPT !["status"] = st] EXCEPT !["modified"] = md]]
RECURSIVE InstallOps(_,_)
InstallOps(f, S) ==
  IF S = {} THEN <<>>
  ELSE LET u == CHOOSE x \in S : TRUE
       IN <<C(u), U(u, "status", f[u][1], 1, NoVal), U(u, "modified", f[u][2], 1, NoVal)>>
          \o InstallOps(f, S \ {u})

EInit ==
  /\ \E f \in [Tasks -> StatusVals \X ModVals] :
       LET ops == InstallOps(f, Tasks)
           ts == [u \in Tasks |-> TaskWith(f[u][1], f[u][2])]
       IN /\ chain = <<ToSync(ops)>>
          /\ db = [r \in Replicas |-> [tasks |-> ts, ops |-> <<>>, base |-> 1, ws |-> <<>>]]
          /\ h = <<[a |-> "Setup", r |-> "-", urg |-> "-", ops |-> ops]>>
  /\ snap = NoSnap /\ sy = [r \in Replicas |-> Idle] /\ err = [r \in Replicas |-> FALSE]
  /\ edits = 0 /\ syncs = 0 /\ expired = {} /\ phase = 1

r0 == CHOOSE r \in Replicas : TRUE

(* the expiration on the first replica; the batch order is free *)
DoExpire ==
  /\ phase = 1 /\ AllIdle
  /\ \E batch \in {b \in SeqsUpTo({D(u, db[r0].tasks[u].m) : u \in Tasks}, Cardinality(Tasks)) :
                     IsExpireBatch(db[r0].tasks, b)} :
       /\ Expire(r0, batch)
       /\ expired' = ExpireSet(db[r0].tasks)
  /\ h' = Append(h, Ev("Expire", r0))
  /\ phase' = 2 /\ UNCHANGED <<edits, syncs>>

(* concurrent edits elsewhere: an update of the task, or re-opening it *)
OtherEdit(r) ==
  /\ Concurrent /\ r # r0 /\ AllIdle /\ edits < MaxEdits /\ db[r].base = 1 /\ db[r].ops = <<>>
  /\ \E u \in Tasks : \E o \in {U(u, "p", "x", 2, db[r].tasks[u].m["p"]),
                                U(u, "status", "pending", 2, db[r].tasks[u].m["status"]),
                                U(u, "modified", "mrecent", 2, db[r].tasks[u].m["modified"])} :
       /\ db[r].tasks[u].ex
       /\ Edit(r, <<o>>)
       /\ h' = Append(h, [Ev("Edit", r) EXCEPT !.ops = <<o>>])
  /\ edits' = edits + 1 /\ UNCHANGED <<syncs, expired, phase>>

ENext == DoExpire
         \/ (\E r \in Replicas : OtherEdit(r))
         \/ (phase = 2 /\ MCNext /\ UNCHANGED <<expired, phase>>)   \* EditKinds = {}: syncs only

(* exactly the long-deleted tasks are purged, and nothing brings them back *)
(* written from the property, independently of TCReplica.Expirable: status deleted and a     *)
(* readable modification time more than 180 days in the past                               *)
ShouldExpire(t) == t.ex /\ t.m["status"] = "deleted" /\ t.m["modified"] \in {"mold", "medge_old"}
ExpireExact ==
  phase = 2 => expired = {u \in Tasks : ShouldExpire(Replay(chain, 1)[u])}
PurgedEverywhere ==
  (phase = 2 /\ Quiescent) => \A r \in Replicas : \A u \in Tasks :
      IF u \in expired THEN ~db[r].tasks[u].ex ELSE db[r].tasks[u].ex
EDone == phase = 2 /\ Quiescent
EEmit == (Emit /\ EDone) => PrintT(<<"REPLAY", ToJson(h)>>)
=============================================================================
