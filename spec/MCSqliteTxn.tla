----------------------------- MODULE MCSqliteTxn -----------------------------
(***************************************************************************)
(* Model-checking harness for SqliteTxn (C06, C17): a few handles, each    *)
(* running a few replica transactions (commits of tagged batches, undo of  *)
(* a previously fetched list, working-set rebuilds) on one directory, with *)
(* drops, process stops at every point (also inside COMMIT) and restarts;  *)
(* and, with one handle and no faults, the generator of the transaction    *)
(* histories that the kill driver replays (history variable hist).         *)
(***************************************************************************)
EXTENDS SqliteTxn, Json

CONSTANTS ActKinds,    \* kinds of transactions the handles run (subset of {"Edit","Undo","Rebuild"})
          MaxTxnH,     \* transactions begun per handle
          MaxKills,    \* total process stops
          Faults,      \* TRUE: Drop / Kill / KillInCommit / Restart enabled
          MaxLen,      \* bound on Len(hist) for the generator
          Emit

VARIABLES nb,          \* [Handles -> transactions begun]
          kills,
          killok,      \* after every stop so far the directory held the complete before- or
                       \* after-state of the transaction that was stopped
          hist         \* per-handle program steps: [a, h, act]
mvars == <<tvars0, nb, kills, killok, hist>>
MView == <<tvars0, nb, kills, killok>>

ASSUME {"status", "tag"} \subseteq Props /\ {"pending", "completed"} \subseteq Vals

(* handle "hN" tags its changes with the value "wN" and creates the tasks   *)
(* "uN1", "uN2", ...; "u0" is shared by all handles                         *)
HNum(h) == CHOOSE n \in 1..9 : h = "h" \o ToString(n)
TagOf(h) == "w" \o ToString(HNum(h))
OwnTask(h, n) == "u" \o ToString(HNum(h)) \o ToString(n)

(* the batches a handle may commit as its n-th transaction, built against   *)
(* the state s it read (old values as the caller saw them)                  *)
Batches(h, n, s) ==
  LET u == OwnTask(h, n)
      new == IF u \in Tasks /\ ~s.tasks[u].ex
             THEN {<<UndoPoint, C(u), U(u, "status", "pending", 1, NoVal), U(u, "tag", TagOf(h), 1, NoVal)>>}
             ELSE {}
      shared == IF "u0" \in Tasks
                THEN IF s.tasks["u0"].ex
                     THEN {<<UndoPoint, U("u0", "tag", TagOf(h), 1, s.tasks["u0"].m["tag"])>>,
                           <<UndoPoint, U("u0", "status", "completed", 1, s.tasks["u0"].m["status"])>>}
                     ELSE {<<UndoPoint, C("u0"), U("u0", "status", "pending", 1, NoVal)>>}
                ELSE {}
  IN new \cup shared

Ev(a, h, act) == [a |-> a, h |-> h, act |-> act]

MFetch(h) ==
  /\ "Undo" \in ActKinds /\ nb[h] < MaxTxnH /\ hs[h].fetched # UndoOps(Disk)
  /\ Fetch(h)
  /\ hist' = Append(hist, Ev("Fetch", h, NoAct)) /\ UNCHANGED <<nb, kills, killok>>

MBegin(h) ==
  /\ nb[h] < MaxTxnH /\ hs[h].st = "idle"
  /\ \E act \in (IF "Edit" \in ActKinds
                   THEN {Act("Edit", b, FALSE) : b \in Batches(h, nb[h] + 1, Disk)} ELSE {})
               \cup (IF "Undo" \in ActKinds /\ hs[h].fetched # <<>>
                     THEN {Act("Undo", hs[h].fetched, FALSE)} ELSE {})
               \cup (IF "Rebuild" \in ActKinds
                     THEN {Act("Rebuild", <<>>, rn) : rn \in BOOLEAN} ELSE {}) :
       /\ BeginImmediate(h, act)
       /\ hist' = Append(hist, Ev("Begin", h, act))
  /\ nb' = [nb EXCEPT ![h] = @ + 1] /\ UNCHANGED <<kills, killok>>

(* the states the open transaction of h may commit *)
Targets(h) ==
  LET s == hs[h].start
      a == hs[h].act
  IN CASE a.kind = "Edit" -> {Committed(s, a.ops)}
       [] a.kind = "Undo" -> IF IsSuffix(a.ops, s.ops) /\ ReverseAll(s.tasks, a.ops).ok
                             THEN {Undone(s, a.ops)} ELSE {}
       [] a.kind = "Rebuild" -> {Rebuilt(s, a.rn, o) : o \in Orders(Newcomers(s))}
       [] OTHER -> {}

MCommit(h) ==
  /\ hs[h].st = "open"
  /\ \E t \in Targets(h) : Commit(h, t)
  /\ hist' = Append(hist, Ev("Commit", h, hs[h].act)) /\ UNCHANGED <<nb, kills, killok>>

(* an undo whose list is no longer the tail of the operations commits      *)
(* nothing: the transaction is dropped                                     *)
MDropStale(h) ==
  /\ hs[h].st = "open" /\ Targets(h) = {}
  /\ Drop(h)
  /\ hist' = Append(hist, Ev("Drop", h, hs[h].act)) /\ UNCHANGED <<nb, kills, killok>>

MRest(h) == CommitRest(h) /\ hist' = Append(hist, Ev("Rest", h, NoAct)) /\ UNCHANGED <<nb, kills, killok>>

MDrop(h) ==
  /\ Faults /\ Drop(h)
  /\ hist' = Append(hist, Ev("Drop", h, hs[h].act)) /\ UNCHANGED <<nb, kills, killok>>

MKill(h) ==
  /\ Faults /\ kills < MaxKills
  /\ \/ Kill(h)
     \/ \E t \in Targets(h) : KillInCommit(h, t)
  /\ killok' = (killok /\ (hs[h].st = "idle" \/ Disk' = hs[h].start \/ Disk' \in Targets(h)))
  /\ hist' = Append(hist, Ev("Kill", h, hs[h].act)) /\ kills' = kills + 1 /\ UNCHANGED nb

MRestart(h) ==
  /\ Faults /\ Restart(h)
  /\ hist' = Append(hist, Ev("Restart", h, NoAct)) /\ UNCHANGED <<nb, kills, killok>>

MInit == TInit0(EmptyReplica) /\ nb = [h \in Handles |-> 0] /\ kills = 0 /\ killok = TRUE
         /\ hist = <<>>
MNext == \E h \in Handles :
  MFetch(h) \/ MBegin(h) \/ MCommit(h) \/ MDropStale(h) \/ MRest(h) \/ MDrop(h) \/ MKill(h)
  \/ MRestart(h)

-----------------------------------------------------------------------------
(* C06: after a stop at any point of a transaction from state s, the        *)
(* directory holds s or the complete result of the transaction              *)
KillAtomic == killok

HBound == Len(hist) <= MaxLen
AllIdle == \A h \in Handles : hs[h].st = "idle"
MEmit == (Emit /\ AllIdle /\ Len(hist) <= MaxLen) => PrintT(<<"REPLAY", ToJson(hist)>>)
=============================================================================
