------------------------------ MODULE ObsCloud ------------------------------
(***************************************************************************)
(* Property-level validation of the traces recorded by the cloud driver    *)
(* (DESIGN.md 4.5).  TraceCloud demands that every recorded object-store   *)
(* request is the one CloudStore issues next; this module takes the        *)
(* recorded object store (names of the version and snapshot objects and    *)
(* the value of "latest" after every request) and the recorded return      *)
(* values as they are, and judges them by what C09 / C10 state:            *)
(*   - each parent has at most one committed child; a version a client was  *)
(*     told was accepted is and stays on the chain reachable from latest;   *)
(*   - a client reading a child only ever receives a committed version,     *)
(*     with the bytes that were submitted for it;                           *)
(*   - every committed version is still stored unless it is older than the  *)
(*     retention age and covered by a snapshot on the chain; a fresh        *)
(*     replica can reconstruct; once the chain had a snapshot it keeps one. *)
(* Which requests an operation makes, and in which order, is not           *)
(* constrained.                                                            *)
(***************************************************************************)
EXTENDS Integers, Sequences, FiniteSets, TLC, Json, IOUtils, TLCExt

CONSTANTS Clients, MaxVer

Rec == ndJsonDeserialize(IOEnv.TRACE)

VARIABLES l,
          vers,        \* version objects present: set of <<parent, child>>
          snaps,       \* snapshot objects present: set of version ids
          latest,      \* value of "latest" (-1: absent)
          committed,   \* <<parent, child>> of every version that has ever been the latest
          acked,       \* <<parent, child>> a client was told was accepted
          body,        \* [id -> body submitted for the version with that id] ("-" unknown)
          cur,         \* [Clients -> [op, ver, body] of the call in progress]
          old,         \* ids whose version object is older than the retention age
          everSnap,    \* a snapshot on the chain has existed
          bad          \* a read returned something it must not
ovars == <<l, vers, snaps, latest, committed, acked, body, cur, old, everSnap, bad>>

E == Rec[l]
IsEvent(name) == l <= Len(Rec) /\ Rec[l].a = name /\ l' = l + 1
NoCall == [op |-> "-", ver |-> 0, body |-> "-", known |-> {}]

HasParentIn(L, c) == \E e \in L : e[2] = c
ParentIn(L, c) == (CHOOSE e \in L : e[2] = c)[1]
RECURSIVE WalkSet(_,_,_)
WalkSet(L, c, fuel) ==
  IF fuel = 0 \/ c < 1 \/ ~HasParentIn(L, c) THEN {}
  ELSE {<<ParentIn(L, c), c>>} \cup WalkSet(L, ParentIn(L, c), fuel - 1)
Walk(L, x) == IF x = -1 THEN {} ELSE WalkSet(L, x, MaxVer + 1)
Depth(L, c) == Cardinality(WalkSet(L, c, MaxVer + 1))

OReset ==
  /\ IsEvent("Reset")
  /\ vers' = {} /\ snaps' = {} /\ latest' = -1 /\ committed' = {} /\ acked' = {}
  /\ body' = [i \in 1..MaxVer |-> "-"] /\ cur' = [c \in Clients |-> NoCall]
  /\ old' = {} /\ everSnap' = FALSE /\ bad' = FALSE

OCall ==
  /\ IsEvent("Call")
  \* known: the committed children of the named parent when the call starts
  /\ cur' = [cur EXCEPT ![E.c] = [op |-> E.op, ver |-> E.ver, body |-> E.body,
                                   known |-> {e \in committed : e[1] = E.ver}]]
  /\ UNCHANGED <<vers, snaps, latest, committed, acked, body, old, everSnap, bad>>

ObjVers == {<<E.objs[i][2], E.objs[i][3]>> : i \in {j \in DOMAIN E.objs : E.objs[j][1] = "v"}}
ObjSnaps == {E.objs[i][2] : i \in {j \in DOMAIN E.objs : E.objs[j][1] = "s"}}

(* any request: the store is now as recorded *)
OReq ==
  /\ IsEvent("Req")
  /\ vers' = ObjVers /\ snaps' = ObjSnaps /\ latest' = E.latest
  \* a version that has become the latest is committed, with the parent its object names
  /\ committed' = IF E.latest >= 1 /\ HasParentIn(ObjVers, E.latest)
                  THEN committed \cup {<<ParentIn(ObjVers, E.latest), E.latest>>} ELSE committed
  \* the bytes of a version are those of the add_version call that put its object
  /\ body' = IF E.op = "put" /\ E.name[1] = "v" /\ E.fault # "before"
             THEN [body EXCEPT ![E.name[3]] = cur[E.c].body] ELSE body
  /\ everSnap' = (everSnap \/ (ObjSnaps \cap {e[2] : e \in Walk(committed', E.latest)}) # {})
  /\ UNCHANGED <<acked, cur, old, bad>>

OReturn ==
  /\ IsEvent("Return")
  /\ LET c == cur[E.c] IN
     /\ acked' = IF c.op = "add_version" /\ E.kind = "ok"
                 THEN acked \cup {<<c.ver, E.ver>>} ELSE acked
     /\ bad' = (bad \/ (c.op = "get_child_version" /\ E.kind = "version"
                          /\ (<<c.ver, E.ver>> \notin committed \/ body[E.ver] # E.pay))
                    \/ (c.op = "add_version" /\ E.kind = "ok" /\ <<c.ver, E.ver>> \notin committed)
                    \* a version that was committed before the read began and is still stored
                    \* when it ends must be found
                    \/ (c.op = "get_child_version" /\ E.kind = "none" /\ (c.known \cap vers) # {}))
  /\ cur' = [cur EXCEPT ![E.c] = NoCall]
  /\ UNCHANGED <<vers, snaps, latest, committed, body, old, everSnap>>

OAge ==
  /\ IsEvent("Age")
  /\ old' = old \cup {e[2] : e \in vers}
  /\ UNCHANGED <<vers, snaps, latest, committed, acked, body, cur, everSnap, bad>>

ONext == OReset \/ OCall \/ OReq \/ OReturn \/ OAge
OInit ==
  /\ l = 1 /\ vers = {} /\ snaps = {} /\ latest = -1 /\ committed = {} /\ acked = {}
  /\ body = [i \in 1..MaxVer |-> "-"] /\ cur = [c \in Clients |-> NoCall]
  /\ old = {} /\ everSnap = FALSE /\ bad = FALSE
OSpec == OInit /\ [][ONext]_ovars

-----------------------------------------------------------------------------
TrueChain == Walk(committed, latest)
ChainNodes == {e[2] : e \in TrueChain}
OneChildPerParent == \A e1, e2 \in committed : e1[1] = e2[1] => e1 = e2
AckedOnChain == acked \subseteq TrueChain
ReadsOnChain == ~bad
SnapsOnChain == snaps \cap ChainNodes
DepthT(v) == Depth(committed, v)
Covered(e) == \E s \in SnapsOnChain : DepthT(e[2]) <= DepthT(s)
RetainedComplete == \A e \in TrueChain : e \in vers \/ (e[2] \in old /\ Covered(e))
FreshCanReconstruct ==
  \/ latest = -1
  \/ TrueChain \subseteq vers
  \/ \E s \in SnapsOnChain : \A e \in TrueChain : DepthT(e[2]) > DepthT(s) => e \in vers
RetainedSuffixAll ==
  \A s \in SnapsOnChain : \A e \in TrueChain : DepthT(e[2]) > DepthT(s) => e \in vers
SnapshotRetained == everSnap => SnapsOnChain # {}

Accepted ==
  LET d == TLCGet("stats").diameter IN
  IF d - 1 = Len(Rec) THEN TRUE
  ELSE Print(<<"TRACE-REJECTED-AT", d, ToJson(Rec[d])>>, FALSE)
=============================================================================
