----------------------------- MODULE SqliteTxn -----------------------------
(***************************************************************************)
(* The SQLite replica store as seen by several handles (connections in     *)
(* threads or processes) on one directory: src/storage/sqlite/inner.rs     *)
(* opens every StorageTxn with BEGIN IMMEDIATE, so a transaction holds the *)
(* write lock from its first to its last statement; commit publishes its   *)
(* buffer atomically; a dropped transaction, an error return and a process *)
(* stop all lose the buffer.  The transactions are the replica actions of  *)
(* TCReplica (commit_operations, commit_reversed_operations,               *)
(* rebuild_working_set) and the commit of a sync.                          *)
(*                                                                         *)
(* The committed state is TCReplica's db["disk"]  (Replicas = {"disk"}).   *)
(* Serves C06 (crash atomicity, durability) and C17 (serialisation).       *)
(***************************************************************************)
EXTENDS TCReplica

CONSTANTS Handles,    \* handle names (strings)
          TDev        \* named deviations, subset of {"TWOTXN", "DEFERRED"}; {} = the design
                      \*   "TWOTXN"  : a commit publishes the tasks in one transaction and
                      \*               the operations / working set in a second one
                      \*   "DEFERRED": BEGIN instead of BEGIN IMMEDIATE -- the snapshot is
                      \*               taken without the write lock

ASSUME Replicas = {"disk"}

VARIABLES lock,       \* handle holding the write lock, or "~"
          hs,         \* per handle: [st, start, act, post, fetched]
          pub,        \* ghost: the states published by complete commits, oldest first
          serial      \* ghost: the actions of those commits, in commit order

tvars0 == <<db, lock, hs, pub, serial>>

Disk == db["disk"]
SetDisk(d) == db' = [db EXCEPT !["disk"] = d]

(* an action of a replica = one storage transaction                         *)
(*   kind "Edit"   : commit_operations(ops)                                 *)
(*   kind "Undo"   : commit_reversed_operations(ops)                        *)
(*   kind "Rebuild": rebuild_working_set(rn)                                *)
(*   kind "Sync"   : the single transaction of a sync (pull, push, commit)  *)
Act(kind, ops, rn) == [kind |-> kind, ops |-> ops, rn |-> rn]
NoAct == Act("-", <<>>, FALSE)
IdleH == [st |-> "idle", start |-> EmptyReplica, act |-> NoAct, post |-> EmptyReplica,
          fetched |-> <<>>]

(* t is a state the complete action act may commit when started in s *)
IsTarget(s, act, t) ==
  CASE act.kind = "Edit" -> act.ops # <<>> /\ t = Committed(s, act.ops)
    [] act.kind = "Undo" ->
         \* a commit happens only when the list matches the most recent operations and
         \* every reversal applies (otherwise the transaction is dropped)
         /\ act.ops # <<>> /\ IsSuffix(act.ops, s.ops) /\ ReverseAll(s.tasks, act.ops).ok
         /\ t = Undone(s, act.ops)
    [] act.kind = "Rebuild" ->
         \E order \in Orders(Newcomers(s)) : t = Rebuilt(s, act.rn, order)
    [] act.kind = "Sync" ->
         \* what C06 needs of a sync transaction: everything local is marked as sent, the
         \* base version does not go back, the working set is left to the rebuild
         /\ t.ops = <<>> /\ t.base >= s.base /\ t.ws = s.ws
    [] OTHER -> FALSE

-----------------------------------------------------------------------------
(* get_undo_operations: a read-only transaction of its own *)
Fetch(h) ==
  /\ hs[h].st = "idle" /\ lock = "~"
  /\ hs' = [hs EXCEPT ![h].fetched = UndoOps(Disk)]
  /\ UNCHANGED <<db, lock, pub, serial>>

(* BEGIN IMMEDIATE: waits for the write lock, then sees the committed state *)
BeginImmediate(h, act) ==
  /\ hs[h].st = "idle"
  /\ IF "DEFERRED" \in TDev THEN UNCHANGED lock ELSE lock = "~" /\ lock' = h
  /\ hs' = [hs EXCEPT ![h].st = "open", ![h].start = Disk, ![h].act = act]
  /\ UNCHANGED <<db, pub, serial>>

Publish(h, t) ==
  /\ SetDisk(t)
  /\ pub' = Append(pub, t) /\ serial' = Append(serial, hs[h].act)

(* COMMIT: atomic publication of the buffer *)
Commit(h, t) ==
  /\ hs[h].st = "open" /\ IsTarget(hs[h].start, hs[h].act, t)
  /\ IF "DEFERRED" \in TDev THEN lock = "~" /\ UNCHANGED lock ELSE lock = h /\ lock' = "~"
  /\ IF "TWOTXN" \in TDev
     THEN /\ SetDisk([hs[h].start EXCEPT !.tasks = t.tasks])     \* first transaction
          /\ hs' = [hs EXCEPT ![h].st = "half", ![h].post = t]
          /\ UNCHANGED <<pub, serial>>
     ELSE /\ Publish(h, t)
          /\ hs' = [hs EXCEPT ![h].st = "idle", ![h].act = NoAct]

CommitRest(h) ==       \* only with "TWOTXN": the second transaction
  /\ hs[h].st = "half" /\ lock = "~"
  /\ Publish(h, [Disk EXCEPT !.ops = hs[h].post.ops, !.ws = hs[h].post.ws,
                             !.base = hs[h].post.base])
  /\ hs' = [hs EXCEPT ![h].st = "idle", ![h].act = NoAct]
  /\ UNCHANGED lock

(* the transaction object is dropped (error return, early return): ROLLBACK *)
Drop(h) ==
  /\ hs[h].st = "open"
  /\ lock' = (IF lock = h THEN "~" ELSE lock)
  /\ hs' = [hs EXCEPT ![h].st = "idle", ![h].act = NoAct]
  /\ UNCHANGED <<db, pub, serial>>

(* the process holding the handle stops: its buffer is lost, its lock freed *)
Kill(h) ==
  /\ hs[h].st \in {"idle", "open", "half"}
  /\ lock' = (IF lock = h THEN "~" ELSE lock)
  /\ hs' = [hs EXCEPT ![h].st = "dead"]
  /\ UNCHANGED <<db, pub, serial>>

(* ... stops while COMMIT is executing: either side, nothing in between *)
KillInCommit(h, t) ==
  /\ hs[h].st = "open" /\ IsTarget(hs[h].start, hs[h].act, t)
  /\ "TWOTXN" \notin TDev /\ "DEFERRED" \notin TDev /\ lock = h
  /\ lock' = "~"
  /\ hs' = [hs EXCEPT ![h].st = "dead"]
  /\ \/ Publish(h, t)
     \/ UNCHANGED <<db, pub, serial>>

Restart(h) ==
  /\ hs[h].st = "dead"
  /\ hs' = [hs EXCEPT ![h] = IdleH]
  /\ UNCHANGED <<db, lock, pub, serial>>

TInit0(d) ==
  /\ db = [r \in Replicas |-> d]
  /\ lock = "~" /\ hs = [h \in Handles |-> IdleH]
  /\ pub = <<d>> /\ serial = <<>>

-----------------------------------------------------------------------------
(* at most one transaction holds the write lock, and only an open one *)
LockOK == /\ lock \in Handles \cup {"~"}
          /\ (lock # "~" => hs[lock].st = "open")
          /\ ("DEFERRED" \notin TDev =>
                \A h \in Handles : hs[h].st = "open" => lock = h)

(* the committed state is always the result of the last complete commit:   *)
(* never a part of a transaction, never the buffer of a stopped process    *)
NoPartialTxn == Disk = pub[Len(pub)]

(* the committed states are the fold of the committed actions, in commit   *)
(* order, each applied to the state its predecessor left                   *)
Serializable ==
  /\ Len(pub) = Len(serial) + 1
  /\ \A i \in 1..Len(serial) : IsTarget(pub[i], serial[i], pub[i + 1])

(* tasks = operations applied to the empty task set (no sync in the model:  *)
(* every recorded operation is still unsynchronised)                       *)
DiskReplicaInvariant == ApplyAll(EmptyDb, ToSync(Disk.ops)) = Disk.tasks
=============================================================================
