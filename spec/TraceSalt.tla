----------------------------- MODULE TraceSalt -----------------------------
(* Trace validation of the salt-creation race against SaltStore. *)
EXTENDS SaltStore, IOUtils, TLCExt

Rec == ndJsonDeserialize(IOEnv.TRACE)
VARIABLE l
tvars == <<svars, l>>
E == Rec[l]
IsEvent(name) == l <= Len(Rec) /\ Rec[l].a = name /\ l' = l + 1

TReset == /\ IsEvent("Reset")
          /\ stored' = 0 /\ cl' = [c \in Clients |-> [pc |-> "new", salt |-> 0]]
          /\ nextSalt' = 1 /\ h' = <<>>
TOpen == IsEvent("Call") /\ Open(E.c)
TReq ==
  /\ IsEvent("Req") /\ E.name[1] = "salt" /\ E.fault = "none"
  /\ \/ E.op = "get" /\ Get(E.c) /\ E.found = (stored # 0)
     \/ E.op = "cas" /\ Cas(E.c) /\ E.swapped = (stored = 0)
TOpened == IsEvent("Opened") /\ E.ok /\ cl[E.c].pc = "ready" /\ UNCHANGED svars
(* afterwards one client added a version and every other client could open it *)
TAgree == IsEvent("Agree") /\ E.ok /\ Done /\ UNCHANGED svars

TNext == TReset \/ TOpen \/ TReq \/ TOpened \/ TAgree
TInit == Init /\ l = 1
TSpec == TInit /\ [][TNext]_tvars
Accepted ==
  LET d == TLCGet("stats").diameter IN
  IF d - 1 = Len(Rec) THEN TRUE
  ELSE Print(<<"TRACE-REJECTED-AT", d, ToJson(Rec[d])>>, FALSE)
=============================================================================
