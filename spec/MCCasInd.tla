------------------------------ MODULE MCCasInd ------------------------------
(* TLC cross-check of CasInd (the module Apalache proves inductive): smaller bounds *)
EXTENDS CasInd
MCClients == {"c1", "c2", "c3"}
MCMaxId == 4
=============================================================================
