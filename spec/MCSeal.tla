------------------------------- MODULE MCSeal -------------------------------
(***************************************************************************)
(* Model-checking harness and stimulus generator for Seal: a few clients   *)
(* write versions / a snapshot (or call the raw hook), then an adversary   *)
(* owning the storage mutates, re-labels and plants values while clients   *)
(* holding the right or a wrong secret / salt read.  Budgets bound the     *)
(* behaviours; h records the action names and arguments for replay on the  *)
(* real backends (harness sub-command seal-replay).                        *)
(***************************************************************************)
EXTENDS Seal, Json

CONSTANTS Backends,    \* the backends explored, subset of {"http","cloud","git","raw"}
          WSecrets,    \* secrets of the writing clients (their salt is "s1")
          MaxVers,     \* versions added through the Server interface
          MaxSnaps,    \* 0 or 1
          MaxRaw,      \* raw seal calls
          MaxMut,      \* adversary moves
          MaxReads,    \* reads
          Muts,        \* subset of {"flip","cut","fmt","relabel","foreign"}
          Emit, MaxLen

VARIABLES nsnaps, nraw, nmut, nreads, h
mvars == <<vars, nsnaps, nraw, nmut, nreads, h>>
MView == <<backend, store, nver, nextNonce, sealLog, nseals, returned, phase, nsnaps, nraw, nmut, nreads>>

WKeys == {<<k, "s1">> : k \in WSecrets}

Ev(a, key, lab, from, m, pt) ==
  [a |-> a, key |-> key, lab |-> lab, from |-> from, m |-> m, pt |-> pt]

MAddVersion ==
  /\ nver < MaxVers
  /\ \E key \in WKeys, pt \in Payloads :
       /\ AddVersion(key, pt)
       /\ h' = Append(h, Ev("AddVersion", key, <<"v", Vid(nver), Vid(nver + 1)>>, NoLab, None, pt))
  /\ UNCHANGED <<nsnaps, nraw, nmut, nreads>>

MAddSnapshot ==
  /\ nsnaps < MaxSnaps
  /\ \E key \in WKeys, lab \in SLabels, pt \in Payloads :
       /\ AddSnapshot(key, lab, pt)
       /\ h' = Append(h, Ev("AddSnapshot", key, lab, NoLab, None, pt))
  /\ nsnaps' = nsnaps + 1
  /\ UNCHANGED <<nraw, nmut, nreads>>

MSealRaw ==
  /\ nraw < MaxRaw
  /\ \E key \in WKeys, lab \in RLabels, pt \in Payloads :
       /\ SealRaw(key, lab, pt)
       /\ h' = Append(h, Ev("SealRaw", key, lab, NoLab, None, pt))
  /\ nraw' = nraw + 1
  /\ UNCHANGED <<nsnaps, nmut, nreads>>

MMutate ==
  /\ nmut < MaxMut /\ nreads < MaxReads
  /\ \E m \in Muts \cap Mutations, lab \in LabelsOf(backend) :
       /\ Mutate(m, lab)
       /\ h' = Append(h, Ev("Mutate", NoKey, lab, NoLab, m, None))
  /\ nmut' = nmut + 1
  /\ UNCHANGED <<nsnaps, nraw, nreads>>

MRelabel ==
  /\ nmut < MaxMut /\ nreads < MaxReads /\ "relabel" \in Muts
  /\ \E from \in LabelsOf(backend), to \in LabelsOf(backend) :
       /\ Relabel(from, to)
       /\ h' = Append(h, Ev("Relabel", NoKey, to, from, None, None))
  /\ nmut' = nmut + 1
  /\ UNCHANGED <<nsnaps, nraw, nreads>>

MForeign ==
  /\ nmut < MaxMut /\ nreads < MaxReads /\ "foreign" \in Muts
  /\ \E lab \in LabelsOf(backend), key \in Keys :
       LET pt == CHOOSE p \in Payloads : TRUE IN
       /\ Foreign(lab, key, pt)
       /\ h' = Append(h, Ev("Foreign", key, lab, NoLab, None, pt))
  /\ nmut' = nmut + 1
  /\ UNCHANGED <<nsnaps, nraw, nreads>>

MRead ==
  /\ nreads < MaxReads
  /\ \E key \in Keys, lab \in LabelsOf(backend) :
       /\ Read(key, lab)
       /\ h' = Append(h, Ev("Read", key, lab, NoLab, None, None))
  /\ nreads' = nreads + 1
  /\ UNCHANGED <<nsnaps, nraw, nmut>>

MInit == Init /\ backend \in Backends
         /\ nsnaps = 0 /\ nraw = 0 /\ nmut = 0 /\ nreads = 0
         /\ h = <<Ev("Backend", NoKey, NoLab, NoLab, backend, None)>>
MNext == MAddVersion \/ MAddSnapshot \/ MSealRaw \/ MMutate \/ MRelabel \/ MForeign \/ MRead

HBound == Len(h) <= MaxLen
MEmit == (Emit /\ (nreads = MaxReads \/ Len(h) >= MaxLen)) => PrintT(<<"REPLAY", ToJson(h)>>)

(* coverage witnesses (anti-vacuity of the exploration itself): each must be *)
(* VIOLATED, i.e. some explored read returns data / is refused              *)
NeverReturned == returned = {}
NeverRefused  == last.res # "error"
=============================================================================
