------------------------------- MODULE CasInd -------------------------------
(***************************************************************************)
(* The compare-and-swap core of the object-store server's add_version      *)
(* (src/server/cloud/server.rs), reduced to integers and finite sets so    *)
(* that Apalache can discharge an INDUCTIVE invariant: the C09 statements  *)
(* "each parent has at most one committed child", "the committed versions  *)
(* form one chain ending at latest", "every committed version is stored",  *)
(* and "the rule get_child_version uses to pick the true child (it is the  *)
(* latest, or it has children) only ever selects a committed version" hold *)
(* after ANY number of steps of any number of add_version attempts, not    *)
(* only up to the depth TLC explores in CloudStore.tla.                    *)
(*                                                                         *)
(* CloudStore.tla is the specification that is bound to the code (single   *)
(* requests, paging, cleanup, reads in several requests); this module is   *)
(* its add_version skeleton: read latest / put the version object / CAS    *)
(* latest / delete the own object after a lost CAS, with a crash possible  *)
(* between any two requests.  MCCasInd.cfg checks the same module with TLC *)
(* so that the two model checkers agree on it.                             *)
(*                                                                         *)
(* Ids are integers in order of invention (a fresh uuid is one that nobody *)
(* has seen).  Parent 0 is the nil version, parent -1 "some id this server *)
(* never saw" (accepted only while the server has no latest).  A client    *)
(* only ever names, as parent, an id it was given by the server: the id of *)
(* a committed version.                                                    *)
(***************************************************************************)
EXTENDS Integers, FiniteSets

(* fixed small bounds (definitions, not CONSTANTS: Apalache wants constant ranges) *)
Clients == {"c1", "c2", "c3"}
MaxId == 5
(* anti-vacuity switch: TRUE makes the swap unconditional (checks copy the module with it set) *)
Blind == FALSE

VARIABLES
  \* @type: Set(<<Int, Int>>);
  objs,        \* version objects present: <<parent, child>>
  \* @type: Int;
  latest,      \* value of "latest", 0 = absent
  \* @type: Set(<<Int, Int>>);
  committed,   \* history: every <<parent, child>> whose child has been latest
  \* @type: Int;
  nextId,      \* ids 1 .. nextId-1 have been invented
  \* @type: Str -> Str;
  pc,          \* "idle", "read", "put", "cas", "del"
  \* @type: Str -> Int;
  seen,        \* the value of latest the attempt read
  \* @type: Str -> Int;
  par,         \* the parent the attempt names
  \* @type: Str -> Int;
  mine         \* the id the attempt invented

vars == <<objs, latest, committed, nextId, pc, seen, par, mine>>

Ids == 1..MaxId
Parents == (-1)..MaxId
CIds == {e[2] : e \in committed}
Busy == {"put", "cas", "del"}

Init ==
  /\ objs = {} /\ latest = 0 /\ committed = {} /\ nextId = 1
  /\ pc = [c \in Clients |-> "idle"]
  /\ seen = [c \in Clients |-> 0]
  /\ par = [c \in Clients |-> 0]
  /\ mine = [c \in Clients |-> 1]

(* the attempt is over: its registers are forgotten *)
Finish(c) ==
  /\ pc' = [pc EXCEPT ![c] = "idle"]
  /\ seen' = [seen EXCEPT ![c] = 0]
  /\ par' = [par EXCEPT ![c] = 0]
  /\ mine' = [mine EXCEPT ![c] = 1]

(* add_version(p, ..) is called *)
Start(c) ==
  /\ pc[c] = "idle"
  /\ \E p \in Parents :
       /\ p \in CIds \cup {0, -1}
       /\ par' = [par EXCEPT ![c] = p]
  /\ pc' = [pc EXCEPT ![c] = "read"]
  /\ UNCHANGED <<objs, latest, committed, nextId, seen, mine>>

(* get(latest); a different latest is answered ExpectedParentVersion *)
ReadLatest(c) ==
  /\ pc[c] = "read"
  /\ IF latest # 0 /\ latest # par[c]
     THEN Finish(c)
     ELSE /\ seen' = [seen EXCEPT ![c] = latest]
          /\ pc' = [pc EXCEPT ![c] = "put"]
          /\ UNCHANGED <<par, mine>>
  /\ UNCHANGED <<objs, latest, committed, nextId>>

(* put(v-parent-fresh) *)
Put(c) ==
  /\ pc[c] = "put"
  /\ nextId <= MaxId
  /\ mine' = [mine EXCEPT ![c] = nextId]
  /\ nextId' = nextId + 1
  /\ objs' = objs \cup {<<par[c], nextId>>}
  /\ pc' = [pc EXCEPT ![c] = "cas"]
  /\ UNCHANGED <<latest, committed, seen, par>>

(* compare_and_swap(latest, seen, mine) *)
Cas(c) ==
  /\ pc[c] = "cas"
  /\ IF Blind \/ latest = seen[c]
     THEN /\ latest' = mine[c]
          /\ committed' = committed \cup {<<par[c], mine[c]>>}
          /\ Finish(c)
     ELSE /\ pc' = [pc EXCEPT ![c] = "del"]
          /\ UNCHANGED <<latest, committed, seen, par, mine>>
  /\ UNCHANGED <<objs, nextId>>

(* the CAS was lost: delete the own version object *)
Del(c) ==
  /\ pc[c] = "del"
  /\ objs' = objs \ {<<par[c], mine[c]>>}
  /\ Finish(c)
  /\ UNCHANGED <<latest, committed, nextId>>

(* the process stops between two requests; whatever it stored stays *)
Crash(c) ==
  /\ pc[c] \in Busy \cup {"read"}
  /\ Finish(c)
  /\ UNCHANGED <<objs, latest, committed, nextId>>

Next ==
  \/ \E c \in Clients : Start(c) \/ ReadLatest(c) \/ Put(c) \/ Cas(c) \/ Del(c) \/ Crash(c)
  \/ UNCHANGED vars

Spec == Init /\ [][Next]_vars

-----------------------------------------------------------------------------
(* what C09 states *)
OneChildPerParent == \A e1 \in committed : \A e2 \in committed : e1[1] = e2[1] => e1 = e2
UniqueChildId == \A e1 \in committed : \A e2 \in committed : e1[2] = e2[2] => e1 = e2
CommittedStored == committed \subseteq objs
LatestCommitted ==
  \/ latest = 0 /\ committed = {}
  \/ \E e \in committed : e[2] = latest
(* one chain: every committed version but one hangs below another committed one *)
OneRoot == \A e1 \in committed : \A e2 \in committed :
             (e1[1] \notin CIds /\ e2[1] \notin CIds) => e1 = e2
LatestIsTip == \A e \in committed : e[1] # latest
(* the rule of get_child_version: among the objects named v-p-*, the true child *)
(* is the one that is the latest or that has children                          *)
ReadRuleSound ==
  \A o \in objs : (o[2] = latest \/ \E x \in objs : x[1] = o[2]) => o \in committed

Safety ==
  /\ OneChildPerParent /\ UniqueChildId /\ CommittedStored /\ LatestCommitted
  /\ OneRoot /\ LatestIsTip /\ ReadRuleSound

-----------------------------------------------------------------------------
(* the inductive invariant *)
TypeOK ==
  /\ objs \in SUBSET (Parents \X Ids)
  /\ committed \in SUBSET (Parents \X Ids)
  /\ latest \in 0..MaxId
  /\ nextId \in 1..(MaxId + 1)
  /\ pc \in [Clients -> {"idle", "read", "put", "cas", "del"}]
  /\ seen \in [Clients -> 0..MaxId]
  /\ par \in [Clients -> Parents]
  /\ mine \in [Clients -> Ids]

ObjsOK ==
  /\ \A o \in objs : o[2] < nextId /\ o[1] < o[2]
  /\ \A o1 \in objs : \A o2 \in objs : o1[2] = o2[2] => o1 = o2      \* fresh ids
  /\ \A o \in objs : o[1] <= 0 \/ o[1] \in CIds                       \* parents were given out
  /\ latest < nextId

ChainOK ==
  /\ committed \subseteq objs
  /\ \A e \in committed : e[2] <= latest                 \* latest only moves to newer ids
  /\ LatestCommitted
  /\ OneChildPerParent
  /\ OneRoot

ClientOK(c) ==
  /\ pc[c] \in Busy \cup {"read"} => par[c] <= 0 \/ par[c] \in CIds
  /\ pc[c] \in Busy =>
       /\ seen[c] <= latest
       /\ seen[c] = 0 \/ seen[c] = par[c]
  /\ pc[c] \in {"cas", "del"} =>
       /\ mine[c] < nextId /\ mine[c] > seen[c]
       /\ mine[c] \notin CIds
       /\ \A o \in objs : o[2] = mine[c] => o = <<par[c], mine[c]>>
  /\ pc[c] = "cas" => <<par[c], mine[c]>> \in objs
  /\ \A d \in Clients :
       (d # c /\ pc[c] \in {"cas", "del"} /\ pc[d] \in {"cas", "del"}) => mine[c] # mine[d]

IndInv ==
  /\ TypeOK /\ ObjsOK /\ ChainOK
  /\ \A c \in Clients : ClientOK(c)
  /\ ReadRuleSound

IndInit == IndInv
=============================================================================
