----------------------------- MODULE TraceChain -----------------------------
(***************************************************************************)
(* Trace validation of a server backend against ChainServer at the grain   *)
(* of Server-trait calls (C08), including calls that returned an error     *)
(* because of an injected failure inside the backend (C11): afterwards the *)
(* version must be either fully accepted or not visible at all.            *)
(*                                                                         *)
(* Ids in the trace are small integers in order of first observation. A    *)
(* version accepted with a lost reply has a ghost id (<= -1000) in the     *)
(* specification until a later reply reveals its id.                       *)
(***************************************************************************)
EXTENDS ChainServer, Json, IOUtils, TLCExt

CONSTANTS WithSnapshots,   \* FALSE for a backend that does not support snapshots (local)
          ExpectCovers,    \* TRUE: the snapshot served must cover every discarded version
          CanTrim          \* TRUE for a backend that discards versions covered by its snapshot
                           \* once they are older than its retention age (git)

Rec == ndJsonDeserialize(IOEnv.TRACE)
VARIABLES l,
          olds             \* ids of versions committed while the harness backdated commits
                           \* beyond the retention age (AV events carry "old")
tvars == <<cvars, l, olds>>
E == Rec[l]
IsEvent(name) == l <= Len(Rec) /\ Rec[l].a = name /\ l' = l + 1

IsGhost(x) == x <= -1000
Fresh(n) == n >= 1 /\ n \notin Ids
Ren(ch, g, n) == [i \in DOMAIN ch |->
                    [ch[i] EXCEPT !.id = IF @ = g THEN n ELSE @, !.parent = IF @ = g THEN n ELSE @]]
(* the chain after learning that the spec id x is called n in the trace *)
Learn(ch, x, n) == IF IsGhost(x) THEN Ren(ch, x, n) ELSE ch
Match(x, n) == x = n \/ (IsGhost(x) /\ Fresh(n))
RenSet(S, x, n) == IF IsGhost(x) THEN {IF y = x THEN n ELSE y : y \in S} ELSE S
IsOld == "old" \in DOMAIN E /\ E.old

TReset == IsEvent("Reset") /\ chain' = <<>> /\ snaps' = {} /\ ghost' = 0 /\ gone' = {} /\ olds' = {}

(* the harness switches between backdated and current commit dates *)
TEpoch == IsEvent("Epoch") /\ UNCHANGED <<cvars, olds>>

TAddOk ==
  /\ IsEvent("AV") /\ E.res = "ok"
  /\ Fresh(E.ver)
  /\ AddVersionOk(E.parent, E.body, E.ver)
  /\ olds' = IF IsOld THEN olds \cup {E.ver} ELSE olds

(* A call may not answer "rejected" when its version was in fact added: "changes nothing  *)
(* on rejection" holds under injected faults too.  (Until fix G7 the git backend reported  *)
(* Expected(its own new version) when the reply of a push that had arrived was lost; the  *)
(* former clause TAddFaultedAccepted that tolerated this has been removed.)               *)

(* a handle could not be (re)opened because of an injected failure: nothing happened *)
TOpenFailed == IsEvent("OpenFailed") /\ E.faulted /\ UNCHANGED <<cvars, olds>>

TAddRejected ==
  /\ IsEvent("AV") /\ E.res = "expected"
  /\ ~Accepts(E.parent)
  /\ Match(Latest, E.ver)
  /\ chain' = Learn(chain, Latest, E.ver)
  /\ gone' = RenSet(gone, Latest, E.ver) /\ olds' = RenSet(olds, Latest, E.ver)
  /\ UNCHANGED <<snaps, ghost>>

TAddFailed ==
  /\ IsEvent("AV") /\ E.res = "error"
  /\ \/ UNCHANGED <<cvars, olds>>
     \/ /\ Accepts(E.parent)
        /\ chain' = Append(chain, [parent |-> E.parent, id |-> -1000 - ghost, body |-> E.body])
        /\ ghost' = ghost + 1
        /\ olds' = IF IsOld THEN olds \cup {-1000 - ghost} ELSE olds
        /\ UNCHANGED <<snaps, gone>>

(* a version the server holds may be answered "no such version" only by a backend that   *)
(* discards, and only if a stored snapshot covers it and it is older than the retention  *)
(* age; the specification then counts it as discarded (a clone that still has the file   *)
(* may go on serving it: that is the same version, byte for byte)                        *)
Discardable(id) == CanTrim /\ Covered(id) /\ id \in olds

TGetChild ==
  /\ IsEvent("GC") /\ E.res # "error"
  /\ LET r == GetChildRaw(E.parent) IN
     IF r.kind = "none" THEN E.res = "none" /\ UNCHANGED <<cvars, olds>>
     ELSE IF E.res = "none"
     THEN /\ Discardable(r.id)
          /\ gone' = gone \cup {r.id}
          /\ UNCHANGED <<chain, snaps, ghost, olds>>
     ELSE /\ E.res = "version" /\ E.parent_ok
          /\ Match(r.id, E.ver)
          /\ r.body = E.body                      \* byte for byte (the harness compares bytes)
          /\ chain' = Learn(chain, r.id, E.ver)
          /\ gone' = RenSet(gone, r.id, E.ver) /\ olds' = RenSet(olds, r.id, E.ver)
          /\ UNCHANGED <<snaps, ghost>>

(* a read that failed because of an injected fault changes nothing *)
TReadFailed == (IsEvent("GC") \/ IsEvent("GS")) /\ E.res = "error" /\ E.faulted /\ UNCHANGED <<cvars, olds>>

TAddSnapshot ==
  /\ IsEvent("AS") /\ WithSnapshots /\ UNCHANGED olds
  /\ \/ E.res = "ok" /\ AddSnapshot(E.ver, E.body)
     \/ E.res = "error" /\ (UNCHANGED cvars \/ AddSnapshot(E.ver, E.body))

(* the snapshot handed out is one that was stored, with its version; when versions have  *)
(* been discarded it must cover all of them, or a new replica could not reach the latest *)
(* state (ServedCovers is evaluated on every GS event of a discarding backend)            *)
TGetSnapshot ==
  /\ IsEvent("GS") /\ E.res # "error" /\ UNCHANGED olds
  /\ IF ~WithSnapshots \/ snaps = {} THEN E.res = "nosnap" /\ UNCHANGED cvars
     ELSE /\ E.res = "snapshot"
          /\ [ver |-> E.ver, body |-> E.body] \in snaps
          /\ ExpectCovers => \A id \in gone : CoveredBy(id, [ver |-> E.ver, body |-> E.body])
          /\ UNCHANGED cvars

TReopen == IsEvent("Reopen") /\ UNCHANGED <<cvars, olds>>

(* replicas syncing through the backend after the calls above all succeeded   *)
(* and hold the same tasks                                                   *)
TConverge == IsEvent("Converge") /\ E.ok /\ UNCHANGED <<cvars, olds>>

TNext == TReset \/ TEpoch \/ TAddOk \/ TAddRejected \/ TOpenFailed \/ TAddFailed \/ TGetChild \/ TReadFailed
         \/ TAddSnapshot \/ TGetSnapshot \/ TReopen \/ TConverge
TInit == CInit /\ l = 1 /\ olds = {}
TSpec == TInit /\ [][TNext]_tvars

Accepted ==
  LET d == TLCGet("stats").diameter IN
  IF d - 1 = Len(Rec) THEN TRUE
  ELSE Print(<<"TRACE-REJECTED-AT", d, ToJson(Rec[d])>>, FALSE)
=============================================================================
