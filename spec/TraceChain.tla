----------------------------- MODULE TraceChain -----------------------------
(***************************************************************************)
(* Trace validation of a server backend against ChainServer at the grain   *)
(* of Server-trait calls (C08), including calls that returned an error     *)
(* because of an injected failure inside the backend (C11): afterwards the *)
(* version must be either fully accepted or not visible at all.            *)
(*                                                                         *)
(* Ids in the trace are small integers in order of first observation. A    *)
(* version accepted with a lost reply has a ghost id (<= -1000) in the     *)
(* specification until a later reply reveals its id.                       *)
(***************************************************************************)
EXTENDS ChainServer, Json, IOUtils, TLCExt

CONSTANT WithSnapshots   \* FALSE for a backend that does not support snapshots (local)

Rec == ndJsonDeserialize(IOEnv.TRACE)
VARIABLE l
tvars == <<cvars, l>>
E == Rec[l]
IsEvent(name) == l <= Len(Rec) /\ Rec[l].a = name /\ l' = l + 1

IsGhost(x) == x <= -1000
Ids == {chain[i].id : i \in DOMAIN chain}
Fresh(n) == n >= 1 /\ n \notin Ids
Ren(ch, g, n) == [i \in DOMAIN ch |->
                    [ch[i] EXCEPT !.id = IF @ = g THEN n ELSE @, !.parent = IF @ = g THEN n ELSE @]]
(* the chain after learning that the spec id x is called n in the trace *)
Learn(ch, x, n) == IF IsGhost(x) THEN Ren(ch, x, n) ELSE ch
Match(x, n) == x = n \/ (IsGhost(x) /\ Fresh(n))

TReset == IsEvent("Reset") /\ chain' = <<>> /\ snaps' = {} /\ ghost' = 0

TAddOk ==
  /\ IsEvent("AV") /\ E.res = "ok"
  /\ Fresh(E.ver)
  /\ AddVersionOk(E.parent, E.body, E.ver)

(* the call in which a failure was injected may also answer "rejected, expected  *)
(* N" where N is the very version it added (the backend learnt from the remote   *)
(* that its own push had arrived): the version is fully accepted                *)
TAddFaultedAccepted ==
  /\ IsEvent("AV") /\ E.res = "expected" /\ E.faulted
  /\ Accepts(E.parent) /\ Fresh(E.ver)
  /\ AddVersionOk(E.parent, E.body, E.ver)

(* a handle could not be (re)opened because of an injected failure: nothing happened *)
TOpenFailed == IsEvent("OpenFailed") /\ E.faulted /\ UNCHANGED cvars

TAddRejected ==
  /\ IsEvent("AV") /\ E.res = "expected"
  /\ ~Accepts(E.parent)
  /\ Match(Latest, E.ver)
  /\ chain' = Learn(chain, Latest, E.ver)
  /\ UNCHANGED <<snaps, ghost>>

TAddFailed ==
  /\ IsEvent("AV") /\ E.res = "error"
  /\ \/ UNCHANGED cvars
     \/ /\ Accepts(E.parent)
        /\ chain' = Append(chain, [parent |-> E.parent, id |-> -1000 - ghost, body |-> E.body])
        /\ ghost' = ghost + 1
        /\ UNCHANGED snaps

TGetChild ==
  /\ IsEvent("GC") /\ E.res # "error"
  /\ LET r == GetChildResult(E.parent) IN
     IF r.kind = "none" THEN E.res = "none" /\ UNCHANGED cvars
     ELSE /\ E.res = "version" /\ E.parent_ok
          /\ Match(r.id, E.ver)
          /\ r.body = E.body                      \* byte for byte (the harness compares bytes)
          /\ chain' = Learn(chain, r.id, E.ver)
          /\ UNCHANGED <<snaps, ghost>>

(* a read that failed because of an injected fault changes nothing *)
TReadFailed == (IsEvent("GC") \/ IsEvent("GS")) /\ E.res = "error" /\ E.faulted /\ UNCHANGED cvars

TAddSnapshot ==
  /\ IsEvent("AS") /\ WithSnapshots
  /\ \/ E.res = "ok" /\ AddSnapshot(E.ver, E.body)
     \/ E.res = "error" /\ (UNCHANGED cvars \/ AddSnapshot(E.ver, E.body))

TGetSnapshot ==
  /\ IsEvent("GS") /\ E.res # "error"
  /\ IF ~WithSnapshots \/ snaps = {} THEN E.res = "nosnap" /\ UNCHANGED cvars
     ELSE /\ E.res = "snapshot"
          /\ [ver |-> E.ver, body |-> E.body] \in snaps
          /\ UNCHANGED cvars

TReopen == IsEvent("Reopen") /\ UNCHANGED cvars

(* replicas syncing through the backend after the calls above all succeeded   *)
(* and hold the same tasks                                                   *)
TConverge == IsEvent("Converge") /\ E.ok /\ UNCHANGED cvars

TNext == TReset \/ TAddOk \/ TAddRejected \/ TAddFaultedAccepted \/ TOpenFailed \/ TAddFailed \/ TGetChild \/ TReadFailed
         \/ TAddSnapshot \/ TGetSnapshot \/ TReopen \/ TConverge
TInit == CInit /\ l = 1
TSpec == TInit /\ [][TNext]_tvars

Accepted ==
  LET d == TLCGet("stats").diameter IN
  IF d - 1 = Len(Rec) THEN TRUE
  ELSE Print(<<"TRACE-REJECTED-AT", d, ToJson(Rec[d])>>, FALSE)
=============================================================================
