----------------------------- MODULE CloudStore -----------------------------
(***************************************************************************)
(* The object-store server (src/server/cloud/server.rs) at the grain of    *)
(* single object-store requests: get / put / del / compare-and-swap /      *)
(* list.  Several clients (CloudServer instances) share one object store.  *)
(*                                                                         *)
(* Objects: "latest" (id of the latest version), version objects           *)
(* <<parent, child>> ("v-PARENT-CHILD"), snapshot objects ("s-VERSION").   *)
(* Version ids are small integers in order of invention (0 = nil).         *)
(*                                                                         *)
(* Dev: "GC1" = the pinned cleanup order (list versions, then read         *)
(* latest; delete everything not on the walk whose parent is not latest).  *)
(* Dev = {} is the repaired cleanup: read latest first, delete only        *)
(* versions whose parent is a strict ancestor of that latest.              *)
(***************************************************************************)
EXTENDS Integers, Sequences, FiniteSets, TLC

CONSTANTS Clients,      \* strings
          MaxVer,       \* bound on invented version ids
          Dev,
          Faults        \* TRUE: requests may fail before / after their effect

Nil == 0
NoLatest == -1

VARIABLES latest,     \* content of the "latest" object: NoLatest or an id
          vers,       \* set of <<parent, child>> version objects present
          pay,        \* [id -> payload token] of the version object with that child id
          old,        \* child ids whose version object is older than the retention age
          snaps,      \* version ids that have a snapshot object
          spay,       \* [id -> payload token] of snapshot objects
          nextId,
          cl,         \* [Clients -> client record]
          base,       \* [Clients -> version the client considers its own]
          acked,      \* ghost: <<parent, child>> a client was told was accepted
          bad         \* ghost: a read returned a version that was never acked, or wrong bytes

vars == <<latest, vers, pay, old, snaps, spay, nextId, cl, base, acked, bad>>

NoRes == [kind |-> "-", ver |-> 0, pay |-> "-"]
Idle == [pc |-> "idle", op |-> "-", parent |-> 0, seen |-> NoLatest, new |-> 0, body |-> "-",
         cands |-> {}, todo |-> {}, chosen |-> -1,
         L |-> {}, l |-> NoLatest, oldL |-> {}, S |-> {}, dels |-> {}, sdel |-> {}, odel |-> <<>>,
         prob |-> 13, res |-> NoRes, req |-> <<"-", "-">>, rres |-> "-"]

Init ==
  /\ latest = NoLatest /\ vers = {} /\ pay = [i \in 1..MaxVer |-> "-"] /\ old = {}
  /\ snaps = {} /\ spay = [i \in 1..MaxVer |-> "-"] /\ nextId = 1
  /\ cl = [c \in Clients |-> Idle] /\ base = [c \in Clients |-> Nil]
  /\ acked = {} /\ bad = FALSE

-----------------------------------------------------------------------------
(* helpers over a listing L (a set of <<parent, child>>)                    *)
HasParentIn(L, c) == \E e \in L : e[2] = c
ParentIn(L, c) == (CHOOSE e \in L : e[2] = c)[1]
RECURSIVE WalkSet(_,_,_)
WalkSet(L, c, fuel) ==       \* edges on the walk back from c over L
  IF fuel = 0 \/ c < 1 \/ ~HasParentIn(L, c) THEN {}
  ELSE {<<ParentIn(L, c), c>>} \cup WalkSet(L, ParentIn(L, c), fuel - 1)
Walk(L, l) == IF l = NoLatest THEN {} ELSE WalkSet(L, l, MaxVer + 1)
RECURSIVE WalkSeq(_,_,_)     \* the same walk as a sequence of child ids, newest first
WalkSeq(L, c, fuel) ==
  IF fuel = 0 \/ c < 1 \/ ~HasParentIn(L, c) THEN <<>>
  ELSE <<c>> \o WalkSeq(L, ParentIn(L, c), fuel - 1)
Depth(L, c) == Cardinality(WalkSet(L, c, MaxVer + 1))

(* request descriptors, compared with the recorded requests in TraceCloud   *)
VName(p, c) == <<"v", p, c>>
SName(v) == <<"s", v, 0>>
LName == <<"latest", 0, 0>>
Req(op, name) == <<op, name>>

Set(c, rec) == cl' = [cl EXCEPT ![c] = rec]
Done(c, res) == [Idle EXCEPT !.prob = cl[c].prob, !.res = res]

-----------------------------------------------------------------------------
(* add_version(parent, body)                                               *)
AVCall(c, parent, body) ==
  /\ cl[c].pc = "idle"
  /\ Set(c, [Idle EXCEPT !.pc = "av1", !.op = "add_version", !.parent = parent, !.body = body,
                         !.prob = cl[c].prob])
  /\ UNCHANGED <<latest, vers, pay, old, snaps, spay, nextId, base, acked, bad>>

AV1(c) ==   \* get latest
  /\ cl[c].pc = "av1"
  /\ IF latest # NoLatest /\ latest # cl[c].parent
     THEN Set(c, [Done(c, [kind |-> "expected", ver |-> latest, pay |-> "-"])
                    EXCEPT !.req = Req("get", LName)])
     ELSE Set(c, [cl[c] EXCEPT !.pc = "av2", !.seen = latest, !.req = Req("get", LName)])
  /\ UNCHANGED <<latest, vers, pay, old, snaps, spay, nextId, base, acked, bad>>

AV2(c) ==   \* put v-PARENT-NEW
  /\ cl[c].pc = "av2" /\ nextId <= MaxVer
  /\ vers' = vers \cup {<<cl[c].parent, nextId>>}
  /\ pay' = [pay EXCEPT ![nextId] = cl[c].body]
  /\ nextId' = nextId + 1
  /\ Set(c, [cl[c] EXCEPT !.pc = "av3", !.new = nextId, !.req = Req("put", VName(cl[c].parent, nextId))])
  /\ UNCHANGED <<latest, old, snaps, spay, base, acked, bad>>

(* compare-and-swap of "latest"; draw = the random byte drawn by           *)
(* maybe_cleanup right afterwards (cleanup runs iff draw < prob)           *)
AV3(c, draw) ==
  /\ cl[c].pc = "av3"
  /\ IF latest = cl[c].seen
     THEN /\ latest' = cl[c].new
          /\ acked' = acked \cup {<<cl[c].parent, cl[c].new>>}
          /\ base' = [base EXCEPT ![c] = cl[c].new]
          /\ Set(c, [cl[c] EXCEPT !.req = Req("cas", LName), !.rres = "swapped",
                       !.prob = IF draw < cl[c].prob THEN 13 ELSE cl[c].prob,
                       !.pc = IF draw < cl[c].prob
                              THEN (IF "GC1" \in Dev THEN "clV" ELSE "clL") ELSE "avU"])
     ELSE /\ Set(c, [cl[c] EXCEPT !.pc = "av4", !.req = Req("cas", LName), !.rres = "lost"])
          /\ UNCHANGED <<latest, acked, base>>
  /\ UNCHANGED <<vers, pay, old, snaps, spay, nextId, bad>>

AV4(c) ==   \* lost the race: delete the own version object
  /\ cl[c].pc = "av4"
  /\ vers' = vers \ {<<cl[c].parent, cl[c].new>>}
  /\ Set(c, [cl[c] EXCEPT !.pc = "av5", !.req = Req("del", VName(cl[c].parent, cl[c].new))])
  /\ UNCHANGED <<latest, pay, old, snaps, spay, nextId, base, acked, bad>>

AV5(c) ==   \* get latest again, to name it in the rejection
  /\ cl[c].pc = "av5"
  /\ Set(c, [Done(c, [kind |-> "expected", ver |-> IF latest = NoLatest THEN Nil ELSE latest,
                      pay |-> "-"]) EXCEPT !.req = Req("get", LName)])
  /\ UNCHANGED <<latest, vers, pay, old, snaps, spay, nextId, base, acked, bad>>

(* snapshot_urgency: list s- (only whether any exists matters), then a draw *)
AVU(c, draw) ==
  /\ cl[c].pc = "avU"
  /\ Set(c, [Done(c, [kind |-> "ok", ver |-> cl[c].new,
                      pay |-> IF snaps = {} \/ draw < 2 THEN "high"
                              ELSE IF draw < 25 THEN "low" ELSE "none"])
               EXCEPT !.req = Req("list", <<"s", 0, 0>>)])
  /\ UNCHANGED <<latest, vers, pay, old, snaps, spay, nextId, base, acked, bad>>

-----------------------------------------------------------------------------
(* cleanup (the tail of a successful add_version; errors are ignored)       *)
Orphans(L, l) ==
  LET W == Walk(L, l)
      anc == {e[1] : e \in W}                  \* strict ancestors of l
  IN IF "GC1" \in Dev
     THEN {e \in L : e \notin W /\ (l = NoLatest \/ e[1] # l)}
     ELSE {e \in L : e \notin W /\ e[1] \in anc}

CLL(c) ==   \* get latest
  /\ cl[c].pc = "clL"
  /\ Set(c, [cl[c] EXCEPT !.l = latest, !.req = Req("get", LName),
               !.pc = IF "GC1" \in Dev THEN "clD" ELSE "clV",
               !.dels = IF "GC1" \in Dev THEN Orphans(cl[c].L, latest) ELSE {}])
  /\ UNCHANGED <<latest, vers, pay, old, snaps, spay, nextId, base, acked, bad>>

CLV(c) ==   \* list v-
  /\ cl[c].pc = "clV"
  /\ Set(c, [cl[c] EXCEPT !.L = vers, !.oldL = old \cap {e[2] : e \in vers},
               !.req = Req("list", <<"vall", 0, 0>>),
               !.pc = IF "GC1" \in Dev THEN "clL" ELSE "clD",
               !.dels = IF "GC1" \in Dev THEN {} ELSE Orphans(vers, cl[c].l)])
  /\ UNCHANGED <<latest, vers, pay, old, snaps, spay, nextId, base, acked, bad>>

(* when nothing is left to delete the cleanup is over and add_version goes   *)
(* on to the urgency                                                       *)
CLFin(rec) == IF rec.pc = "clX" /\ rec.sdel = {} /\ rec.odel = <<>> THEN [rec EXCEPT !.pc = "avU"] ELSE rec

CLD(c, e) ==   \* del one orphan
  /\ cl[c].pc = "clD" /\ e \in cl[c].dels
  /\ vers' = vers \ {e}
  /\ Set(c, [cl[c] EXCEPT !.dels = @ \ {e}, !.req = Req("del", VName(e[1], e[2]))])
  /\ UNCHANGED <<latest, pay, old, snaps, spay, nextId, base, acked, bad>>

(* list s-; find the newest snapshot on the walk from the latest read;      *)
(* plan the deletion of the other snapshots and of old versions at or      *)
(* before it                                                               *)
CLS(c) ==
  /\ cl[c].pc = "clD" /\ cl[c].dels = {}
  /\ LET L == cl[c].L
         l == cl[c].l
         walk == IF l = NoLatest THEN <<>> ELSE WalkSeq(L, l, MaxVer + 1)
         nodes == IF l = NoLatest THEN <<>> ELSE <<l>> \o [i \in 1..Len(walk) |-> ParentIn(L, walk[i])]
         hits == {i \in DOMAIN nodes : nodes[i] \in snaps}
         ls == IF hits = {} THEN -1 ELSE nodes[CHOOSE i \in hits : \A j \in hits : i <= j]
         back == IF ls = -1 THEN <<>> ELSE WalkSeq(L, ls, MaxVer + 1)
         oldback == SelectSeq(back, LAMBDA v : v \in cl[c].oldL)
     IN IF ls = -1
        THEN Set(c, [cl[c] EXCEPT !.pc = "avU", !.req = Req("list", <<"s", 0, 0>>)])
        ELSE Set(c, CLFin([cl[c] EXCEPT !.pc = "clX", !.S = snaps, !.sdel = snaps \ {ls},
                              !.odel = oldback, !.req = Req("list", <<"s", 0, 0>>)]))
  /\ UNCHANGED <<latest, vers, pay, old, snaps, spay, nextId, base, acked, bad>>

CLXS(c, s) ==   \* del one redundant snapshot
  /\ cl[c].pc = "clX" /\ s \in cl[c].sdel
  /\ snaps' = snaps \ {s}
  /\ Set(c, CLFin([cl[c] EXCEPT !.sdel = @ \ {s}, !.req = Req("del", SName(s))]))
  /\ UNCHANGED <<latest, vers, pay, old, spay, nextId, base, acked, bad>>

CLXO(c) ==      \* del the next old version (walking back from the snapshot)
  /\ cl[c].pc = "clX" /\ cl[c].sdel = {} /\ cl[c].odel # <<>>
  /\ LET v == Head(cl[c].odel)
         p == ParentIn(cl[c].L, v)
     IN /\ vers' = vers \ {<<p, v>>}
        /\ Set(c, CLFin([cl[c] EXCEPT !.odel = Tail(@), !.req = Req("del", VName(p, v))]))
  /\ UNCHANGED <<latest, pay, old, snaps, spay, nextId, base, acked, bad>>

InCleanup(c) == cl[c].pc \in {"clL", "clV", "clD", "clX"}

(* a request of the cleanup failed (before or after its effect): the caller  *)
(* ignores the error and goes on to the urgency                             *)
CLAbort(c) ==
  /\ Faults /\ InCleanup(c)
  /\ Set(c, [cl[c] EXCEPT !.pc = "avU", !.req = Req("fail", LName)])
  /\ UNCHANGED <<latest, vers, pay, old, snaps, spay, nextId, base, acked, bad>>

-----------------------------------------------------------------------------
(* get_child_version(parent)                                               *)
GCCall(c, parent) ==
  /\ cl[c].pc = "idle"
  /\ Set(c, [Idle EXCEPT !.pc = "gc1", !.op = "get_child_version", !.parent = parent,
                         !.prob = cl[c].prob])
  /\ UNCHANGED <<latest, vers, pay, old, snaps, spay, nextId, base, acked, bad>>

GC1(c) ==   \* list v-PARENT-
  /\ cl[c].pc = "gc1"
  /\ LET cs == {e[2] : e \in {x \in vers : x[1] = cl[c].parent}}
     IN Set(c, IF cs = {}
               THEN [Done(c, [kind |-> "none", ver |-> 0, pay |-> "-"])
                       EXCEPT !.req = Req("list", <<"v", cl[c].parent, 0>>)]
               ELSE [cl[c] EXCEPT !.pc = "gc2", !.cands = cs, !.prob = 255,
                       !.req = Req("list", <<"v", cl[c].parent, 0>>)])
  /\ UNCHANGED <<latest, vers, pay, old, snaps, spay, nextId, base, acked, bad>>

GC2(c) ==   \* get latest
  /\ cl[c].pc = "gc2"
  /\ Set(c, IF latest \in cl[c].cands
            THEN [cl[c] EXCEPT !.pc = "gc4", !.chosen = latest, !.req = Req("get", LName)]
            ELSE [cl[c] EXCEPT !.pc = "gc3", !.todo = cl[c].cands, !.chosen = -1,
                    !.req = Req("get", LName)])
  /\ UNCHANGED <<latest, vers, pay, old, snaps, spay, nextId, base, acked, bad>>

GC3(c, k) ==   \* list v-K- for one candidate: does it have children?
  /\ cl[c].pc = "gc3" /\ k \in cl[c].todo
  /\ LET ch == IF \E e \in vers : e[1] = k THEN k ELSE cl[c].chosen
         rest == cl[c].todo \ {k}
     IN Set(c, IF rest # {}
               THEN [cl[c] EXCEPT !.todo = rest, !.chosen = ch, !.req = Req("list", <<"v", k, 0>>)]
               ELSE IF ch = -1
               THEN [Done(c, [kind |-> "none", ver |-> 0, pay |-> "-"])
                       EXCEPT !.req = Req("list", <<"v", k, 0>>)]
               ELSE [cl[c] EXCEPT !.todo = rest, !.chosen = ch, !.pc = "gc4",
                       !.req = Req("list", <<"v", k, 0>>)])
  /\ UNCHANGED <<latest, vers, pay, old, snaps, spay, nextId, base, acked, bad>>

GC4(c) ==   \* get v-PARENT-CHOSEN
  /\ cl[c].pc = "gc4"
  /\ LET e == <<cl[c].parent, cl[c].chosen>> IN
     IF e \in vers
     THEN /\ Set(c, [Done(c, [kind |-> "version", ver |-> cl[c].chosen, pay |-> pay[cl[c].chosen]])
                       EXCEPT !.req = Req("get", VName(e[1], e[2]))])
          /\ base' = [base EXCEPT ![c] = cl[c].chosen]
          /\ bad' = (bad \/ e \notin acked)
     ELSE /\ Set(c, [Done(c, [kind |-> "none", ver |-> 0, pay |-> "-"])
                       EXCEPT !.req = Req("get", VName(e[1], e[2]))])
          /\ UNCHANGED <<base, bad>>
  /\ UNCHANGED <<latest, vers, pay, old, snaps, spay, nextId, acked>>

-----------------------------------------------------------------------------
(* add_snapshot(version, body) and get_snapshot                             *)
ASCall(c, v, body) ==
  /\ cl[c].pc = "idle" /\ v >= 1
  /\ Set(c, [Idle EXCEPT !.pc = "as1", !.op = "add_snapshot", !.parent = v, !.body = body,
                         !.prob = cl[c].prob])
  /\ UNCHANGED <<latest, vers, pay, old, snaps, spay, nextId, base, acked, bad>>

AS1(c) ==   \* put s-VERSION
  /\ cl[c].pc = "as1"
  /\ snaps' = snaps \cup {cl[c].parent}
  /\ spay' = [spay EXCEPT ![cl[c].parent] = cl[c].body]
  /\ Set(c, [Done(c, [kind |-> "ok", ver |-> cl[c].parent, pay |-> "-"])
               EXCEPT !.req = Req("put", SName(cl[c].parent))])
  /\ UNCHANGED <<latest, vers, pay, old, nextId, base, acked, bad>>

GSCall(c) ==
  /\ cl[c].pc = "idle"
  /\ Set(c, [Idle EXCEPT !.pc = "gs1", !.op = "get_snapshot", !.prob = cl[c].prob])
  /\ UNCHANGED <<latest, vers, pay, old, snaps, spay, nextId, base, acked, bad>>

GS1(c, s) ==   \* list s-: the first snapshot found (any one: listing order is by name)
  /\ cl[c].pc = "gs1"
  /\ IF snaps = {}
     THEN /\ s = 0
          /\ Set(c, [Done(c, [kind |-> "nosnap", ver |-> 0, pay |-> "-"])
                       EXCEPT !.req = Req("list", <<"s", 0, 0>>)])
     ELSE /\ s \in snaps
          /\ Set(c, [cl[c] EXCEPT !.pc = "gs2", !.chosen = s, !.req = Req("list", <<"s", 0, 0>>)])
  /\ UNCHANGED <<latest, vers, pay, old, snaps, spay, nextId, base, acked, bad>>

GS2(c) ==   \* get s-CHOSEN
  /\ cl[c].pc = "gs2"
  /\ Set(c, IF cl[c].chosen \in snaps
            THEN [Done(c, [kind |-> "snapshot", ver |-> cl[c].chosen, pay |-> spay[cl[c].chosen]])
                    EXCEPT !.req = Req("get", SName(cl[c].chosen))]
            ELSE [Done(c, [kind |-> "nosnap", ver |-> 0, pay |-> "-"])
                    EXCEPT !.req = Req("get", SName(cl[c].chosen))])
  /\ UNCHANGED <<latest, vers, pay, old, snaps, spay, nextId, base, acked, bad>>

-----------------------------------------------------------------------------
(* Faults outside cleanup: a request fails before its effect, or after it;  *)
(* the operation returns an error to its caller.                           *)
Fail(c) == [Done(c, [kind |-> "error", ver |-> 0, pay |-> "-"]) EXCEPT !.req = Req("fail", LName)]

FailBefore(c) ==
  /\ Faults /\ cl[c].pc \notin {"idle"} /\ ~InCleanup(c)
  /\ Set(c, Fail(c))
  \* the id of the new version has been invented (and named in the failed request)
  /\ nextId' = IF cl[c].pc = "av2" THEN nextId + 1 ELSE nextId
  /\ (cl[c].pc = "av2" => nextId <= MaxVer)
  /\ UNCHANGED <<latest, vers, pay, old, snaps, spay, base, acked, bad>>

(* effect-then-error for the three writing requests of add_version /        *)
(* add_snapshot                                                            *)
FailAfterPut(c) ==
  /\ Faults /\ cl[c].pc = "av2" /\ nextId <= MaxVer
  /\ vers' = vers \cup {<<cl[c].parent, nextId>>}
  /\ pay' = [pay EXCEPT ![nextId] = cl[c].body]
  /\ nextId' = nextId + 1
  /\ Set(c, Fail(c))
  /\ UNCHANGED <<latest, old, snaps, spay, base, acked, bad>>

(* the swap happened but the client never learnt it: the version IS latest  *)
(* (and is what a later reader will be served) although nobody was told    *)
FailAfterCas(c) ==
  /\ Faults /\ cl[c].pc = "av3"
  /\ IF latest = cl[c].seen
     THEN latest' = cl[c].new /\ acked' = acked \cup {<<cl[c].parent, cl[c].new>>}
     ELSE UNCHANGED <<latest, acked>>
  /\ Set(c, Fail(c))
  /\ UNCHANGED <<vers, pay, old, snaps, spay, nextId, base, bad>>

FailAfterDel(c) ==
  /\ Faults /\ cl[c].pc = "av4"
  /\ vers' = vers \ {<<cl[c].parent, cl[c].new>>}
  /\ Set(c, Fail(c))
  /\ UNCHANGED <<latest, pay, old, snaps, spay, nextId, base, acked, bad>>

FailAfterSnap(c) ==
  /\ Faults /\ cl[c].pc = "as1"
  /\ snaps' = snaps \cup {cl[c].parent}
  /\ spay' = [spay EXCEPT ![cl[c].parent] = cl[c].body]
  /\ Set(c, Fail(c))
  /\ UNCHANGED <<latest, vers, pay, old, nextId, base, acked, bad>>

(* ageing: every version object present becomes older than the retention age *)
Age ==
  /\ old' = old \cup {e[2] : e \in vers} /\ old' # old
  /\ UNCHANGED <<latest, vers, pay, snaps, spay, nextId, cl, base, acked, bad>>

-----------------------------------------------------------------------------
(* Properties                                                               *)
TrueChain == Walk(acked, latest)
ChainNodes == {e[2] : e \in TrueChain}

(* C09: each parent has at most one accepted child *)
OneChildPerParent == \A e1, e2 \in acked : e1[1] = e2[1] => e1 = e2
(* C09: every accepted version stays on the chain reachable from latest *)
AckedOnChain == acked \subseteq TrueChain
(* C09: reads only return accepted versions (with the bytes submitted: pay is per object) *)
ReadsOnChain == ~bad

SnapsOnChain == snaps \cap ChainNodes
DepthT(v) == Depth(acked, v)
Covered(e) == \E s \in SnapsOnChain : DepthT(e[2]) <= DepthT(s)
(* C10: every accepted version is still retrievable unless it is both older  *)
(* than the retention age and covered by a retained snapshot on the chain   *)
RetainedComplete == \A e \in acked : e \in vers \/ (e[2] \in old /\ Covered(e))
(* C10: a fresh replica can reconstruct the latest state *)
FreshCanReconstruct ==
  \/ latest = NoLatest
  \/ TrueChain \subseteq vers
  \/ \E s \in SnapsOnChain : \A e \in TrueChain : DepthT(e[2]) > DepthT(s) => e \in vers
(* C10: a snapshot on the chain, once stored, is only removed when a newer   *)
(* one on the chain is retained -- checked as: if any snapshot on the chain  *)
(* was ever stored, one on the chain remains (see MCCloud everSnap)         *)
=============================================================================
