----------------------------- MODULE CloudStore -----------------------------
(***************************************************************************)
(* The object-store server (src/server/cloud/server.rs) at the grain of    *)
(* single object-store requests: get / put / del / compare-and-swap /      *)
(* list.  Several clients (CloudServer instances) share one object store.  *)
(*                                                                         *)
(* Objects: "latest" (id of the latest version), version objects           *)
(* <<parent, child>> ("v-PARENT-CHILD"), snapshot objects ("s-VERSION").   *)
(* Version ids are small integers in order of invention (0 = nil).         *)
(*                                                                         *)
(* Dev: "GC1" = the pinned cleanup order (list versions, then read         *)
(* latest; delete everything not on the walk whose parent is not latest).  *)
(* Dev = {} is the repaired cleanup: read latest first, delete only        *)
(* versions whose parent is a strict ancestor of that latest.              *)
(***************************************************************************)
EXTENDS Integers, Sequences, FiniteSets, TLC

CONSTANTS Clients,      \* strings
          MaxVer,       \* bound on invented version ids
          Dev,
          Faults,       \* TRUE: requests may fail before / after their effect
          PageSize      \* 0: a listing is one atomic request; n > 0: a listing is a sequence of
                        \* requests each returning the next n names (in name order) as they are then

Nil == 0
NoLatest == -1

VARIABLES latest,     \* content of the "latest" object: NoLatest or an id
          vers,       \* set of <<parent, child>> version objects present
          pay,        \* [id -> payload token] of the version object with that child id
          old,        \* child ids whose version object is older than the retention age
          snaps,      \* version ids that have a snapshot object
          spay,       \* [id -> payload token] of snapshot objects
          nextId,
          cl,         \* [Clients -> client record]
          base,       \* [Clients -> version the client considers its own]
          acked,      \* ghost: <<parent, child>> a client was told was accepted
          bad         \* ghost: a read returned a version that was never acked, or wrong bytes

vars == <<latest, vers, pay, old, snaps, spay, nextId, cl, base, acked, bad>>

NoRes == [kind |-> "-", ver |-> 0, pay |-> "-"]
Idle == [pc |-> "idle", op |-> "-", parent |-> 0, seen |-> NoLatest, new |-> 0, body |-> "-",
         cands |-> {}, todo |-> {}, chosen |-> -1,
         L |-> {}, l |-> NoLatest, oldL |-> {}, S |-> {}, dels |-> {}, sdel |-> {}, odel |-> <<>>,
         prob |-> 13, res |-> NoRes, req |-> <<"-", "-">>, rres |-> "-",
         lacc |-> {}, lold |-> {}, lafter |-> <<-1, -1>>, cand |-> -1]

Init ==
  /\ latest = NoLatest /\ vers = {} /\ pay = [i \in 1..MaxVer |-> "-"] /\ old = {}
  /\ snaps = {} /\ spay = [i \in 1..MaxVer |-> "-"] /\ nextId = 1
  /\ cl = [c \in Clients |-> Idle] /\ base = [c \in Clients |-> Nil]
  /\ acked = {} /\ bad = FALSE

-----------------------------------------------------------------------------
(* helpers over a listing L (a set of <<parent, child>>)                    *)
HasParentIn(L, c) == \E e \in L : e[2] = c
ParentIn(L, c) == (CHOOSE e \in L : e[2] = c)[1]
RECURSIVE WalkSet(_,_,_)
WalkSet(L, c, fuel) ==       \* edges on the walk back from c over L
  IF fuel = 0 \/ c < 1 \/ ~HasParentIn(L, c) THEN {}
  ELSE {<<ParentIn(L, c), c>>} \cup WalkSet(L, ParentIn(L, c), fuel - 1)
Walk(L, l) == IF l = NoLatest THEN {} ELSE WalkSet(L, l, MaxVer + 1)
RECURSIVE WalkSeq(_,_,_)     \* the same walk as a sequence of child ids, newest first
WalkSeq(L, c, fuel) ==
  IF fuel = 0 \/ c < 1 \/ ~HasParentIn(L, c) THEN <<>>
  ELSE <<c>> \o WalkSeq(L, ParentIn(L, c), fuel - 1)
Depth(L, c) == Cardinality(WalkSet(L, c, MaxVer + 1))

(* request descriptors, compared with the recorded requests in TraceCloud   *)
VName(p, c) == <<"v", p, c>>
SName(v) == <<"s", v, 0>>
LName == <<"latest", 0, 0>>
Req(op, name) == <<op, name>>

Set(c, rec) == cl' = [cl EXCEPT ![c] = rec]
Done(c, res) == [Idle EXCEPT !.prob = cl[c].prob, !.res = res]

(* Object names are ordered like the hexadecimal ids they contain; version ids   *)
(* are numbered in that order (traces are renumbered so by the harness), so the  *)
(* name order of v-P-C is the lexicographic order of <<P, C>> and of s-V that of *)
(* V.  A paged listing returns, per request, the next PageSize names after the   *)
(* last one returned, as they exist at that moment.                             *)
Less(a, b) == a[1] < b[1] \/ (a[1] = b[1] /\ a[2] < b[2])
RECURSIVE TakeMin(_,_)
TakeMin(S, k) ==
  IF k = 0 \/ S = {} THEN {}
  ELSE LET m == CHOOSE x \in S : \A y \in S : x = y \/ Less(x, y)
       IN {m} \cup TakeMin(S \ {m}, k - 1)
MaxKey(S) == CHOOSE x \in S : \A y \in S : x = y \/ Less(y, x)
Unused(n) == n \in 1..MaxVer /\ pay[n] = "-"
NoList(rec) == [rec EXCEPT !.lacc = {}, !.lold = {}, !.lafter = <<-1, -1>>]

-----------------------------------------------------------------------------
(* add_version(parent, body)                                               *)
AVCall(c, parent, body) ==
  /\ cl[c].pc = "idle"
  /\ Set(c, [Idle EXCEPT !.pc = "av1", !.op = "add_version", !.parent = parent, !.body = body,
                         !.prob = cl[c].prob])
  /\ UNCHANGED <<latest, vers, pay, old, snaps, spay, nextId, base, acked, bad>>

AV1(c) ==   \* get latest
  /\ cl[c].pc = "av1"
  /\ IF latest # NoLatest /\ latest # cl[c].parent
     THEN Set(c, [Done(c, [kind |-> "expected", ver |-> latest, pay |-> "-"])
                    EXCEPT !.req = Req("get", LName)])
     ELSE Set(c, [cl[c] EXCEPT !.pc = "av2", !.seen = latest, !.req = Req("get", LName)])
  /\ UNCHANGED <<latest, vers, pay, old, snaps, spay, nextId, base, acked, bad>>

AV2(c, n) ==   \* put v-PARENT-NEW (n: the id invented for the new version)
  /\ cl[c].pc = "av2" /\ nextId <= MaxVer /\ Unused(n)
  /\ vers' = vers \cup {<<cl[c].parent, n>>}
  /\ pay' = [pay EXCEPT ![n] = cl[c].body]
  /\ nextId' = nextId + 1
  /\ Set(c, [cl[c] EXCEPT !.pc = "av3", !.new = n, !.req = Req("put", VName(cl[c].parent, n))])
  /\ UNCHANGED <<latest, old, snaps, spay, base, acked, bad>>

(* ids: with atomic listings their order is immaterial and the next number is   *)
(* used; with paged listings every relative name order is explored              *)
NewIds == IF PageSize = 0 THEN {nextId} \cap (1..MaxVer) ELSE {n \in 1..MaxVer : pay[n] = "-"}

(* compare-and-swap of "latest"; draw = the random byte drawn by           *)
(* maybe_cleanup right afterwards (cleanup runs iff draw < prob)           *)
AV3(c, draw) ==
  /\ cl[c].pc = "av3"
  /\ IF latest = cl[c].seen
     THEN /\ latest' = cl[c].new
          /\ acked' = acked \cup {<<cl[c].parent, cl[c].new>>}
          /\ base' = [base EXCEPT ![c] = cl[c].new]
          /\ Set(c, [cl[c] EXCEPT !.req = Req("cas", LName), !.rres = "swapped",
                       !.prob = IF draw < cl[c].prob THEN 13 ELSE cl[c].prob,
                       !.pc = IF draw < cl[c].prob
                              THEN (IF "GC1" \in Dev THEN "clV" ELSE "clL") ELSE "avU"])
     ELSE /\ Set(c, [cl[c] EXCEPT !.pc = "av4", !.req = Req("cas", LName), !.rres = "lost"])
          /\ UNCHANGED <<latest, acked, base>>
  /\ UNCHANGED <<vers, pay, old, snaps, spay, nextId, bad>>

AV4(c) ==   \* lost the race: delete the own version object
  /\ cl[c].pc = "av4"
  /\ vers' = vers \ {<<cl[c].parent, cl[c].new>>}
  /\ Set(c, [cl[c] EXCEPT !.pc = "av5", !.req = Req("del", VName(cl[c].parent, cl[c].new))])
  /\ UNCHANGED <<latest, pay, old, snaps, spay, nextId, base, acked, bad>>

AV5(c) ==   \* get latest again, to name it in the rejection
  /\ cl[c].pc = "av5"
  /\ Set(c, [Done(c, [kind |-> "expected", ver |-> IF latest = NoLatest THEN Nil ELSE latest,
                      pay |-> "-"]) EXCEPT !.req = Req("get", LName)])
  /\ UNCHANGED <<latest, vers, pay, old, snaps, spay, nextId, base, acked, bad>>

(* snapshot_urgency: list s- (only whether any exists matters), then a draw *)
AVU(c, draw) ==
  /\ cl[c].pc = "avU"
  /\ Set(c, [Done(c, [kind |-> "ok", ver |-> cl[c].new,
                      pay |-> IF snaps = {} \/ draw < 2 THEN "high"
                              ELSE IF draw < 25 THEN "low" ELSE "none"])
               EXCEPT !.req = Req("list", <<"s", 0, 0>>)])
  /\ UNCHANGED <<latest, vers, pay, old, snaps, spay, nextId, base, acked, bad>>

-----------------------------------------------------------------------------
(* cleanup (the tail of a successful add_version; errors are ignored)       *)
Orphans(L, l) ==
  LET W == Walk(L, l)
      anc == {e[1] : e \in W}                  \* strict ancestors of l
  IN IF "GC1" \in Dev
     THEN {e \in L : e \notin W /\ (l = NoLatest \/ e[1] # l)}
     ELSE {e \in L : e \notin W /\ e[1] \in anc}

CLL(c) ==   \* get latest
  /\ cl[c].pc = "clL"
  /\ Set(c, [cl[c] EXCEPT !.l = latest, !.req = Req("get", LName),
               !.pc = IF "GC1" \in Dev THEN "clD" ELSE "clV",
               !.dels = IF "GC1" \in Dev THEN Orphans(cl[c].L, latest) ELSE {}])
  /\ UNCHANGED <<latest, vers, pay, old, snaps, spay, nextId, base, acked, bad>>

CLVWith(c, L, Lold) ==   \* the listing of all version objects has returned L (Lold: the old ones)
  /\ Set(c, NoList([cl[c] EXCEPT !.L = L, !.oldL = Lold,
               !.req = Req("list", <<"vall", 0, 0>>),
               !.pc = IF "GC1" \in Dev THEN "clL" ELSE "clD",
               !.dels = IF "GC1" \in Dev THEN {} ELSE Orphans(L, cl[c].l)]))
  /\ UNCHANGED <<latest, vers, pay, old, snaps, spay, nextId, base, acked, bad>>

CLV(c) == cl[c].pc = "clV" /\ PageSize = 0 /\ CLVWith(c, vers, old \cap {e[2] : e \in vers})

(* when nothing is left to delete the cleanup is over and add_version goes   *)
(* on to the urgency                                                       *)
CLFin(rec) == IF rec.pc = "clX" /\ rec.sdel = {} /\ rec.odel = <<>> THEN [rec EXCEPT !.pc = "avU"] ELSE rec

CLD(c, e) ==   \* del one orphan
  /\ cl[c].pc = "clD" /\ e \in cl[c].dels
  /\ vers' = vers \ {e}
  /\ Set(c, [cl[c] EXCEPT !.dels = @ \ {e}, !.req = Req("del", VName(e[1], e[2]))])
  /\ UNCHANGED <<latest, pay, old, snaps, spay, nextId, base, acked, bad>>

(* list s-; find the newest snapshot on the walk from the latest read;      *)
(* plan the deletion of the other snapshots and of old versions at or      *)
(* before it                                                               *)
CLSWith(c, S) ==    \* the listing of the snapshot objects has returned S
  /\ LET L == cl[c].L
         l == cl[c].l
         walk == IF l = NoLatest THEN <<>> ELSE WalkSeq(L, l, MaxVer + 1)
         nodes == IF l = NoLatest THEN <<>> ELSE <<l>> \o [i \in 1..Len(walk) |-> ParentIn(L, walk[i])]
         hits == {i \in DOMAIN nodes : nodes[i] \in S}
         ls == IF hits = {} THEN -1 ELSE nodes[CHOOSE i \in hits : \A j \in hits : i <= j]
         back == IF ls = -1 THEN <<>> ELSE WalkSeq(L, ls, MaxVer + 1)
         oldback == SelectSeq(back, LAMBDA v : v \in cl[c].oldL)
         \* the snapshots to delete: those of versions before ls on the chain and of the orphans
         \* just deleted; a snapshot of a version this cleanup does not know may be NEWER than
         \* ls (added after latest was read) and stays.  Dev "SNAPALL": every other snapshot
         \* (the pinned rule: two overlapping cleanups can delete each other's retained one)
         anc == IF l = NoLatest THEN {} ELSE {e[1] : e \in Walk(L, l)}
         dead == IF l = NoLatest THEN {} ELSE {e[2] : e \in Orphans(L, l)}
         redundant == IF "SNAPALL" \in Dev THEN S \ {ls} ELSE (S \cap (anc \cup dead)) \ {ls}
     IN IF ls = -1
        THEN Set(c, NoList([cl[c] EXCEPT !.pc = "avU", !.req = Req("list", <<"s", 0, 0>>)]))
        ELSE Set(c, NoList(CLFin([cl[c] EXCEPT !.pc = "clX", !.S = S, !.sdel = redundant,
                                     !.odel = oldback, !.req = Req("list", <<"s", 0, 0>>)])))
  /\ UNCHANGED <<latest, vers, pay, old, snaps, spay, nextId, base, acked, bad>>

CLS(c) == cl[c].pc = "clD" /\ cl[c].dels = {} /\ PageSize = 0 /\ CLSWith(c, snaps)

CLXS(c, s) ==   \* del one redundant snapshot
  /\ cl[c].pc = "clX" /\ s \in cl[c].sdel
  /\ snaps' = snaps \ {s}
  /\ Set(c, CLFin([cl[c] EXCEPT !.sdel = @ \ {s}, !.req = Req("del", SName(s))]))
  /\ UNCHANGED <<latest, vers, pay, old, spay, nextId, base, acked, bad>>

CLXO(c) ==      \* del the next old version (walking back from the snapshot)
  /\ cl[c].pc = "clX" /\ cl[c].sdel = {} /\ cl[c].odel # <<>>
  /\ LET v == Head(cl[c].odel)
         p == ParentIn(cl[c].L, v)
     IN /\ vers' = vers \ {<<p, v>>}
        /\ Set(c, CLFin([cl[c] EXCEPT !.odel = Tail(@), !.req = Req("del", VName(p, v))]))
  /\ UNCHANGED <<latest, pay, old, snaps, spay, nextId, base, acked, bad>>

InCleanup(c) == cl[c].pc \in {"clL", "clV", "clD", "clX"}

(* a request of the cleanup failed (before or after its effect): the caller  *)
(* ignores the error and goes on to the urgency                             *)
CLAbort(c) ==
  /\ Faults /\ InCleanup(c)
  /\ Set(c, [cl[c] EXCEPT !.pc = "avU", !.req = Req("fail", LName)])
  /\ UNCHANGED <<latest, vers, pay, old, snaps, spay, nextId, base, acked, bad>>

(* a deletion of the cleanup took effect but reported an error: the cleanup   *)
(* stops there (one recorded request = one step)                             *)
AbortRec(c) == [cl[c] EXCEPT !.pc = "avU", !.req = Req("fail", LName)]
CLDThenAbort(c, e) ==
  /\ Faults /\ cl[c].pc = "clD" /\ e \in cl[c].dels
  /\ vers' = vers \ {e} /\ Set(c, AbortRec(c))
  /\ UNCHANGED <<latest, pay, old, snaps, spay, nextId, base, acked, bad>>
CLXSThenAbort(c, x) ==
  /\ Faults /\ cl[c].pc = "clX" /\ x \in cl[c].sdel
  /\ snaps' = snaps \ {x} /\ Set(c, AbortRec(c))
  /\ UNCHANGED <<latest, vers, pay, old, spay, nextId, base, acked, bad>>
CLXOThenAbort(c) ==
  /\ Faults /\ cl[c].pc = "clX" /\ cl[c].sdel = {} /\ cl[c].odel # <<>>
  /\ vers' = vers \ {<<ParentIn(cl[c].L, Head(cl[c].odel)), Head(cl[c].odel)>>}
  /\ Set(c, AbortRec(c))
  /\ UNCHANGED <<latest, pay, old, snaps, spay, nextId, base, acked, bad>>

-----------------------------------------------------------------------------
(* get_child_version(parent)                                               *)
GCCall(c, parent) ==
  /\ cl[c].pc = "idle"
  /\ Set(c, [Idle EXCEPT !.pc = "gc1", !.op = "get_child_version", !.parent = parent,
                         !.prob = cl[c].prob])
  /\ UNCHANGED <<latest, vers, pay, old, snaps, spay, nextId, base, acked, bad>>

GC1With(c, cs) ==   \* the listing of v-PARENT- has returned the children cs
  /\ Set(c, NoList(IF cs = {}
               THEN [Done(c, [kind |-> "none", ver |-> 0, pay |-> "-"])
                       EXCEPT !.req = Req("list", <<"v", cl[c].parent, 0>>)]
               ELSE [cl[c] EXCEPT !.pc = "gc2", !.cands = cs, !.prob = 255,
                       !.req = Req("list", <<"v", cl[c].parent, 0>>)]))
  /\ UNCHANGED <<latest, vers, pay, old, snaps, spay, nextId, base, acked, bad>>

GC1(c) == cl[c].pc = "gc1" /\ PageSize = 0
          /\ GC1With(c, {e[2] : e \in {x \in vers : x[1] = cl[c].parent}})

GC2(c) ==   \* get latest
  /\ cl[c].pc = "gc2"
  /\ Set(c, IF latest \in cl[c].cands
            THEN [cl[c] EXCEPT !.pc = "gc4", !.chosen = latest, !.req = Req("get", LName)]
            ELSE [cl[c] EXCEPT !.pc = "gc3", !.todo = cl[c].cands, !.chosen = -1,
                    !.req = Req("get", LName)])
  /\ UNCHANGED <<latest, vers, pay, old, snaps, spay, nextId, base, acked, bad>>

GC3With(c, k, has) ==   \* the listing of v-K- for candidate k is over: has it children?
  /\ k \in cl[c].todo
  /\ LET ch == IF has THEN k ELSE cl[c].chosen
         rest == cl[c].todo \ {k}
     IN Set(c, NoList(IF rest # {}
               THEN [cl[c] EXCEPT !.todo = rest, !.chosen = ch, !.cand = -1,
                       !.req = Req("list", <<"v", k, 0>>)]
               ELSE IF ch = -1
               THEN [Done(c, [kind |-> "none", ver |-> 0, pay |-> "-"])
                       EXCEPT !.req = Req("list", <<"v", k, 0>>)]
               ELSE [cl[c] EXCEPT !.todo = rest, !.chosen = ch, !.cand = -1, !.pc = "gc4",
                       !.req = Req("list", <<"v", k, 0>>)]))
  /\ UNCHANGED <<latest, vers, pay, old, snaps, spay, nextId, base, acked, bad>>

GC3(c, k) == cl[c].pc = "gc3" /\ PageSize = 0 /\ GC3With(c, k, \E e \in vers : e[1] = k)

-----------------------------------------------------------------------------
(* Paged listings (PageSize > 0): one request per page.                       *)
ListPc(c) == cl[c].pc \in {"gc1", "gc3", "clV"} \/ (cl[c].pc = "clD" /\ cl[c].dels = {})
(* the candidate being probed at gc3: candidates are probed in name order *)
Cand(c) == IF cl[c].cand # -1 THEN cl[c].cand
           ELSE CHOOSE k \in cl[c].todo : \A j \in cl[c].todo : k <= j
LTarget(c) ==
  CASE cl[c].pc = "gc1" -> {e \in vers : e[1] = cl[c].parent}
    [] cl[c].pc = "gc3" -> {e \in vers : e[1] = Cand(c)}
    [] cl[c].pc = "clV" -> vers
    [] OTHER -> {<<x, 0>> : x \in snaps}
LReqName(c) ==
  CASE cl[c].pc = "gc1" -> <<"v", cl[c].parent, 0>>
    [] cl[c].pc = "gc3" -> <<"v", Cand(c), 0>>
    [] cl[c].pc = "clV" -> <<"vall", 0, 0>>
    [] OTHER -> <<"s", 0, 0>>
LPage(c) == TakeMin({n \in LTarget(c) : Less(cl[c].lafter, n)}, PageSize)

ListStep(c) ==
  /\ PageSize > 0 /\ ListPc(c)
  /\ LET page == LPage(c)
         acc == cl[c].lacc \cup page
         accold == cl[c].lold \cup {n[2] : n \in {m \in page : m[2] \in old}}
     IN IF Cardinality(page) < PageSize
        THEN \* the listing is complete: the operation goes on with what it has been given
             CASE cl[c].pc = "gc1" -> GC1With(c, {e[2] : e \in acc})
               [] cl[c].pc = "gc3" -> GC3With(c, Cand(c), acc # {})
               [] cl[c].pc = "clV" -> CLVWith(c, acc, accold)
               [] OTHER -> CLSWith(c, {n[1] : n \in acc})
        ELSE /\ Set(c, [cl[c] EXCEPT !.lacc = acc, !.lold = accold, !.lafter = MaxKey(page),
                          !.cand = IF cl[c].pc = "gc3" THEN Cand(c) ELSE -1,
                          !.req = Req("list", LReqName(c))])
             /\ UNCHANGED <<latest, vers, pay, old, snaps, spay, nextId, base, acked, bad>>

GC4(c) ==   \* get v-PARENT-CHOSEN
  /\ cl[c].pc = "gc4"
  /\ LET e == <<cl[c].parent, cl[c].chosen>> IN
     IF e \in vers
     THEN /\ Set(c, [Done(c, [kind |-> "version", ver |-> cl[c].chosen, pay |-> pay[cl[c].chosen]])
                       EXCEPT !.req = Req("get", VName(e[1], e[2]))])
          /\ base' = [base EXCEPT ![c] = cl[c].chosen]
          /\ bad' = (bad \/ e \notin acked)
     ELSE /\ Set(c, [Done(c, [kind |-> "none", ver |-> 0, pay |-> "-"])
                       EXCEPT !.req = Req("get", VName(e[1], e[2]))])
          /\ UNCHANGED <<base, bad>>
  /\ UNCHANGED <<latest, vers, pay, old, snaps, spay, nextId, acked>>

-----------------------------------------------------------------------------
(* add_snapshot(version, body) and get_snapshot                             *)
ASCall(c, v, body) ==
  /\ cl[c].pc = "idle" /\ v >= 1
  /\ Set(c, [Idle EXCEPT !.pc = "as1", !.op = "add_snapshot", !.parent = v, !.body = body,
                         !.prob = cl[c].prob])
  /\ UNCHANGED <<latest, vers, pay, old, snaps, spay, nextId, base, acked, bad>>

AS1(c) ==   \* put s-VERSION
  /\ cl[c].pc = "as1"
  /\ snaps' = snaps \cup {cl[c].parent}
  /\ spay' = [spay EXCEPT ![cl[c].parent] = cl[c].body]
  /\ Set(c, [Done(c, [kind |-> "ok", ver |-> cl[c].parent, pay |-> "-"])
               EXCEPT !.req = Req("put", SName(cl[c].parent))])
  /\ UNCHANGED <<latest, vers, pay, old, nextId, base, acked, bad>>

GSCall(c) ==
  /\ cl[c].pc = "idle"
  /\ Set(c, [Idle EXCEPT !.pc = "gs1", !.op = "get_snapshot", !.prob = cl[c].prob])
  /\ UNCHANGED <<latest, vers, pay, old, snaps, spay, nextId, base, acked, bad>>

GS1(c, s) ==   \* list s-: the first snapshot found (any one: listing order is by name)
  /\ cl[c].pc = "gs1"
  /\ IF snaps = {}
     THEN /\ s = 0
          /\ Set(c, [Done(c, [kind |-> "nosnap", ver |-> 0, pay |-> "-"])
                       EXCEPT !.req = Req("list", <<"s", 0, 0>>)])
     ELSE /\ s \in snaps
          /\ Set(c, [cl[c] EXCEPT !.pc = "gs2", !.chosen = s, !.req = Req("list", <<"s", 0, 0>>)])
  /\ UNCHANGED <<latest, vers, pay, old, snaps, spay, nextId, base, acked, bad>>

GS2(c) ==   \* get s-CHOSEN
  /\ cl[c].pc = "gs2"
  /\ Set(c, IF cl[c].chosen \in snaps
            THEN [Done(c, [kind |-> "snapshot", ver |-> cl[c].chosen, pay |-> spay[cl[c].chosen]])
                    EXCEPT !.req = Req("get", SName(cl[c].chosen))]
            ELSE [Done(c, [kind |-> "nosnap", ver |-> 0, pay |-> "-"])
                    EXCEPT !.req = Req("get", SName(cl[c].chosen))])
  /\ UNCHANGED <<latest, vers, pay, old, snaps, spay, nextId, base, acked, bad>>

-----------------------------------------------------------------------------
(* Faults outside cleanup: a request fails before its effect, or after it;  *)
(* the operation returns an error to its caller.                           *)
Fail(c) == [Done(c, [kind |-> "error", ver |-> 0, pay |-> "-"]) EXCEPT !.req = Req("fail", LName)]

FailBefore(c) ==
  /\ Faults /\ cl[c].pc \notin {"idle"} /\ ~InCleanup(c)
  /\ Set(c, Fail(c))
  \* the id of the new version has been invented (and named in the failed request)
  /\ IF cl[c].pc = "av2" THEN nextId <= MaxVer /\ nextId' = nextId + 1 ELSE UNCHANGED nextId
  /\ UNCHANGED <<latest, vers, pay, old, snaps, spay, base, acked, bad>>

(* effect-then-error for the three writing requests of add_version /        *)
(* add_snapshot                                                            *)
FailAfterPut(c, n) ==
  /\ Faults /\ cl[c].pc = "av2" /\ nextId <= MaxVer /\ Unused(n)
  /\ vers' = vers \cup {<<cl[c].parent, n>>}
  /\ pay' = [pay EXCEPT ![n] = cl[c].body]
  /\ nextId' = nextId + 1
  /\ Set(c, Fail(c))
  /\ UNCHANGED <<latest, old, snaps, spay, base, acked, bad>>

(* the swap happened but the client never learnt it: the version IS latest  *)
(* (and is what a later reader will be served) although nobody was told    *)
FailAfterCas(c) ==
  /\ Faults /\ cl[c].pc = "av3"
  /\ IF latest = cl[c].seen
     THEN latest' = cl[c].new /\ acked' = acked \cup {<<cl[c].parent, cl[c].new>>}
     ELSE UNCHANGED <<latest, acked>>
  /\ Set(c, Fail(c))
  /\ UNCHANGED <<vers, pay, old, snaps, spay, nextId, base, bad>>

FailAfterDel(c) ==
  /\ Faults /\ cl[c].pc = "av4"
  /\ vers' = vers \ {<<cl[c].parent, cl[c].new>>}
  /\ Set(c, Fail(c))
  /\ UNCHANGED <<latest, pay, old, snaps, spay, nextId, base, acked, bad>>

FailAfterSnap(c) ==
  /\ Faults /\ cl[c].pc = "as1"
  /\ snaps' = snaps \cup {cl[c].parent}
  /\ spay' = [spay EXCEPT ![cl[c].parent] = cl[c].body]
  /\ Set(c, Fail(c))
  /\ UNCHANGED <<latest, vers, pay, old, nextId, base, acked, bad>>

(* ageing: every version object present becomes older than the retention age *)
Age ==
  /\ old' = old \cup {e[2] : e \in vers} /\ old' # old
  /\ UNCHANGED <<latest, vers, pay, snaps, spay, nextId, cl, base, acked, bad>>

-----------------------------------------------------------------------------
(* Properties                                                               *)
TrueChain == Walk(acked, latest)
ChainNodes == {e[2] : e \in TrueChain}

(* C09: each parent has at most one accepted child *)
OneChildPerParent == \A e1, e2 \in acked : e1[1] = e2[1] => e1 = e2
(* C09: every accepted version stays on the chain reachable from latest *)
AckedOnChain == acked \subseteq TrueChain
(* C09: reads only return accepted versions (with the bytes submitted: pay is per object) *)
ReadsOnChain == ~bad

SnapsOnChain == snaps \cap ChainNodes
DepthT(v) == Depth(acked, v)
Covered(e) == \E s \in SnapsOnChain : DepthT(e[2]) <= DepthT(s)
(* C10: every accepted version is still retrievable unless it is both older  *)
(* than the retention age and covered by a retained snapshot on the chain   *)
RetainedComplete == \A e \in acked : e \in vers \/ (e[2] \in old /\ Covered(e))
(* C10: a fresh replica can reconstruct the latest state *)
FreshCanReconstruct ==
  \/ latest = NoLatest
  \/ TrueChain \subseteq vers
  \/ \E s \in SnapsOnChain : \A e \in TrueChain : DepthT(e[2]) > DepthT(s) => e \in vers
(* C10: "every version from a retained snapshot onward is still retrievable": for EVERY       *)
(* snapshot on the chain (get_snapshot serves whichever is listed first), also when a cleanup *)
(* stops after any of its deletions                                                          *)
RetainedSuffixAll ==
  \A s \in SnapsOnChain : \A e \in TrueChain : DepthT(e[2]) > DepthT(s) => e \in vers
(* C10: a snapshot on the chain, once stored, is only removed when a newer   *)
(* one on the chain is retained -- checked as: if any snapshot on the chain  *)
(* was ever stored, one on the chain remains (see MCCloud everSnap)         *)
=============================================================================
