//! Mapping between the specification's model values (string tokens) and concrete values
//! used with the real code, and JSON projection of the abstract state.
use chrono::{DateTime, TimeZone, Utc};
use serde_json::{json, Value};
use std::collections::{BTreeMap, HashMap};
use taskchampion::{Operation, Uuid};

pub const NOVAL: &str = "~";

/// How value tokens are turned into concrete strings.
#[derive(Clone, Debug)]
pub struct Model {
    /// value class: "ascii" | "unicode" | "empty"
    pub valclass: String,
    /// tokens mapped to a 600 kB string (two such updates exceed the 1 MB batch limit)
    pub big: Vec<String>,
    /// sub-second part given to every timestamp (0: whole seconds)
    pub nanos: u32,
    /// wall-clock time when this model was created (for "modified"-class tokens)
    pub now: i64,
    rev: HashMap<String, String>,
    interned: Vec<String>,
}

pub const TIME_BASE: i64 = 1_600_000_000;

impl Model {
    pub fn new(valclass: &str, big: &[String]) -> Self {
        Model {
            valclass: valclass.to_string(),
            big: big.to_vec(),
            nanos: 0,
            now: Utc::now().timestamp(),
            rev: HashMap::new(),
            interned: vec![],
        }
    }

    pub fn task(&self, tok: &str) -> Uuid {
        let n: u128 = tok.trim_start_matches('u').parse().expect("task token uN");
        Uuid::from_u128(0x7a5c_0000_0000_0000_0000_0000_0000_0000u128 + n)
    }

    pub fn task_tok(&self, u: Uuid) -> String {
        let n = u.as_u128();
        let base = 0x7a5c_0000_0000_0000_0000_0000_0000_0000u128;
        if n >= base && n < base + 100000 {
            format!("u{}", n - base)
        } else {
            format!("?{u}")
        }
    }

    pub fn time(&self, t: i64) -> DateTime<Utc> {
        Utc.timestamp_opt(TIME_BASE + t, self.nanos).unwrap()
    }

    pub fn time_tok(&self, t: &DateTime<Utc>) -> i64 {
        t.timestamp() - TIME_BASE
    }

    /// concrete string for a value token
    pub fn val(&mut self, tok: &str) -> String {
        // modification-time classes relative to the 180-day expiration threshold
        let day = 86400i64;
        let special = match tok {
            "mold" => Some((self.now - 200 * day).to_string()),
            "medge_old" => Some((self.now - 180 * day - 300).to_string()),
            "medge_new" => Some((self.now - 180 * day + 300).to_string()),
            "mrecent" => Some((self.now - 10 * day).to_string()),
            "mfuture" => Some((self.now + 400 * day).to_string()),
            "mbad" => Some("not-a-number".to_string()),
            "mempty" => Some(String::new()),
            "mhuge" => Some(i64::MAX.to_string()),
            "mneg" => Some(i64::MIN.to_string()),
            "mfloat" => Some(format!("{}.5", self.now - 200 * day)),
            _ => None,
        };
        if let Some(s) = special {
            self.rev.insert(s.clone(), tok.to_string());
            return s;
        }
        let s = if self.big.iter().any(|b| b == tok) {
            let mut s = String::with_capacity(600_010);
            s.push_str(tok);
            s.push(':');
            while s.len() < 600_000 {
                s.push_str("0123456789abcdef");
            }
            s
        } else {
            match self.valclass.as_str() {
                "unicode" => format!("{tok}\u{2713}\u{fc}\"\\\n\u{1f600}{tok}"),
                "status" | "ascii" | _ => tok.to_string(),
            }
        };
        self.rev.insert(s.clone(), tok.to_string());
        s
    }

    /// token for a concrete string (unknown strings are interned as "?n")
    pub fn val_tok(&mut self, s: &str) -> String {
        if let Some(t) = self.rev.get(s) {
            return t.clone();
        }
        if self.valclass == "ascii" && s.len() < 40 {
            return s.to_string();
        }
        if let Some(i) = self.interned.iter().position(|x| x == s) {
            return format!("?{i}");
        }
        self.interned.push(s.to_string());
        format!("?{}", self.interned.len() - 1)
    }

    /// Operation from the JSON form used in stimuli: {k,u,p,v,t,o} where o is either an object
    /// {prop: val-or-"~"} (from TLC) or an array of pairs.
    pub fn op_from_json(&mut self, j: &Value) -> Operation {
        let k = j["k"].as_str().unwrap();
        match k {
            "P" => Operation::UndoPoint,
            "C" => Operation::Create {
                uuid: self.task(j["u"].as_str().unwrap()),
            },
            "D" => {
                let mut old = HashMap::new();
                for (p, v) in pairs_of(&j["o"]) {
                    if v != NOVAL {
                        old.insert(p, self.val(&v));
                    }
                }
                Operation::Delete {
                    uuid: self.task(j["u"].as_str().unwrap()),
                    old_task: old,
                }
            }
            "U" => {
                let p = j["p"].as_str().unwrap().to_string();
                let v = j["v"].as_str().unwrap();
                let mut ov = None;
                for (pp, vv) in pairs_of(&j["o"]) {
                    if pp == p && vv != NOVAL {
                        ov = Some(self.val(&vv));
                    }
                }
                Operation::Update {
                    uuid: self.task(j["u"].as_str().unwrap()),
                    property: p,
                    value: if v == NOVAL { None } else { Some(self.val(v)) },
                    old_value: ov,
                    timestamp: self.time(j["t"].as_i64().unwrap()),
                }
            }
            _ => panic!("bad op kind {k}"),
        }
    }

    /// JSON (trace) form of a local operation: o as array of pairs
    pub fn op_to_json(&mut self, op: &Operation) -> Value {
        match op {
            Operation::UndoPoint => json!({"k":"P","u":"-","p":"-","v":"-","t":0,"o":[]}),
            Operation::Create { uuid } => {
                json!({"k":"C","u":self.task_tok(*uuid),"p":"-","v":"-","t":0,"o":[]})
            }
            Operation::Delete { uuid, old_task } => {
                let mut o: Vec<(String, String)> = old_task
                    .iter()
                    .map(|(p, v)| (p.clone(), self.val_tok(v)))
                    .collect();
                o.sort();
                json!({"k":"D","u":self.task_tok(*uuid),"p":"-","v":"-","t":0,"o":o})
            }
            Operation::Update {
                uuid,
                property,
                value,
                old_value,
                timestamp,
            } => {
                let o: Vec<(String, String)> = match old_value {
                    Some(ov) => vec![(property.clone(), self.val_tok(ov))],
                    None => vec![],
                };
                json!({"k":"U","u":self.task_tok(*uuid),"p":property,
                       "v": match value { Some(v) => self.val_tok(v), None => NOVAL.to_string() },
                       "t": self.time_tok(timestamp), "o": o})
            }
        }
    }

    /// JSON (trace) form of one operation of a version as found on the wire, parsed as generic
    /// JSON (not with the crate's types).  Returns None if the document does not have the
    /// documented shape; `extra` reports undocumented fields.
    pub fn wire_op_to_json(&mut self, w: &Value) -> Result<Value, String> {
        let obj = w.as_object().ok_or("operation is not an object")?;
        if obj.len() != 1 {
            return Err(format!("operation has {} variant keys", obj.len()));
        }
        let (kind, body) = obj.iter().next().unwrap();
        let body = body.as_object().ok_or("operation body is not an object")?;
        let uuid = body
            .get("uuid")
            .and_then(|u| u.as_str())
            .ok_or("missing uuid")?;
        let u = Uuid::parse_str(uuid).map_err(|e| e.to_string())?;
        match kind.as_str() {
            "Create" | "Delete" => {
                if body.len() != 1 {
                    return Err(format!("{kind} has undocumented fields: {:?}", body.keys()));
                }
                let k = if kind == "Create" { "C" } else { "D" };
                Ok(json!({"k":k,"u":self.task_tok(u),"p":"-","v":"-","t":0,"o":[]}))
            }
            "Update" => {
                let mut keys: Vec<&String> = body.keys().collect();
                keys.sort();
                if keys != ["property", "timestamp", "uuid", "value"] {
                    return Err(format!("Update has fields {keys:?}"));
                }
                let p = body["property"].as_str().ok_or("property not a string")?;
                let v = match &body["value"] {
                    Value::Null => NOVAL.to_string(),
                    Value::String(s) => self.val_tok(s),
                    _ => return Err("value neither string nor null".into()),
                };
                let ts = body["timestamp"].as_str().ok_or("timestamp not a string")?;
                if !ts.ends_with('Z') {
                    return Err(format!("timestamp {ts} is not in RFC 3339 UTC 'Z' form"));
                }
                let dt = DateTime::parse_from_rfc3339(ts).map_err(|e| format!("{ts}: {e}"))?;
                let t = dt.timestamp() - TIME_BASE;
                Ok(json!({"k":"U","u":self.task_tok(u),"p":p,"v":v,"t":t,"o":[]}))
            }
            other => Err(format!("undocumented operation kind {other}")),
        }
    }
}

fn pairs_of(o: &Value) -> Vec<(String, String)> {
    match o {
        Value::Object(m) => m
            .iter()
            .map(|(k, v)| (k.clone(), v.as_str().unwrap_or(NOVAL).to_string()))
            .collect(),
        Value::Array(a) => a
            .iter()
            .map(|e| {
                (
                    e[0].as_str().unwrap().to_string(),
                    e[1].as_str().unwrap().to_string(),
                )
            })
            .collect(),
        _ => vec![],
    }
}

/// The projected abstract state of one replica as read from its storage.
#[derive(Clone, Debug, PartialEq)]
pub struct DbState {
    pub tasks: BTreeMap<Uuid, BTreeMap<String, String>>,
    pub ops: Vec<Operation>,
    pub base: Uuid,
    pub ws: Vec<Option<Uuid>>,
}

impl DbState {
    pub fn empty() -> Self {
        DbState {
            tasks: BTreeMap::new(),
            ops: vec![],
            base: Uuid::nil(),
            ws: vec![None],
        }
    }
}

pub fn tasks_to_json(m: &mut Model, tasks: &BTreeMap<Uuid, BTreeMap<String, String>>) -> Value {
    let mut out = vec![];
    for (u, t) in tasks {
        let pv: Vec<Value> = t.iter().map(|(p, v)| json!([p, m.val_tok(v)])).collect();
        out.push(json!([m.task_tok(*u), pv]));
    }
    Value::Array(out)
}

/// version id -> chain position (0 = nil, -1 = unknown)
pub fn ver_index(ids: &[Uuid], v: Uuid) -> i64 {
    if v.is_nil() {
        0
    } else {
        ids.iter().position(|x| *x == v).map(|i| i as i64 + 1).unwrap_or(-1)
    }
}

pub fn db_to_json(m: &mut Model, ids: &[Uuid], d: &DbState) -> Value {
    let ops: Vec<Value> = d.ops.iter().map(|o| m.op_to_json(o)).collect();
    // position 0 of the working set must be empty; it is reported separately
    let ws: Vec<String> = d
        .ws
        .iter()
        .skip(1)
        .map(|e| match e {
            Some(u) => m.task_tok(*u),
            None => NOVAL.to_string(),
        })
        .collect();
    json!({
        "tasks": tasks_to_json(m, &d.tasks),
        "ops": ops,
        "base": ver_index(ids, d.base),
        "ws": ws,
        "ws0": d.ws.first().map(|e| e.is_none()).unwrap_or(false),
    })
}
