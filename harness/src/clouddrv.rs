//! Replays TLC-generated interleavings of object-store requests on real `CloudServer` instances
//! sharing one in-memory object store (hook H1), one request at a time, and records the trace.
use async_trait::async_trait;
use serde_json::{json, Value};
use std::collections::HashMap;
use std::io::{BufRead, Write};
use taskchampion::server::verif::{
    cloud_server, cloud_server_new, empty_store, init_store, set_next_draw, Fault, Gate,
    SharedStore,
};
use taskchampion::server::{AddVersionResult, GetVersionResult, Server, SnapshotUrgency};
use taskchampion::Uuid;
use tokio::sync::mpsc::{unbounded_channel, UnboundedReceiver as Rx, UnboundedSender as Tx};
use tokio::sync::oneshot;

enum Msg {
    Request(Value),
    Reply(Value),
    Finished(Value),
}

struct ChanGate {
    idx: usize,
    tx: Tx<(usize, Msg)>,
    grant: Rx<Fault>,
}

#[async_trait]
impl Gate for ChanGate {
    async fn request(&mut self, _client: usize, req: Value) -> Fault {
        self.tx.send((self.idx, Msg::Request(req))).unwrap();
        self.grant.recv().await.expect("scheduler gone")
    }
    fn reply(&mut self, _client: usize, res: Value) {
        self.tx.send((self.idx, Msg::Reply(res))).unwrap();
    }
}

struct Client {
    name: String,
    srv: Option<Box<dyn Server>>,
    grant: Tx<Fault>,
    base: Uuid,
    nops: usize,
    running: bool,
    pending: Option<Value>,
    back: Option<oneshot::Receiver<Box<dyn Server>>>,
}

struct Ids {
    map: HashMap<String, i64>,
    next: i64,
}

impl Ids {
    fn id(&mut self, hex: &str) -> i64 {
        if hex.chars().all(|c| c == '0') {
            return 0;
        }
        if let Some(i) = self.map.get(hex) {
            return *i;
        }
        let i = self.next;
        self.next += 1;
        self.map.insert(hex.to_string(), i);
        i
    }
    fn uuid(&mut self, u: Uuid) -> i64 {
        self.id(&u.as_simple().to_string())
    }
    /// object name or list prefix -> [kind, a, b]
    fn name(&mut self, n: &str) -> Value {
        if n == "latest" {
            return json!(["latest", 0, 0]);
        }
        if n == "v-" {
            return json!(["vall", 0, 0]);
        }
        if let Some(rest) = n.strip_prefix("v-") {
            let parts: Vec<&str> = rest.split('-').collect();
            let a = parts.first().filter(|s| !s.is_empty()).map(|s| self.id(s)).unwrap_or(0);
            let b = parts.get(1).filter(|s| !s.is_empty()).map(|s| self.id(s)).unwrap_or(0);
            return json!(["v", a, b]);
        }
        if let Some(rest) = n.strip_prefix("s-") {
            let a = if rest.is_empty() { 0 } else { self.id(rest) };
            return json!(["s", a, 0]);
        }
        json!([n, 0, 0])
    }
}

struct World {
    store: SharedStore,
    clients: Vec<Client>,
    rx: Rx<(usize, Msg)>,
    tx: Tx<(usize, Msg)>,
    ids: Ids,
    lines: Vec<Value>,
}

impl World {
    fn idx(&self, c: &str) -> usize {
        self.clients.iter().position(|x| x.name == c).expect("client")
    }

    /// wait for the next message of client i; Reply messages are folded into the request event
    async fn pump(&mut self, i: usize, mut req_event: Option<Value>) {
        loop {
            let (who, m) = self.rx.recv().await.expect("msg");
            assert_eq!(who, i, "only the granted client may advance");
            match m {
                Msg::Reply(res) => {
                    if let Some(mut ev) = req_event.take() {
                        // merge the result into the request event
                        let o = ev.as_object_mut().unwrap();
                        if let Some(f) = res.get("found") {
                            o.insert("found".into(), f.clone());
                            let v = res["val"].as_str().unwrap_or("");
                            let val = if f.as_bool() == Some(true) && o["name"][0] == "latest" {
                                json!(self.ids.id(v))
                            } else {
                                json!(-1)
                            };
                            o.insert("val".into(), val);
                        }
                        if let Some(s) = res.get("swapped") {
                            o.insert("swapped".into(), s.clone());
                        }
                        if let Some(names) = res.get("names").and_then(|n| n.as_array()) {
                            let ns: Vec<Value> = names
                                .iter()
                                .map(|n| self.ids.name(n.as_str().unwrap()))
                                .collect();
                            o.insert("names".into(), json!(ns));
                        }
                        let r = res["res"].as_str().unwrap_or("ok");
                        let fault = match r {
                            "fail-before" => "before",
                            "fail-after" => "after",
                            _ => "none",
                        };
                        o.insert("fault".into(), json!(fault));
                        // the object store as it is now (names only), for the property level
                        let (names, latest): (Vec<String>, Option<String>) = {
                            let st = self.store.lock().unwrap();
                            (
                                st.objects.keys().cloned().collect(),
                                st.objects
                                    .get("latest")
                                    .map(|o| String::from_utf8_lossy(&o.value).to_string()),
                            )
                        };
                        let mut objs = vec![];
                        for n in names {
                            if n.starts_with("v-") || n.starts_with("s-") {
                                objs.push(self.ids.name(&n));
                            }
                        }
                        let lat = match latest {
                            Some(v) => self.ids.id(&v),
                            None => -1,
                        };
                        let o = ev.as_object_mut().unwrap();
                        o.insert("objs".into(), json!(objs));
                        o.insert("latest".into(), json!(lat));
                        self.lines.push(ev);
                    }
                }
                Msg::Request(r) => {
                    self.clients[i].pending = Some(r);
                    return;
                }
                Msg::Finished(ret) => {
                    let srv = self.clients[i].back.take().unwrap().await.unwrap();
                    self.clients[i].srv = Some(srv);
                    self.clients[i].running = false;
                    self.clients[i].pending = None;
                    let mut ev = ret;
                    // map ids in the return value
                    let o = ev.as_object_mut().unwrap();
                    if let Some(u) = o.get("uuid").and_then(|u| u.as_str()).map(|s| s.to_string()) {
                        let id = self.ids.id(&u);
                        o.insert("ver".into(), json!(id));
                        o.remove("uuid");
                        let kind = o["kind"].as_str().unwrap().to_string();
                        if kind == "ok" || kind == "version" {
                            self.clients[i].base = Uuid::parse_str(&u).unwrap();
                        }
                    }
                    o.insert("a".into(), json!("Return"));
                    o.insert("c".into(), json!(self.clients[i].name.clone()));
                    self.lines.push(ev);
                    return;
                }
            }
        }
    }

    async fn call(&mut self, i: usize, op: &str) {
        if self.clients[i].running {
            return;
        }
        let mut srv = self.clients[i].srv.take().unwrap();
        let base = self.clients[i].base;
        let n = self.clients[i].nops;
        self.clients[i].nops += 1;
        let name = self.clients[i].name.clone();
        let body = format!("{name}-{n}");
        let ver = self.ids.uuid(base);
        if op == "add_snapshot" && base.is_nil() {
            self.clients[i].srv = Some(srv);
            return;
        }
        self.lines
            .push(json!({"a":"Call","c":name,"op":op,"ver":ver,"body":body}));
        let tx = self.tx.clone();
        let (btx, brx) = oneshot::channel();
        self.clients[i].back = Some(brx);
        self.clients[i].running = true;
        let op = op.to_string();
        tokio::task::spawn_local(async move {
            let ret = match op.as_str() {
                "add_version" => match srv.add_version(base, body.clone().into_bytes()).await {
                    Ok((AddVersionResult::Ok(v), u)) => {
                        let urg = match u {
                            SnapshotUrgency::High => "high",
                            SnapshotUrgency::Low => "low",
                            SnapshotUrgency::None => "none",
                        };
                        json!({"kind":"ok","uuid":v.as_simple().to_string(),"pay":urg})
                    }
                    Ok((AddVersionResult::ExpectedParentVersion(v), _)) => {
                        json!({"kind":"expected","uuid":v.as_simple().to_string(),"pay":"-"})
                    }
                    Err(e) => json!({"kind":"error","ver":0,"pay":"-","msg":format!("{e:#}")}),
                },
                "get_child_version" => match srv.get_child_version(base).await {
                    Ok(GetVersionResult::Version {
                        version_id,
                        parent_version_id,
                        history_segment,
                    }) => {
                        json!({"kind":"version","uuid":version_id.as_simple().to_string(),
                               "pay":String::from_utf8_lossy(&history_segment),
                               "parent_ok": parent_version_id == base})
                    }
                    Ok(GetVersionResult::NoSuchVersion) => json!({"kind":"none","ver":0,"pay":"-"}),
                    Err(e) => json!({"kind":"error","ver":0,"pay":"-","msg":format!("{e:#}")}),
                },
                "add_snapshot" => match srv.add_snapshot(base, body.clone().into_bytes()).await {
                    Ok(()) => json!({"kind":"ok","uuid":base.as_simple().to_string(),"pay":"-"}),
                    Err(e) => json!({"kind":"error","ver":0,"pay":"-","msg":format!("{e:#}")}),
                },
                _ => match srv.get_snapshot().await {
                    Ok(Some((v, s))) => {
                        json!({"kind":"snapshot","uuid":v.as_simple().to_string(),
                               "pay":String::from_utf8_lossy(&s)})
                    }
                    Ok(None) => json!({"kind":"nosnap","ver":0,"pay":"-"}),
                    Err(e) => json!({"kind":"error","ver":0,"pay":"-","msg":format!("{e:#}")}),
                },
            };
            tx.send((i, Msg::Finished(ret))).ok();
            let _ = btx.send(srv);
        });
        self.pump(i, None).await;
    }

    /// grant the pending request of client i
    async fn step(&mut self, i: usize, fault: Fault, draw: i64) {
        if !self.clients[i].running {
            return;
        }
        let Some(req) = self.clients[i].pending.take() else {
            return;
        };
        let name = self.clients[i].name.clone();
        let op = req["op"].as_str().unwrap().to_string();
        let target = if op == "list" {
            req["prefix"].as_str().unwrap().to_string()
        } else {
            req["name"].as_str().unwrap().to_string()
        };
        let draw = if draw >= 0 { draw } else { 255 };
        let mut ev = json!({"a":"Req","c":name,"op":op,"name":self.ids.name(&target),"draw":draw});
        if op == "cas" {
            let e = if req["expect_some"].as_bool() == Some(true) {
                self.ids.id(req["expect"].as_str().unwrap())
            } else {
                -1
            };
            let n = self.ids.id(req["new"].as_str().unwrap());
            ev["expect"] = json!(e);
            ev["new"] = json!(n);
        }
        set_next_draw(Some(draw as u8));
        self.clients[i].grant.send(fault).unwrap();
        self.pump(i, Some(ev)).await;
        set_next_draw(None);
    }

    async fn finish_all(&mut self) {
        for i in 0..self.clients.len() {
            let mut guard = 0;
            while self.clients[i].running {
                self.step(i, Fault::None, 255).await;
                guard += 1;
                assert!(guard < 100_000);
            }
        }
    }

    fn age(&mut self) {
        let mut changed = false;
        {
            let mut s = self.store.lock().unwrap();
            for (name, o) in s.objects.iter_mut() {
                if name.starts_with("v-") && o.creation != 1 {
                    o.creation = 1;
                    changed = true;
                }
            }
        }
        if changed {
            self.lines.push(json!({"a":"Age"}));
        }
    }
}

async fn run_behaviour(b: &Value) -> Vec<Value> {
    let names: Vec<String> = b["clients"]
        .as_array()
        .unwrap()
        .iter()
        .map(|x| x.as_str().unwrap().to_string())
        .collect();
    let page = b["page_size"].as_u64().unwrap_or(100_000) as usize;
    let store = init_store(b"0123456789abcdef");
    let (tx, rx) = unbounded_channel();
    let mut clients = vec![];
    for (i, n) in names.iter().enumerate() {
        let (gtx, grx) = unbounded_channel();
        let gate = Box::new(ChanGate {
            idx: i,
            tx: tx.clone(),
            grant: grx,
        });
        let srv = cloud_server(store.clone(), gate, i, page, b"verif-secret").expect("server");
        clients.push(Client {
            name: n.clone(),
            srv: Some(srv),
            grant: gtx,
            base: Uuid::nil(),
            nops: 0,
            running: false,
            pending: None,
            back: None,
        });
    }
    let mut w = World {
        store,
        clients,
        rx,
        tx,
        ids: Ids {
            map: HashMap::new(),
            next: 1,
        },
        lines: vec![json!({"a":"Reset","id":b["id"].clone()})],
    };
    for s in b["steps"].as_array().unwrap() {
        let a = s["a"].as_str().unwrap();
        if a == "Age" {
            w.age();
            continue;
        }
        let i = w.idx(s["c"].as_str().unwrap());
        let draw = s["draw"].as_i64().unwrap_or(-1);
        match a {
            "AV" => w.call(i, "add_version").await,
            "GC" => w.call(i, "get_child_version").await,
            "AS" => w.call(i, "add_snapshot").await,
            "GS" => w.call(i, "get_snapshot").await,
            "Step" => w.step(i, Fault::None, draw).await,
            "FailBefore" => w.step(i, Fault::FailBefore, draw).await,
            "FailAfter" => w.step(i, Fault::FailAfter, draw).await,
            other => panic!("unknown step {other}"),
        }
    }
    w.finish_all().await;
    // afterwards every client walks the chain from its own base to the end, and a fresh client
    // from the beginning: what they are served is validated like every other read
    if b["walk"].as_bool().unwrap_or(true) {
        for i in 0..w.clients.len() {
            for _ in 0..(b["walk_steps"].as_u64().unwrap_or(6)) {
                w.call(i, "get_child_version").await;
                let mut guard = 0;
                while w.clients[i].running {
                    w.step(i, Fault::None, 255).await;
                    guard += 1;
                    assert!(guard < 100_000);
                }
                if w.lines.last().map(|l| l["kind"] != "version").unwrap_or(true) {
                    break;
                }
            }
        }
    }
    // renumber the version ids so that their numeric order is the order of their names in the
    // object store (hexadecimal), which is the order listings return them in
    let mut hexes: Vec<(String, i64)> = w.ids.map.iter().map(|(h, i)| (h.clone(), *i)).collect();
    hexes.sort();
    let mut ren: HashMap<i64, i64> = HashMap::new();
    for (rank, (_, old)) in hexes.iter().enumerate() {
        ren.insert(*old, rank as i64 + 1);
    }
    let r = |v: &mut Value| {
        if let Some(i) = v.as_i64() {
            if i >= 1 {
                *v = json!(ren.get(&i).copied().unwrap_or(i));
            }
        }
    };
    let rname = |n: &mut Value| {
        if let Some(a) = n.as_array_mut() {
            for x in a.iter_mut().skip(1) {
                r(x);
            }
        }
    };
    for ev in w.lines.iter_mut() {
        let Some(o) = ev.as_object_mut() else { continue };
        for k in ["val", "expect", "new", "ver", "latest"] {
            if let Some(x) = o.get_mut(k) {
                r(x);
            }
        }
        if let Some(n) = o.get_mut("name") {
            rname(n);
        }
        for k in ["names", "objs"] {
            if let Some(a) = o.get_mut(k).and_then(|x| x.as_array_mut()) {
                for n in a.iter_mut() {
                    rname(n);
                }
            }
        }
    }
    w.lines
}

/// The salt race: clients are created concurrently through `CloudServer::new` on an entirely
/// empty store, their requests on the "salt" object granted one at a time as the schedule
/// says; afterwards one client adds a version and every other client must be able to open it.
async fn run_salt_behaviour(b: &Value) -> Vec<Value> {
    let names: Vec<String> = b["clients"]
        .as_array()
        .unwrap()
        .iter()
        .map(|x| x.as_str().unwrap().to_string())
        .collect();
    let store = empty_store();
    let (tx, mut rx) = unbounded_channel::<(usize, Msg)>();
    let mut lines = vec![json!({"a":"Reset","id":b["id"].clone()})];
    let mut grants: Vec<Option<Tx<Fault>>> = vec![None; names.len()];
    let mut pending: Vec<Option<Value>> = vec![None; names.len()];
    let mut backs: Vec<Option<oneshot::Receiver<Option<Box<dyn Server>>>>> = Vec::new();
    for _ in 0..names.len() {
        backs.push(None);
    }
    let mut servers: Vec<Option<Box<dyn Server>>> = Vec::new();
    for _ in 0..names.len() {
        servers.push(None);
    }
    let mut running = vec![false; names.len()];

    // wait for client i's next message, folding replies into the request event
    async fn pump(
        i: usize,
        rx: &mut Rx<(usize, Msg)>,
        lines: &mut Vec<Value>,
        pending: &mut [Option<Value>],
        running: &mut [bool],
        backs: &mut [Option<oneshot::Receiver<Option<Box<dyn Server>>>>],
        servers: &mut [Option<Box<dyn Server>>],
        names: &[String],
        mut ev: Option<Value>,
    ) {
        loop {
            let (who, m) = rx.recv().await.expect("msg");
            assert_eq!(who, i);
            match m {
                Msg::Reply(res) => {
                    if let Some(mut e) = ev.take() {
                        let o = e.as_object_mut().unwrap();
                        if let Some(f) = res.get("found") {
                            o.insert("found".into(), f.clone());
                        }
                        if let Some(sw) = res.get("swapped") {
                            o.insert("swapped".into(), sw.clone());
                        }
                        o.insert("fault".into(), json!("none"));
                        lines.push(e);
                    }
                }
                Msg::Request(r) => {
                    pending[i] = Some(r);
                    return;
                }
                Msg::Finished(ret) => {
                    let srv = backs[i].take().unwrap().await.unwrap();
                    let ok = srv.is_some();
                    servers[i] = srv;
                    running[i] = false;
                    pending[i] = None;
                    lines.push(json!({"a":"Opened","c":names[i],"ok":ok,"msg":ret}));
                    return;
                }
            }
        }
    }

    for s in b["steps"].as_array().unwrap() {
        let i = names.iter().position(|n| n == s["c"].as_str().unwrap()).unwrap();
        match s["a"].as_str().unwrap() {
            "Open" => {
                let (gtx, grx) = unbounded_channel();
                grants[i] = Some(gtx);
                let gate = Box::new(ChanGate { idx: i, tx: tx.clone(), grant: grx });
                let st = store.clone();
                let txc = tx.clone();
                let (btx, brx) = oneshot::channel();
                backs[i] = Some(brx);
                running[i] = true;
                lines.push(json!({"a":"Call","c":names[i],"op":"open","ver":0,"body":"-"}));
                tokio::task::spawn_local(async move {
                    match cloud_server_new(st, gate, i, 100_000, b"verif-secret").await {
                        Ok(srv) => {
                            txc.send((i, Msg::Finished(json!("ok")))).ok();
                            let _ = btx.send(Some(srv));
                        }
                        Err(e) => {
                            txc.send((i, Msg::Finished(json!(format!("{e:#}"))))).ok();
                            let _ = btx.send(None);
                        }
                    }
                });
                pump(i, &mut rx, &mut lines, &mut pending, &mut running, &mut backs, &mut servers, &names, None).await;
            }
            _ => {
                if !running[i] {
                    continue;
                }
                let Some(req) = pending[i].take() else { continue };
                let op = req["op"].as_str().unwrap().to_string();
                let name = req["name"].as_str().unwrap_or("").to_string();
                let ev = json!({"a":"Req","c":names[i],"op":op,"name":[name, 0, 0]});
                grants[i].as_ref().unwrap().send(Fault::None).unwrap();
                pump(i, &mut rx, &mut lines, &mut pending, &mut running, &mut backs, &mut servers, &names, Some(ev)).await;
            }
        }
    }
    // let every creation finish
    for i in 0..names.len() {
        let mut guard = 0;
        while running[i] {
            if let Some(req) = pending[i].take() {
                let op = req["op"].as_str().unwrap().to_string();
                let name = req["name"].as_str().unwrap_or("").to_string();
                let ev = json!({"a":"Req","c":names[i],"op":op,"name":[name, 0, 0]});
                grants[i].as_ref().unwrap().send(Fault::None).unwrap();
                pump(i, &mut rx, &mut lines, &mut pending, &mut running, &mut backs, &mut servers, &names, Some(ev)).await;
            }
            guard += 1;
            assert!(guard < 1000);
        }
    }
    // agreement: the first client adds a version, every other one reads it back (ungated from
    // here on: grant every request as it comes)
    let mut ok = servers.iter().all(|s| s.is_some());
    let mut msgs = vec![];
    if ok {
        let body = b"{\"operations\":[]}".to_vec();
        let mut s0 = servers[0].take().unwrap();
        let g0 = grants[0].clone().unwrap();
        let txf = tx.clone();
        let h = tokio::task::spawn_local(async move {
            let r = s0.add_version(Uuid::nil(), body).await;
            txf.send((usize::MAX, Msg::Finished(json!(null)))).ok();
            (r.map(|x| format!("{:?}", x.0)).map_err(|e| format!("{e:#}")), s0)
        });
        // serve gates until the task reports completion
        loop {
            let (who, m) = rx.recv().await.expect("msg");
            match m {
                Msg::Request(_) => {
                    if who == 0 {
                        g0.send(Fault::None).unwrap();
                    }
                }
                Msg::Finished(_) => break,
                Msg::Reply(_) => {}
            }
        }
        let (r0, _s0) = h.await.unwrap();
        if let Err(e) = &r0 {
            ok = false;
            msgs.push(format!("add_version: {e}"));
        }
        for i in 1..names.len() {
            let mut si = servers[i].take().unwrap();
            let gi = grants[i].clone().unwrap();
            let txf = tx.clone();
            let h = tokio::task::spawn_local(async move {
                let r = si.get_child_version(Uuid::nil()).await;
                txf.send((usize::MAX, Msg::Finished(json!(null)))).ok();
                r.map(|x| matches!(x, GetVersionResult::Version { .. })).map_err(|e| format!("{e:#}"))
            });
            loop {
                let (who, m) = rx.recv().await.expect("msg");
                match m {
                    Msg::Request(_) => {
                        if who == i {
                            gi.send(Fault::None).unwrap();
                        }
                    }
                    Msg::Finished(_) => break,
                    Msg::Reply(_) => {}
                }
            }
            match h.await.unwrap() {
                Ok(true) => {}
                Ok(false) => {
                    ok = false;
                    msgs.push(format!("{}: version not found", names[i]));
                }
                Err(e) => {
                    ok = false;
                    msgs.push(format!("{}: {e}", names[i]));
                }
            }
        }
    }
    lines.push(json!({"a":"Agree","ok":ok,"msgs":msgs}));
    lines
}

pub fn main(args: &[String]) {
    let salt_mode = args.iter().any(|a| a == "--salt");
    let inp = crate::arg(args, "--in").expect("--in");
    let out = crate::arg(args, "--out").expect("--out");
    let f = std::io::BufReader::new(std::fs::File::open(inp).unwrap());
    let mut o = std::io::BufWriter::new(std::fs::File::create(out).unwrap());
    let mut n = 0usize;
    for line in f.lines() {
        let line = line.unwrap();
        if line.trim().is_empty() {
            continue;
        }
        let b: Value = serde_json::from_str(&line).expect("stimulus json");
        let lines = if salt_mode {
            crate::local_block_on(run_salt_behaviour(&b))
        } else {
            crate::local_block_on(run_behaviour(&b))
        };
        for l in lines {
            writeln!(o, "{}", serde_json::to_string(&l).unwrap()).unwrap();
        }
        n += 1;
    }
    eprintln!("replayed {n} behaviours");
}
