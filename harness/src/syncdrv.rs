//! Replays schedules produced by TLC (or by the random driver) on real replicas against the
//! gated chain server, one server request at a time, and records the trace.
use crate::chain::{Ctx, Decision, Ev, Gated, SharedCtx};
use crate::model::{db_to_json, DbState, Model};
use crate::tap::{AnyStorage, FailKind, Shared, Tap};
use serde_json::{json, Value};
use std::cell::RefCell;
use std::path::PathBuf;
use std::rc::Rc;
use taskchampion::server::Server;
use taskchampion::storage::inmemory::InMemoryStorage;
use taskchampion::storage::AccessMode;
use taskchampion::{Operation, Replica, SqliteStorage};
use tokio::sync::mpsc::{unbounded_channel, UnboundedReceiver as Rx, UnboundedSender as Tx};
use tokio::sync::oneshot;

pub struct Node {
    pub rid: String,
    pub rep: Option<Replica<Tap>>,
    pub srv: Option<Box<dyn Server>>,
    pub grant: Tx<Decision>,
    pub shared: Shared,
    pub running: bool,
    pub pending: Option<&'static str>,
    pub back: Option<oneshot::Receiver<(Replica<Tap>, Box<dyn Server>)>>,
    pub avoid: bool,
    pub pending_fault: Option<(u64, FailKind)>,
    pub fetched: Option<Vec<Operation>>,
}

pub struct World {
    pub ctx: SharedCtx,
    pub nodes: Vec<Node>,
    pub ev_tx: Tx<(usize, Ev)>,
    pub ev_rx: Rx<(usize, Ev)>,
    pub dir: Option<PathBuf>,
}

pub async fn make_storage(kind: &str, dir: &Option<PathBuf>, rid: &str) -> AnyStorage {
    match kind {
        "sqlite" => {
            let d = dir.as_ref().expect("dir").join(rid);
            std::fs::create_dir_all(&d).unwrap();
            AnyStorage::Sql(
                SqliteStorage::new(d, AccessMode::ReadWrite, true)
                    .await
                    .expect("open sqlite"),
            )
        }
        _ => AnyStorage::Mem(InMemoryStorage::new()),
    }
}

impl World {
    pub async fn new(
        model: Model,
        replicas: &[String],
        avoid: &[String],
        storage: &str,
        dir: Option<PathBuf>,
        gated: bool,
    ) -> World {
        let ctx = Rc::new(RefCell::new(Ctx::new(model)));
        let (ev_tx, ev_rx) = unbounded_channel();
        let mut nodes = vec![];
        for (i, rid) in replicas.iter().enumerate() {
            let (gtx, grx) = unbounded_channel();
            let srv: Box<dyn Server> = Box::new(Gated {
                rid: rid.clone(),
                idx: i,
                ctx: ctx.clone(),
                ev: ev_tx.clone(),
                grant: grx,
                gated,
            });
            let (tap, shared) = Tap::new(make_storage(storage, &dir, rid).await);
            nodes.push(Node {
                rid: rid.clone(),
                rep: Some(Replica::new(tap)),
                srv: Some(srv),
                grant: gtx,
                shared,
                running: false,
                pending: None,
                back: None,
                avoid: avoid.contains(rid),
                pending_fault: None,
                fetched: None,
            });
        }
        World {
            ctx,
            nodes,
            ev_tx,
            ev_rx,
            dir,
        }
    }

    pub fn idx(&self, rid: &str) -> usize {
        self.nodes.iter().position(|n| n.rid == rid).expect("replica")
    }

    pub fn emit(&self, v: Value) {
        self.ctx.borrow_mut().emit(v);
    }

    pub fn db_json(&self, d: &DbState) -> Value {
        let mut c = self.ctx.borrow_mut();
        let c = &mut *c;
        db_to_json(&mut c.model, &c.ids, d)
    }

    /// read the replica's committed state through its own storage path
    pub async fn observe(&mut self, i: usize) -> DbState {
        let n = &mut self.nodes[i];
        let rep = n.rep.as_mut().expect("replica idle");
        let _ = rep.all_task_uuids().await;
        let st = n.shared.lock().unwrap().begin.clone().expect("begin state");
        n.shared.lock().unwrap().commits.clear();
        st
    }

    pub async fn edit(&mut self, i: usize, ops: Vec<Operation>, ops_json: Vec<Value>) {
        let rid = self.nodes[i].rid.clone();
        {
            let pf = self.nodes[i].pending_fault.take();
            let mut sh = self.nodes[i].shared.lock().unwrap();
            sh.commits.clear();
            sh.calls = 0;
            sh.fail_at = pf;
        }
        let res = self.nodes[i]
            .rep
            .as_mut()
            .expect("replica idle")
            .commit_operations(ops)
            .await;
        self.nodes[i].shared.lock().unwrap().fail_at = None;
        let st = self.observe(i).await;
        let post = self.db_json(&st);
        self.emit(json!({"a":"Edit","r":rid,"ops":ops_json,
            "res": if res.is_ok() {"ok"} else {"error"}, "post":post}));
    }

    async fn wait_ev(&mut self, i: usize) -> Ev {
        let (who, e) = self.ev_rx.recv().await.expect("event");
        assert_eq!(who, i, "only the granted replica may advance");
        e
    }

    /// start a sync of replica i; runs until its first server request (or to completion)
    pub async fn start(&mut self, i: usize) {
        if self.nodes[i].running {
            return;
        }
        let rid = self.nodes[i].rid.clone();
        let avoid = self.nodes[i].avoid;
        self.emit(json!({"a":"SyncStart","r":rid,"avoid":avoid}));
        let mut rep = self.nodes[i].rep.take().unwrap();
        let mut srv = self.nodes[i].srv.take().unwrap();
        {
            let pf = self.nodes[i].pending_fault.take();
            let mut sh = self.nodes[i].shared.lock().unwrap();
            sh.commits.clear();
            sh.calls = 0;
            sh.fail_at = pf;
        }
        let tx = self.ev_tx.clone();
        let (btx, brx) = oneshot::channel();
        self.nodes[i].back = Some(brx);
        self.nodes[i].running = true;
        tokio::task::spawn_local(async move {
            // a panic in the code under test is a result, not a harness crash
            let res = match crate::backenddrv::futures_catch(std::panic::AssertUnwindSafe(
                rep.sync(&mut srv, avoid),
            ))
            .await
            {
                Ok(r) => r.map_err(|e| format!("{e:#}")),
                Err(p) => Err(format!("panic: {p}")),
            };
            tx.send((i, Ev::Finished(res))).unwrap();
            let _ = btx.send((rep, srv));
        });
        let e = self.wait_ev(i).await;
        self.after_event(i, e).await;
    }

    async fn after_event(&mut self, i: usize, e: Ev) {
        match e {
            Ev::Arrived(what) => {
                self.nodes[i].pending = Some(what);
            }
            Ev::Finished(res) => {
                let (rep, srv) = self.nodes[i].back.take().unwrap().await.unwrap();
                self.nodes[i].rep = Some(rep);
                self.nodes[i].srv = Some(srv);
                self.nodes[i].running = false;
                self.nodes[i].pending = None;
                self.nodes[i].shared.lock().unwrap().fail_at = None;
                let rid = self.nodes[i].rid.clone();
                let commits: Vec<DbState> =
                    std::mem::take(&mut self.nodes[i].shared.lock().unwrap().commits);
                match res {
                    Ok(()) => {
                        // one event per storage commit: the sync transaction, then the rebuild
                        for (k, st) in commits.iter().enumerate() {
                            let post = self.db_json(st);
                            let a = if k == 0 { "SyncCommit" } else { "SyncRebuild" };
                            self.emit(json!({"a":a,"r":rid,"post":post}));
                        }
                        let st = self.observe(i).await;
                        let post = self.db_json(&st);
                        self.emit(json!({"a":"SyncDone","r":rid,"res":"ok","post":post}));
                    }
                    Err(msg) => {
                        for st in commits.iter() {
                            let post = self.db_json(st);
                            self.emit(json!({"a":"SyncCommit","r":rid,"post":post}));
                        }
                        let st = self.observe(i).await;
                        let post = self.db_json(&st);
                        let kind = if msg.starts_with("panic: ") {
                            "panic"
                        } else if msg.to_lowercase().contains("out of sync") {
                            "outofsync"
                        } else if msg.contains("injected") {
                            "injected"
                        } else {
                            "error"
                        };
                        self.emit(json!({"a":"SyncDone","r":rid,"res":kind,"msg":msg,"post":post}));
                    }
                }
            }
        }
    }

    /// grant the pending request of replica i with the given decision
    pub async fn step(&mut self, i: usize, d: Decision) {
        if !self.nodes[i].running {
            return;
        }
        self.nodes[i].grant.send(d).unwrap();
        let e = self.wait_ev(i).await;
        self.after_event(i, e).await;
    }

    pub async fn finish(&mut self, i: usize) {
        let mut guard = 0;
        while self.nodes[i].running {
            self.step(i, Decision::Proceed { urg: "none".into() }).await;
            guard += 1;
            assert!(guard < 10_000, "sync does not terminate");
        }
    }

    pub async fn full_sync(&mut self, i: usize) {
        self.start(i).await;
        self.finish(i).await;
    }

    pub async fn get_undo(&mut self, i: usize) {
        let rid = self.nodes[i].rid.clone();
        let ops = self.nodes[i]
            .rep
            .as_mut()
            .expect("replica idle")
            .get_undo_operations()
            .await
            .expect("get_undo_operations");
        let oj: Vec<Value> = ops
            .iter()
            .map(|o| self.ctx.borrow_mut().model.op_to_json(o))
            .collect();
        self.nodes[i].fetched = Some(ops);
        self.emit(json!({"a":"GetUndo","r":rid,"ops":oj}));
    }

    pub async fn undo(&mut self, i: usize) {
        let rid = self.nodes[i].rid.clone();
        let Some(ops) = self.nodes[i].fetched.take() else {
            return;
        };
        let oj: Vec<Value> = ops
            .iter()
            .map(|o| self.ctx.borrow_mut().model.op_to_json(o))
            .collect();
        {
            let pf = self.nodes[i].pending_fault.take();
            let mut sh = self.nodes[i].shared.lock().unwrap();
            sh.commits.clear();
            sh.calls = 0;
            sh.fail_at = pf;
        }
        let res = self.nodes[i]
            .rep
            .as_mut()
            .expect("replica idle")
            .commit_reversed_operations(ops)
            .await;
        self.nodes[i].shared.lock().unwrap().fail_at = None;
        let commits: Vec<DbState> =
            std::mem::take(&mut self.nodes[i].shared.lock().unwrap().commits);
        let r = match &res {
            Ok(true) => "true",
            Ok(false) => "false",
            Err(e) if format!("{e:#}").contains("injected") => "injected",
            Err(_) => "error",
        };
        let first = match commits.first() {
            Some(st) => st.clone(),
            None => self.observe(i).await,
        };
        let post = self.db_json(&first);
        self.emit(json!({"a":"Undo","r":rid,"undo":oj,"res":r,"post":post}));
        for st in commits.iter().skip(1) {
            let post = self.db_json(st);
            self.emit(json!({"a":"Rebuild","r":rid,"renumber":false,"post":post}));
        }
    }

    pub async fn rebuild(&mut self, i: usize, renumber: bool) {
        let rid = self.nodes[i].rid.clone();
        let res = self.nodes[i]
            .rep
            .as_mut()
            .expect("replica idle")
            .rebuild_working_set(renumber)
            .await;
        let st = self.observe(i).await;
        let post = self.db_json(&st);
        self.emit(json!({"a":"Rebuild","r":rid,"renumber":renumber,
            "res": if res.is_ok() {"ok"} else {"error"}, "post":post}));
    }

    pub async fn expire(&mut self, i: usize) {
        let rid = self.nodes[i].rid.clone();
        let res = self.nodes[i]
            .rep
            .as_mut()
            .expect("replica idle")
            .expire_tasks()
            .await;
        let st = self.observe(i).await;
        let post = self.db_json(&st);
        self.emit(json!({"a":"Expire","r":rid,"res": if res.is_ok() {"ok"} else {"error"},"post":post}));
    }

    pub async fn install_ws(&mut self, i: usize, ws: &[String]) {
        let rid = self.nodes[i].rid.clone();
        let mut v = vec![None];
        for t in ws {
            v.push(if t == "~" { None } else { Some(self.ctx.borrow().model.task(t)) });
        }
        self.nodes[i].shared.lock().unwrap().install_ws = Some(v);
        let st = self.observe(i).await;
        let post = self.db_json(&st);
        self.emit(json!({"a":"InstallWS","r":rid,"ws":ws,"post":post}));
    }

    /// arm a storage fault for the next sync of replica i
    pub fn arm_storage_fault(&mut self, i: usize, k: u64, kind: FailKind) {
        self.nodes[i].pending_fault = Some((k, kind));
    }

    /// let every running sync finish, then sync round-robin until nothing changes
    pub async fn flush(&mut self, rounds: usize) {
        for i in 0..self.nodes.len() {
            self.finish(i).await;
        }
        for _ in 0..rounds {
            for i in 0..self.nodes.len() {
                self.full_sync(i).await;
            }
        }
    }
}

/// Execute one behaviour (a list of schedule steps) and return its trace lines.
/// One Observe event: the replica's committed state, the counters, the per-task operation
/// history and the dependency map as `Replica::dependency_map(false)` hands it out (the cached
/// one when there is a cache: it must reflect the stored tasks at all times, C19).
async fn observe_event(w: &mut World, i: usize, b: &Value) {
    let st = w.observe(i).await;
    let post = w.db_json(&st);
    let rid = w.nodes[i].rid.clone();
    let rep = w.nodes[i].rep.as_mut().unwrap();
    let nlocal = rep.num_local_operations().await.unwrap_or(usize::MAX);
    let nundo = rep.num_undo_points().await.unwrap_or(usize::MAX);
    // the per-task operation history (synchronised and unsynchronised), for every task token
    let mut taskops = vec![];
    let mut toks: Vec<String> = vec![];
    if let Some(tasks) = b["tasks"].as_array() {
        for t in tasks {
            let tok = t.as_str().unwrap();
            toks.push(tok.to_string());
            let u = w.ctx.borrow().model.task(tok);
            let rep = w.nodes[i].rep.as_mut().unwrap();
            if let Ok(ops) = rep.get_task_operations(u).await {
                let oj: Vec<Value> = ops
                    .iter()
                    .map(|o| w.ctx.borrow_mut().model.op_to_json(o))
                    .collect();
                taskops.push(json!([tok, oj]));
            }
        }
    }
    // dependency map: pairs [task, the task it depends on], and the synthetic BLOCKED / BLOCKING
    // tags of every task as get_task computes them from that map
    let mut dm: Vec<Value> = vec![];
    let mut blocked: Vec<String> = vec![];
    let mut blocking: Vec<String> = vec![];
    let mut dm_ok = true;
    {
        let rep = w.nodes[i].rep.as_mut().unwrap();
        match rep.dependency_map(false).await {
            Ok(map) => {
                for tok in &toks {
                    let u = w.ctx.borrow().model.task(tok);
                    for d in map.dependencies(u) {
                        let dt = w.ctx.borrow().model.task_tok(d);
                        dm.push(json!([tok, dt]));
                    }
                }
            }
            Err(_) => dm_ok = false,
        }
        for tok in &toks {
            let u = w.ctx.borrow().model.task(tok);
            let rep = w.nodes[i].rep.as_mut().unwrap();
            if let Ok(Some(t)) = rep.get_task(u).await {
                if t.is_blocked() {
                    blocked.push(tok.clone());
                }
                if t.is_blocking() {
                    blocking.push(tok.clone());
                }
            }
        }
    }
    w.emit(json!({"a":"Observe","r":rid,"post":post,"nlocal":nlocal,"nundo":nundo,
        "taskops":taskops,"dm":dm,"dm_ok":dm_ok,"blocked":blocked,"blocking":blocking}));
}

pub async fn run_behaviour(b: &Value, dir: Option<PathBuf>) -> Vec<Value> {
    let replicas: Vec<String> = b["replicas"]
        .as_array()
        .unwrap()
        .iter()
        .map(|x| x.as_str().unwrap().to_string())
        .collect();
    let avoid: Vec<String> = b["avoid"]
        .as_array()
        .map(|a| a.iter().map(|x| x.as_str().unwrap().to_string()).collect())
        .unwrap_or_default();
    let big: Vec<String> = b["big"]
        .as_array()
        .map(|a| a.iter().map(|x| x.as_str().unwrap().to_string()).collect())
        .unwrap_or_default();
    let storage = b["storage"].as_str().unwrap_or("mem");
    let valclass = b["valclass"].as_str().unwrap_or("ascii");
    let mut model = Model::new(valclass, &big);
    model.nanos = b["nanos"].as_u64().unwrap_or(0) as u32;
    let mut w = World::new(model, &replicas, &avoid, storage, dir, true).await;
    w.ctx.borrow_mut().restyle = b["restyle"].as_u64().unwrap_or(0) as u8;
    w.emit(json!({"a":"Reset","id":b["id"].clone()}));
    let flush_rounds = b["flush"].as_u64().unwrap_or(2) as usize;

    for s in b["steps"].as_array().unwrap() {
        let a = s["a"].as_str().unwrap();
        match a {
            "Prior" => {
                // common synchronised state: the first replica creates every task, all sync,
                // then each replica commits its prior local history
                let tasks: Vec<String> = b["tasks"]
                    .as_array()
                    .unwrap()
                    .iter()
                    .map(|x| x.as_str().unwrap().to_string())
                    .collect();
                let mut ops = vec![];
                let mut opsj = vec![];
                let create_all = s["create"].as_bool().unwrap_or(true);
                for (ti, t) in tasks.iter().enumerate() {
                    // without `create`, the first task does not exist in the common base
                    if !create_all && ti == 0 {
                        continue;
                    }
                    let j = json!({"k":"C","u":t,"p":"-","v":"-","t":0,"o":[]});
                    ops.push(w.ctx.borrow_mut().model.op_from_json(&j));
                    opsj.push(j);
                }
                if !ops.is_empty() {
                    w.edit(0, ops, opsj).await;
                    for i in 0..w.nodes.len() {
                        w.full_sync(i).await;
                    }
                }
                let prior = s["ops"].as_object().unwrap();
                for rid in &replicas {
                    if let Some(list) = prior.get(rid).and_then(|x| x.as_array()) {
                        if list.is_empty() {
                            continue;
                        }
                        let i = w.idx(rid);
                        // one commit per operation, as a sequence of edits
                        for j in list {
                            let op = w.ctx.borrow_mut().model.op_from_json(j);
                            let oj = w.ctx.borrow_mut().model.op_to_json(&op);
                            w.edit(i, vec![op], vec![oj]).await;
                        }
                    }
                }
            }
            "Edit" => {
                let i = w.idx(s["r"].as_str().unwrap());
                if w.nodes[i].running {
                    continue;
                }
                let mut ops = vec![];
                let mut opsj = vec![];
                for j in s["ops"].as_array().unwrap() {
                    let op = w.ctx.borrow_mut().model.op_from_json(j);
                    opsj.push(w.ctx.borrow_mut().model.op_to_json(&op));
                    ops.push(op);
                }
                w.edit(i, ops, opsj).await;
            }
            "Start" => {
                let i = w.idx(s["r"].as_str().unwrap());
                w.start(i).await;
            }
            "Step" => {
                let i = w.idx(s["r"].as_str().unwrap());
                let urg = s["urg"].as_str().unwrap_or("none");
                let urg = if urg == "-" { "none" } else { urg };
                w.step(i, Decision::Proceed { urg: urg.into() }).await;
            }
            "FailBefore" => {
                let i = w.idx(s["r"].as_str().unwrap());
                w.step(i, Decision::FailBefore).await;
            }
            "LostReply" => {
                let i = w.idx(s["r"].as_str().unwrap());
                w.step(i, Decision::LostReply).await;
            }
            "StorageFault" => {
                // fail the k-th storage call of the next sync of r
                let i = w.idx(s["r"].as_str().unwrap());
                let k = s["k"].as_u64().unwrap();
                w.arm_storage_fault(i, k, FailKind::Error);
            }
            "Setup" => {
                // a common synchronised state: the first replica commits the operations, all sync
                let mut ops = vec![];
                let mut opsj = vec![];
                for j in s["ops"].as_array().unwrap() {
                    let op = w.ctx.borrow_mut().model.op_from_json(j);
                    opsj.push(w.ctx.borrow_mut().model.op_to_json(&op));
                    ops.push(op);
                }
                w.edit(0, ops, opsj).await;
                for i in 0..w.nodes.len() {
                    w.full_sync(i).await;
                }
            }
            "Trim" => {
                // the server discards its oldest versions (up to the one of its snapshot)
                let n: usize = s["urg"].as_str().and_then(|x| x.parse().ok()).unwrap_or(0);
                let ok = {
                    let c = w.ctx.borrow();
                    let sv = c.snapshot.as_ref().map(|(v, _)| crate::model::ver_index(&c.ids, *v)).unwrap_or(0);
                    n > c.trimmed && (n as i64) <= sv
                };
                if ok {
                    w.ctx.borrow_mut().trimmed = n;
                    w.emit(json!({"a":"Trim","n":n}));
                }
            }
            "Expire" => {
                let i = w.idx(s["r"].as_str().unwrap());
                if !w.nodes[i].running {
                    w.expire(i).await;
                }
            }
            "GetUndo" => {
                let i = w.idx(s["r"].as_str().unwrap());
                if !w.nodes[i].running {
                    w.get_undo(i).await;
                }
            }
            "Undo" => {
                let i = w.idx(s["r"].as_str().unwrap());
                if !w.nodes[i].running {
                    w.undo(i).await;
                }
            }
            "Rebuild" => {
                let i = w.idx(s["r"].as_str().unwrap());
                if !w.nodes[i].running {
                    w.rebuild(i, s["urg"].as_str() == Some("renumber")).await;
                }
            }
            "Install" => {
                // the same prior state on every replica: commit the operations, then write the
                // working set directly through the storage API
                let wsv: Vec<String> = s["ws"]
                    .as_array()
                    .map(|a| a.iter().map(|x| x.as_str().unwrap().to_string()).collect())
                    .unwrap_or_default();
                for i in 0..w.nodes.len() {
                    let mut ops = vec![];
                    let mut opsj = vec![];
                    for j in s["ops"].as_array().unwrap() {
                        let op = w.ctx.borrow_mut().model.op_from_json(j);
                        opsj.push(w.ctx.borrow_mut().model.op_to_json(&op));
                        ops.push(op);
                    }
                    if !ops.is_empty() {
                        w.edit(i, ops, opsj).await;
                    }
                    w.install_ws(i, &wsv).await;
                }
            }
            "FullSync" => {
                let i = w.idx(s["r"].as_str().unwrap());
                w.full_sync(i).await;
            }
            "Observe" => {
                let i = w.idx(s["r"].as_str().unwrap());
                if !w.nodes[i].running {
                    observe_event(&mut w, i, b).await;
                }
            }
            other => panic!("unknown schedule step {other}"),
        }
    }
    w.flush(flush_rounds).await;
    // final observation of every replica
    for i in 0..w.nodes.len() {
        observe_event(&mut w, i, b).await;
    }
    let lines = std::mem::take(&mut w.ctx.borrow_mut().lines);
    lines
}
