//! C13: what leaves the host is sealed, version-bound and tamper-evident.
//!
//! One engine executes behaviours (sequences of the actions of spec/Seal.tla) on four
//! "backends": `raw` (the hooks `server::verif::{seal, unseal}`), `cloud` (CloudServer over the
//! in-memory object store of hook H1), `http` (the real HTTP client against a recording server in
//! this file) and `git` (GitSyncServer, local-only).  Everything that gets STORED (object values,
//! request bodies, files) is decoded by an INDEPENDENT implementation of docs/src/encryption.md
//! written here directly on `ring` primitives, and logged as a symbolic term for TraceSeal.tla.
//!
//! Sub-commands:
//!   seal-replay   --in stimuli.ndjson --out trace.ndjson --dir D      (behaviours from MCSeal)
//!   seal-vectors  --out trace.ndjson --dump blobs.ndjson [--thorough] (raw hook, payload classes,
//!                                                                      full tamper sweep)
//!   seal-backends --out trace.ndjson --dir D [--thorough]             (three real backends)
use async_trait::async_trait;
use ring::rand::SecureRandom;
use ring::{aead, pbkdf2};
use serde_json::{json, Value};
use std::collections::HashMap;
use std::io::{BufRead, BufReader, Read, Write};
use std::net::{TcpListener, TcpStream};
use std::path::{Path, PathBuf};
use std::sync::{Arc, Mutex};
use taskchampion::server::verif::{cloud_server, init_store, seal, unseal, Fault, Gate, MemObject, SharedStore};
use taskchampion::server::{AddVersionResult, GetVersionResult, Server, ServerConfig};
use taskchampion::Uuid;

const MARKER: &str = "TCVERIF-MARKER-buy-milk";

// ------------------------------------------------------------------------------------------
// the independent implementation of docs/src/encryption.md

/// "The client derives the 32-byte encryption key from the configured encryption secret using
/// PBKDF2 with HMAC-SHA256 and 600,000 iterations."
fn indep_derive(secret: &[u8], salt: &[u8]) -> aead::LessSafeKey {
    let mut key = [0u8; 32];
    pbkdf2::derive(
        pbkdf2::PBKDF2_HMAC_SHA256,
        std::num::NonZeroU32::new(600_000).unwrap(),
        salt,
        secret,
        &mut key,
    );
    aead::LessSafeKey::new(aead::UnboundKey::new(&aead::CHACHA20_POLY1305, &key).unwrap())
}

/// "the AAD is always 17 bytes of the form: app_id (byte) - always 1; version_id (16 bytes)"
fn indep_aad(vid: Uuid) -> [u8; 17] {
    let mut aad = [0u8; 17];
    aad[0] = 1;
    aad[1..].copy_from_slice(vid.as_bytes());
    aad
}

#[derive(Default)]
struct Indep {
    keys: HashMap<(Vec<u8>, Vec<u8>), aead::LessSafeKey>,
}

impl Indep {
    fn key(&mut self, secret: &[u8], salt: &[u8]) -> &aead::LessSafeKey {
        self.keys
            .entry((secret.to_vec(), salt.to_vec()))
            .or_insert_with(|| indep_derive(secret, salt))
    }

    /// "version (byte) - format version (always 1); nonce (12 bytes); ciphertext (remaining)"
    fn seal(&mut self, secret: &[u8], salt: &[u8], vid: Uuid, pt: &[u8]) -> Vec<u8> {
        let mut nonce = [0u8; 12];
        ring::rand::SystemRandom::new().fill(&mut nonce).unwrap();
        let mut buf = pt.to_vec();
        let key = self.key(secret, salt);
        let tag = key
            .seal_in_place_separate_tag(
                aead::Nonce::assume_unique_for_key(nonce),
                aead::Aad::from(indep_aad(vid)),
                &mut buf,
            )
            .unwrap();
        let mut out = vec![1u8];
        out.extend_from_slice(&nonce);
        out.extend_from_slice(&buf);
        out.extend_from_slice(tag.as_ref());
        out
    }

    fn open(&mut self, secret: &[u8], salt: &[u8], vid: Uuid, blob: &[u8]) -> Option<Vec<u8>> {
        if blob.len() < 1 + 12 + 16 || blob[0] != 1 {
            return None;
        }
        let mut nonce = [0u8; 12];
        nonce.copy_from_slice(&blob[1..13]);
        let mut buf = blob[13..].to_vec();
        let key = self.key(secret, salt);
        let n = key
            .open_in_place(
                aead::Nonce::assume_unique_for_key(nonce),
                aead::Aad::from(indep_aad(vid)),
                &mut buf,
            )
            .ok()?
            .len();
        buf.truncate(n);
        Some(buf)
    }
}

// ------------------------------------------------------------------------------------------
// small helpers

fn hex(b: &[u8]) -> String {
    b.iter().map(|x| format!("{x:02x}")).collect()
}

const B64: &[u8; 64] = b"ABCDEFGHIJKLMNOPQRSTUVWXYZabcdefghijklmnopqrstuvwxyz0123456789+/";

fn b64enc(data: &[u8]) -> String {
    let mut out = String::with_capacity(data.len() * 4 / 3 + 4);
    for ch in data.chunks(3) {
        let b = [ch[0], *ch.get(1).unwrap_or(&0), *ch.get(2).unwrap_or(&0)];
        let n = ((b[0] as u32) << 16) | ((b[1] as u32) << 8) | b[2] as u32;
        out.push(B64[(n >> 18) as usize & 63] as char);
        out.push(B64[(n >> 12) as usize & 63] as char);
        out.push(if ch.len() > 1 { B64[(n >> 6) as usize & 63] as char } else { '=' });
        out.push(if ch.len() > 2 { B64[n as usize & 63] as char } else { '=' });
    }
    out
}

fn b64dec(s: &str) -> Option<Vec<u8>> {
    let mut out = Vec::with_capacity(s.len() * 3 / 4);
    let mut acc = 0u32;
    let mut bits = 0;
    for c in s.bytes() {
        if c == b'=' {
            break;
        }
        let v = B64.iter().position(|x| *x == c)? as u32;
        acc = (acc << 6) | v;
        bits += 6;
        if bits >= 8 {
            bits -= 8;
            out.push((acc >> bits) as u8);
            acc &= (1 << bits) - 1;
        }
    }
    Some(out)
}

fn contains(hay: &[u8], needle: &[u8]) -> bool {
    if needle.is_empty() || hay.len() < needle.len() {
        return false;
    }
    hay.windows(needle.len()).any(|w| w == needle)
}

fn run_git(dir: &Path, args: &[&str]) {
    let st = std::process::Command::new("git")
        .current_dir(dir)
        .args(args)
        .env("GIT_CONFIG_GLOBAL", "/dev/null")
        .env("GIT_CONFIG_SYSTEM", "/dev/null")
        .stdout(std::process::Stdio::null())
        .stderr(std::process::Stdio::null())
        .status()
        .expect("git");
    assert!(st.success(), "git {args:?} failed in {dir:?}");
}

/// await a future, turning a panic inside it into Err(message)
async fn catch<F: std::future::Future>(f: F) -> Result<F::Output, String> {
    use std::future::Future;
    use std::pin::Pin;
    use std::task::{Context, Poll};
    struct Catch<F>(Pin<Box<F>>);
    impl<F: Future> Future for Catch<F> {
        type Output = Result<F::Output, String>;
        fn poll(mut self: Pin<&mut Self>, cx: &mut Context<'_>) -> Poll<Self::Output> {
            let inner = &mut self.0;
            match std::panic::catch_unwind(std::panic::AssertUnwindSafe(|| inner.as_mut().poll(cx))) {
                Ok(Poll::Ready(v)) => Poll::Ready(Ok(v)),
                Ok(Poll::Pending) => Poll::Pending,
                Err(e) => Poll::Ready(Err(e
                    .downcast_ref::<String>()
                    .cloned()
                    .or_else(|| e.downcast_ref::<&str>().map(|s| s.to_string()))
                    .unwrap_or_else(|| "panic".into()))),
            }
        }
    }
    Catch(Box::pin(f)).await
}

// ------------------------------------------------------------------------------------------
// model tokens -> concrete values

fn secret_bytes(tok: &str) -> Vec<u8> {
    match tok {
        "k0" => vec![],
        "k1" => b"verif-secret-one".to_vec(),
        // differs from k1 only by a trailing newline (a secret read from a file): still another secret
        "k2" => b"verif-secret-one\n".to_vec(),
        "k3" => (0u16..200).map(|i| (i * 7 % 256) as u8).collect(), // long, not UTF-8
        other => other.as_bytes().to_vec(),
    }
}

fn fixed_salt(tok: &str) -> Vec<u8> {
    match tok {
        "s1" => b"\x5a\x17\x11\x11\x00\x01\x40\x02\x80\x03\x00\x04\x00\x05\x00\x06".to_vec(),
        "s2" => b"\x5a\x17\x22\x22\x00\x01\x40\x02\x80\x03\x00\x04\x00\x05\x00\x07".to_vec(),
        "s3" => (0u8..32).collect(), // longer than 16 bytes (raw / object store only)
        other => other.as_bytes().to_vec(),
    }
}

fn payload_bytes(tok: &str) -> Vec<u8> {
    let task = "7a5c0000-0000-4000-8000-000000000001";
    let op = |n: usize| {
        format!(
            "{{\"Update\":{{\"uuid\":\"{task}\",\"property\":\"description\",\"value\":\"{MARKER} #{n}\",\"timestamp\":\"2021-10-11T12:47:07Z\"}}}}"
        )
    };
    match tok {
        "p0" => vec![],
        "p1" => b"{".to_vec(),
        "p2" => format!("{{\"operations\":[{}]}}", op(2)).into_bytes(),
        "p100" => {
            let mut s = format!("{{\"operations\":[{{\"Delete\":{{\"uuid\":\"{task}\"}}}}],\"x\":\"{MARKER}");
            while s.len() < 98 {
                s.push('.');
            }
            s.truncate(98);
            s.push_str("\"}");
            assert_eq!(s.len(), 100);
            s.into_bytes()
        }
        "p70k" => {
            let mut s = String::from("{\"operations\":[");
            let mut n = 0;
            while s.len() < 69_000 {
                if n > 0 {
                    s.push(',');
                }
                s.push_str(&op(n));
                n += 1;
            }
            s.push_str("],\"pad\":\"");
            while s.len() < 69_998 {
                s.push('x');
            }
            s.push_str("\"}");
            assert_eq!(s.len(), 70_000);
            s.into_bytes()
        }
        other => format!("{{\"operations\":[],\"note\":\"{MARKER} {other}\"}}").into_bytes(),
    }
}

const PAYLOAD_TOKENS: &[&str] = &["p0", "p1", "p2", "p100", "p70k"];

fn payload_token(bytes: &[u8]) -> String {
    for t in PAYLOAD_TOKENS {
        if payload_bytes(t) == bytes {
            return t.to_string();
        }
    }
    format!("?unknown({} bytes)", bytes.len())
}

type Lab = (String, String, String); // kind, parent token, vid token
type Key = (String, String); // secret token, salt token

fn lab_of(v: &Value) -> Lab {
    let a = v.as_array().expect("label");
    (
        a[0].as_str().unwrap().to_string(),
        a[1].as_str().unwrap().to_string(),
        a[2].as_str().unwrap().to_string(),
    )
}
fn key_of(v: &Value) -> Key {
    let a = v.as_array().expect("key");
    (a[0].as_str().unwrap().to_string(), a[1].as_str().unwrap().to_string())
}
fn lab_json(l: &Lab) -> Value {
    json!([l.0, l.1, l.2])
}
fn key_json(k: &Key) -> Value {
    json!([k.0, k.1])
}

// ------------------------------------------------------------------------------------------
// object store gate (never blocks, never fails)

struct PassGate;
#[async_trait]
impl Gate for PassGate {
    async fn request(&mut self, _client: usize, _req: Value) -> Fault {
        Fault::None
    }
    fn reply(&mut self, _client: usize, _res: Value) {}
}

// ------------------------------------------------------------------------------------------
// a recording HTTP sync server (docs/src/http.md); the harness owns its tables

#[derive(Default)]
struct HttpState {
    versions: Vec<(Uuid, Uuid, Vec<u8>)>, // parent, id, body
    snapshot: Option<(Uuid, Vec<u8>)>,
    /// every request as received: (request line + headers, body)
    requests: Vec<(String, Vec<u8>)>,
}

fn http_respond(stream: &mut TcpStream, status: &str, headers: &[(String, String)], body: &[u8]) {
    let mut out = format!("HTTP/1.1 {status}\r\nConnection: close\r\nContent-Length: {}\r\n", body.len());
    for (k, v) in headers {
        out.push_str(&format!("{k}: {v}\r\n"));
    }
    out.push_str("\r\n");
    let _ = stream.write_all(out.as_bytes());
    let _ = stream.write_all(body);
    let _ = stream.flush();
}

fn http_handle(mut stream: TcpStream, state: Arc<Mutex<HttpState>>) {
    let mut reader = BufReader::new(stream.try_clone().unwrap());
    let mut line = String::new();
    if reader.read_line(&mut line).is_err() {
        return;
    }
    let mut head = line.clone();
    let parts: Vec<String> = line.split_whitespace().map(|s| s.to_string()).collect();
    if parts.len() < 2 {
        return;
    }
    let (method, path) = (parts[0].clone(), parts[1].clone());
    let mut headers: HashMap<String, String> = HashMap::new();
    loop {
        let mut h = String::new();
        if reader.read_line(&mut h).is_err() || h == "\r\n" || h == "\n" || h.is_empty() {
            break;
        }
        head.push_str(&h);
        if let Some((k, v)) = h.split_once(':') {
            headers.insert(k.trim().to_lowercase(), v.trim().to_string());
        }
    }
    let len: usize = headers.get("content-length").and_then(|v| v.parse().ok()).unwrap_or(0);
    let mut body = vec![0u8; len];
    if len > 0 && reader.read_exact(&mut body).is_err() {
        return;
    }
    let mut st = state.lock().unwrap();
    if method == "POST" || st.requests.len() < 400 {
        st.requests.push((head.clone(), body.clone()));
    }
    let seg = "application/vnd.taskchampion.history-segment".to_string();
    let snapct = "application/vnd.taskchampion.snapshot".to_string();
    let last = path.rsplit('/').next().unwrap_or("").to_string();
    let (status, hdrs, rbody): (String, Vec<(String, String)>, Vec<u8>) =
        if method == "POST" && path.contains("/v1/client/add-version/") {
            match Uuid::parse_str(&last) {
                Err(_) => ("400 Bad Request".into(), vec![], vec![]),
                Ok(parent) => {
                    let latest = st.versions.last().map(|v| v.1);
                    if headers.get("content-type") != Some(&seg) {
                        ("400 Bad Request".into(), vec![], vec![])
                    } else if latest.is_some() && latest != Some(parent) {
                        (
                            "409 Conflict".into(),
                            vec![("X-Parent-Version-Id".into(), latest.unwrap().to_string())],
                            vec![],
                        )
                    } else {
                        let id = Uuid::new_v4();
                        st.versions.push((parent, id, body));
                        ("200 OK".into(), vec![("X-Version-Id".into(), id.to_string())], vec![])
                    }
                }
            }
        } else if method == "GET" && path.contains("/v1/client/get-child-version/") {
            match Uuid::parse_str(&last) {
                Err(_) => ("400 Bad Request".into(), vec![], vec![]),
                Ok(parent) => match st.versions.iter().find(|v| v.0 == parent) {
                    Some(v) => (
                        "200 OK".into(),
                        vec![
                            ("Content-Type".into(), seg.clone()),
                            ("X-Version-Id".into(), v.1.to_string()),
                            ("X-Parent-Version-Id".into(), v.0.to_string()),
                        ],
                        v.2.clone(),
                    ),
                    None => ("404 Not Found".into(), vec![], vec![]),
                },
            }
        } else if method == "POST" && path.contains("/v1/client/add-snapshot/") {
            match Uuid::parse_str(&last) {
                Err(_) => ("400 Bad Request".into(), vec![], vec![]),
                Ok(ver) => {
                    if headers.get("content-type") != Some(&snapct) {
                        ("400 Bad Request".into(), vec![], vec![])
                    } else {
                        st.snapshot = Some((ver, body));
                        ("200 OK".into(), vec![], vec![])
                    }
                }
            }
        } else if method == "GET" && path.ends_with("/v1/client/snapshot") {
            match &st.snapshot {
                Some((v, b)) => (
                    "200 OK".into(),
                    vec![("Content-Type".into(), snapct.clone()), ("X-Version-Id".into(), v.to_string())],
                    b.clone(),
                ),
                None => ("404 Not Found".into(), vec![], vec![]),
            }
        } else {
            ("404 Not Found".into(), vec![], vec![])
        };
    drop(st);
    http_respond(&mut stream, &status, &hdrs, &rbody);
}

fn http_server() -> (String, Arc<Mutex<HttpState>>) {
    let listener = TcpListener::bind("127.0.0.1:0").expect("bind");
    let port = listener.local_addr().unwrap().port();
    let state = Arc::new(Mutex::new(HttpState::default()));
    let st = state.clone();
    std::thread::spawn(move || {
        for s in listener.incoming().flatten() {
            let st = st.clone();
            std::thread::spawn(move || http_handle(s, st));
        }
    });
    (format!("http://127.0.0.1:{port}"), state)
}

// ------------------------------------------------------------------------------------------
// the engine

enum Store {
    Raw { blobs: HashMap<Lab, Vec<u8>> },
    Cloud { store: SharedStore },
    Http,
    Git,
}

enum ReadOut {
    Returned { parent: Option<Uuid>, vid: Uuid, data: Vec<u8> },
    NotFound,
    Error(String),
    Panic(String),
}

struct Ctx {
    indep: Indep,
    dir: PathBuf,
    out: Vec<Value>,
    /// process-wide: the HTTP server, its clients, the git repository and its handles
    http: Option<(String, Arc<Mutex<HttpState>>)>,
    http_clients: HashMap<Key, Box<dyn Server>>,
    git_dir: Option<PathBuf>,
    git_salt: Vec<u8>,
    git_handles: HashMap<Key, Box<dyn Server>>,
    /// the git working tree has changes the harness has not committed yet
    git_dirty: bool,
    in_sweep: bool,
    /// byte positions changed by single mutations in this behaviour: a later mutation never
    /// touches them again, so that two mutations cannot cancel each other
    touched: std::collections::HashSet<usize>,
    /// per behaviour
    backend: String,
    store: Store,
    vids: HashMap<String, Uuid>,
    nver: usize,
    step_no: u64,
    seed: u64,
    threads: usize,
    dump: Vec<Value>,
}

fn vname(parent: Uuid, child: Uuid) -> String {
    format!("v-{}-{}", parent.as_simple(), child.as_simple())
}
fn sname(v: Uuid) -> String {
    format!("s-{}", v.as_simple())
}

impl Ctx {
    fn new(dir: PathBuf, seed: u64) -> Ctx {
        Ctx {
            indep: Indep::default(),
            dir,
            out: vec![],
            http: None,
            http_clients: HashMap::new(),
            git_dir: None,
            git_salt: vec![],
            git_handles: HashMap::new(),
            git_dirty: false,
            in_sweep: false,
            touched: Default::default(),
            backend: String::new(),
            store: Store::Http,
            vids: HashMap::new(),
            nver: 0,
            step_no: 0,
            seed,
            threads: 8,
            dump: vec![],
        }
    }

    fn rnd(&mut self, n: usize) -> usize {
        // splitmix64 on (seed, step)
        self.step_no += 1;
        let mut z = self.seed.wrapping_add(self.step_no.wrapping_mul(0x9E3779B97F4A7C15));
        z = (z ^ (z >> 30)).wrapping_mul(0xBF58476D1CE4E5B9);
        z = (z ^ (z >> 27)).wrapping_mul(0x94D049BB133111EB);
        z ^= z >> 31;
        if n == 0 { 0 } else { (z % n as u64) as usize }
    }

    fn vid(&mut self, tok: &str) -> Uuid {
        if tok == "v0" {
            return Uuid::nil();
        }
        *self.vids.entry(tok.to_string()).or_insert_with(Uuid::new_v4)
    }

    fn salt(&self, tok: &str) -> Vec<u8> {
        if self.backend == "git" && tok == "s1" {
            return self.git_salt.clone();
        }
        fixed_salt(tok)
    }

    /// the documented binding (used only to craft `Foreign` values)
    fn doc_bind(&mut self, lab: &Lab) -> Uuid {
        if self.backend == "http" && lab.0 == "v" {
            self.vid(&lab.1.clone())
        } else {
            self.vid(&lab.2.clone())
        }
    }

    // ---- git repository (one per process, reset per behaviour) ----

    fn git_meta_write(&self, latest: Uuid, salt: &[u8]) {
        let d = self.git_dir.as_ref().unwrap();
        let m = json!({"latest_version": latest.as_simple().to_string(), "salt": b64enc(salt)});
        std::fs::write(d.join("meta"), serde_json::to_vec(&m).unwrap()).unwrap();
    }

    fn git_meta_read(&self) -> (Uuid, Vec<u8>) {
        let d = self.git_dir.as_ref().unwrap();
        let m: Value = serde_json::from_slice(&std::fs::read(d.join("meta")).unwrap()).unwrap();
        (
            Uuid::parse_str(m["latest_version"].as_str().unwrap()).unwrap(),
            b64dec(m["salt"].as_str().unwrap()).unwrap(),
        )
    }

    async fn git_open(&mut self, key: &Key) -> Result<(), String> {
        if self.git_handles.contains_key(key) {
            return Ok(());
        }
        // opening a repository discards uncommitted changes: commit what the harness planted
        self.git_commit();
        let d = self.git_dir.clone().unwrap();
        let srv = ServerConfig::Git {
            local_path: d,
            branch: "main".into(),
            remote: None,
            local_only: true,
            encryption_secret: secret_bytes(&key.0),
            git_path: None,
        }
        .into_server()
        .await
        .map_err(|e| format!("{e:#}"))?;
        self.git_handles.insert(key.clone(), srv);
        Ok(())
    }

    async fn git_reset(&mut self) {
        if self.git_dir.is_none() {
            let d = self.dir.join("gitrepo");
            let _ = std::fs::remove_dir_all(&d);
            self.git_dir = Some(d);
            // the real code creates the repository and draws the salt
            self.git_open(&("k1".into(), "s1".into())).await.expect("git open");
            self.git_salt = self.git_meta_read().1;
        }
        let d = self.git_dir.clone().unwrap();
        for e in std::fs::read_dir(&d).unwrap().flatten() {
            let n = e.file_name().to_string_lossy().to_string();
            if n.starts_with("v-") || n == "snapshot" {
                let _ = std::fs::remove_file(e.path());
            }
        }
        self.git_meta_write(Uuid::nil(), &self.git_salt.clone());
        self.git_dirty = true;
    }

    /// stage and commit whatever the harness changed in the working tree
    fn git_commit(&mut self) {
        if self.git_dirty && self.git_dir.as_ref().map(|d| d.join(".git").exists()).unwrap_or(false) {
            let d = self.git_dir.clone().unwrap();
            run_git(&d, &["add", "-A"]);
            run_git(&d, &["commit", "-q", "--allow-empty", "-m", "harness: planted"]);
        }
        self.git_dirty = false;
    }

    /// make the `meta` file carry the salt of `key` (the salt is part of the untrusted storage)
    fn git_set_salt(&mut self, key: &Key) {
        let (latest, cur) = self.git_meta_read();
        let want = self.salt(&key.1);
        if cur != want {
            self.git_meta_write(latest, &want);
            self.git_dirty = true;
        }
    }

    // ---- http ----

    fn http_state(&mut self) -> Arc<Mutex<HttpState>> {
        if self.http.is_none() {
            self.http = Some(http_server());
        }
        self.http.as_ref().unwrap().1.clone()
    }

    async fn http_open(&mut self, key: &Key) -> Result<(), String> {
        if self.http_clients.contains_key(key) {
            return Ok(());
        }
        let _ = self.http_state();
        let url = self.http.as_ref().unwrap().0.clone();
        let salt = self.salt(&key.1);
        let client_id = Uuid::from_slice(&salt).map_err(|e| format!("salt is not a client id: {e}"))?;
        let srv = ServerConfig::Remote { url, client_id, encryption_secret: secret_bytes(&key.0) }
            .into_server()
            .await
            .map_err(|e| format!("{e:#}"))?;
        self.http_clients.insert(key.clone(), srv);
        Ok(())
    }

    // ---- behaviours ----

    async fn reset(&mut self, backend: &str, id: &Value) {
        self.backend = backend.to_string();
        self.vids.clear();
        self.touched.clear();
        self.nver = 0;
        self.store = match backend {
            "raw" => Store::Raw { blobs: HashMap::new() },
            "cloud" => Store::Cloud { store: init_store(&fixed_salt("s1")) },
            "http" => {
                let st = self.http_state();
                *st.lock().unwrap() = HttpState::default();
                Store::Http
            }
            "git" => {
                self.git_reset().await;
                Store::Git
            }
            other => panic!("unknown backend {other}"),
        };
        self.out.push(json!({"a":"Reset","backend":backend,"id":id}));
    }

    /// a server of the current backend for a client holding `key`; for the object store and git
    /// the salt is what the storage says it is
    async fn with_server<T, F>(&mut self, key: &Key, f: F) -> Result<T, String>
    where
        F: for<'a> FnOnce(&'a mut Box<dyn Server>) -> std::pin::Pin<Box<dyn std::future::Future<Output = T> + 'a>>,
    {
        match &self.store {
            Store::Cloud { store } => {
                let store = store.clone();
                let salt = self.salt(&key.1);
                let old = store.lock().unwrap().objects.get("salt").cloned();
                store.lock().unwrap().objects.insert("salt".into(), MemObject { value: salt, creation: 0 });
                let srv = cloud_server(store.clone(), Box::new(PassGate), 0, 1000, &secret_bytes(&key.0));
                let r = match srv {
                    Ok(mut srv) => catch(f(&mut srv)).await,
                    Err(e) => Err(format!("open: {e:#}")),
                };
                if let Some(o) = old {
                    store.lock().unwrap().objects.insert("salt".into(), o);
                }
                r
            }
            Store::Http => {
                self.http_open(key).await?;
                let mut srv = self.http_clients.remove(key).unwrap();
                let r = catch(f(&mut srv)).await;
                self.http_clients.insert(key.clone(), srv);
                r
            }
            Store::Git => {
                self.git_set_salt(key);
                let r = match self.git_open(key).await {
                    Ok(()) => {
                        let mut srv = self.git_handles.remove(key).unwrap();
                        let r = catch(f(&mut srv)).await;
                        self.git_handles.insert(key.clone(), srv);
                        r
                    }
                    Err(e) => Err(format!("open: {e}")),
                };
                r
            }
            Store::Raw { .. } => Err("raw has no server".into()),
        }
    }

    /// the sealed bytes the storage holds under a label
    fn stored(&mut self, lab: &Lab) -> Option<Vec<u8>> {
        let p = self.vid(&lab.1.clone());
        let c = self.vid(&lab.2.clone());
        match &self.store {
            Store::Raw { blobs } => blobs.get(lab).cloned(),
            Store::Cloud { store } => {
                let name = if lab.0 == "v" { vname(p, c) } else { sname(c) };
                store.lock().unwrap().objects.get(&name).map(|o| o.value.clone())
            }
            Store::Http => {
                let st = self.http.as_ref().unwrap().1.lock().unwrap();
                let r = if lab.0 == "v" {
                    st.versions.iter().find(|v| v.0 == p && v.1 == c).map(|v| v.2.clone())
                } else {
                    st.snapshot.as_ref().filter(|s| s.0 == c).map(|s| s.1.clone())
                };
                drop(st);
                r
            }
            Store::Git => {
                let d = self.git_dir.as_ref().unwrap();
                if lab.0 == "v" {
                    std::fs::read(d.join(vname(p, c))).ok()
                } else {
                    let raw = std::fs::read(d.join("snapshot")).ok()?;
                    let j: Value = serde_json::from_slice(&raw).ok()?;
                    if Uuid::parse_str(j["version_id"].as_str()?).ok()? != c {
                        return None;
                    }
                    b64dec(j["payload"].as_str()?)
                }
            }
        }
    }

    /// store bytes under a label, shadowing what the storage held for the same kind and parent.
    /// `commit`: for git, also stage and commit (not done inside sweeps)
    fn plant(&mut self, lab: &Lab, bytes: &[u8], commit: bool) {
        let p = self.vid(&lab.1.clone());
        let c = self.vid(&lab.2.clone());
        match &mut self.store {
            Store::Raw { blobs } => {
                blobs.insert(lab.clone(), bytes.to_vec());
            }
            Store::Cloud { store } => {
                let mut s = store.lock().unwrap();
                let prefix = if lab.0 == "v" { format!("v-{}-", p.as_simple()) } else { "s-".to_string() };
                let names: Vec<String> = s.objects.keys().filter(|n| n.starts_with(&prefix)).cloned().collect();
                for n in names {
                    s.objects.remove(&n);
                }
                let name = if lab.0 == "v" { vname(p, c) } else { sname(c) };
                s.objects.insert(name, MemObject { value: bytes.to_vec(), creation: 1 });
            }
            Store::Http => {
                let mut st = self.http.as_ref().unwrap().1.lock().unwrap();
                if lab.0 == "v" {
                    st.versions.retain(|v| v.0 != p);
                    st.versions.push((p, c, bytes.to_vec()));
                } else {
                    st.snapshot = Some((c, bytes.to_vec()));
                }
            }
            Store::Git => {
                let d = self.git_dir.clone().unwrap();
                if lab.0 == "v" {
                    let prefix = format!("v-{}-", p.as_simple());
                    for e in std::fs::read_dir(&d).unwrap().flatten() {
                        if e.file_name().to_string_lossy().starts_with(&prefix) {
                            let _ = std::fs::remove_file(e.path());
                        }
                    }
                    std::fs::write(d.join(vname(p, c)), bytes).unwrap();
                } else {
                    let j = json!({"version_id": c.as_simple().to_string(), "payload": b64enc(bytes)});
                    std::fs::write(d.join("snapshot"), serde_json::to_vec(&j).unwrap()).unwrap();
                }
                if commit {
                    self.git_dirty = true;
                }
            }
        }
    }

    /// Server::get_child_version / get_snapshot / hook unseal for the value under the label
    async fn read(&mut self, key: &Key, lab: &Lab) -> ReadOut {
        let p = self.vid(&lab.1.clone());
        let c = self.vid(&lab.2.clone());
        if let Store::Raw { blobs } = &self.store {
            let Some(blob) = blobs.get(lab).cloned() else { return ReadOut::NotFound };
            let (secret, salt) = (secret_bytes(&key.0), self.salt(&key.1));
            return match std::panic::catch_unwind(|| unseal(&secret, &salt, c, blob)) {
                Ok(Ok(data)) => ReadOut::Returned { parent: None, vid: c, data },
                Ok(Err(e)) => ReadOut::Error(format!("{e:#}")),
                Err(_) => ReadOut::Panic("panic in unseal".into()),
            };
        }
        if matches!(self.store, Store::Git) && !self.in_sweep {
            // single planted values are committed before a client reads the repository
            self.git_set_salt(key);
            self.git_commit();
        }
        if let Store::Cloud { store } = &self.store {
            if lab.0 == "v" {
                // the storage decides which version is the latest one
                store.lock().unwrap().objects.insert(
                    "latest".into(),
                    MemObject { value: c.as_simple().to_string().into_bytes(), creation: 1 },
                );
            }
        }
        let is_v = lab.0 == "v";
        let r = self
            .with_server(key, move |srv| {
                Box::pin(async move {
                    if is_v {
                        match srv.get_child_version(p).await {
                            Ok(GetVersionResult::Version { version_id, parent_version_id, history_segment }) => {
                                ReadOut::Returned { parent: Some(parent_version_id), vid: version_id, data: history_segment }
                            }
                            Ok(GetVersionResult::NoSuchVersion) => ReadOut::NotFound,
                            Err(e) => ReadOut::Error(format!("{e:#}")),
                        }
                    } else {
                        match srv.get_snapshot().await {
                            Ok(Some((v, data))) => ReadOut::Returned { parent: None, vid: v, data },
                            Ok(None) => ReadOut::NotFound,
                            Err(e) => ReadOut::Error(format!("{e:#}")),
                        }
                    }
                })
            })
            .await;
        match r {
            Ok(o) => o,
            Err(e) if e.starts_with("open: ") => ReadOut::Error(e),
            Err(e) => ReadOut::Panic(e),
        }
    }

    /// classify a read against the label it was made for
    fn read_result(&mut self, lab: &Lab, o: &ReadOut) -> (String, String, String) {
        let p = self.vid(&lab.1.clone());
        let c = self.vid(&lab.2.clone());
        match o {
            ReadOut::Returned { parent, vid, data } => {
                if *vid != c || (lab.0 == "v" && parent.is_some() && *parent != Some(p)) {
                    ("mislabelled".into(), payload_token(data), String::new())
                } else {
                    ("returned".into(), payload_token(data), String::new())
                }
            }
            ReadOut::NotFound => ("none".into(), "~".into(), String::new()),
            ReadOut::Error(e) => ("error".into(), "~".into(), e.clone()),
            ReadOut::Panic(e) => ("panic".into(), "~".into(), e.clone()),
        }
    }

    /// decode stored bytes with the independent implementation into the symbolic term
    fn term(&mut self, blob: &[u8], expect_pt: Option<&[u8]>) -> Value {
        let fmt = if blob.is_empty() { "~".to_string() } else { blob[0].to_string() };
        let nonce_hex = if blob.len() >= 13 { hex(&blob[1..13]) } else { String::new() };
        let mut opened: Vec<(Key, String, Vec<u8>)> = vec![];
        let mut vtoks: Vec<String> = self.vids.keys().cloned().collect();
        vtoks.push("v0".into());
        vtoks.sort();
        for k in ["k1", "k2", "k0", "k3"] {
            for s in ["s1", "s2", "s3"] {
                let have = self.indep.keys.contains_key(&(secret_bytes(k), self.salt(s)));
                // only keys that are in play (already derived) plus the honest one
                if !have && !(k == "k1" && s == "s1") {
                    continue;
                }
                for vt in &vtoks {
                    let u = self.vid(vt);
                    let (sec, sal) = (secret_bytes(k), self.salt(s));
                    if let Some(pt) = self.indep.open(&sec, &sal, u, blob) {
                        opened.push(((k.to_string(), s.to_string()), vt.clone(), pt));
                    }
                }
            }
        }
        let ptlen_known = expect_pt.map(|p| p.len() as i64);
        let mut t = json!({
            "fmt": fmt, "nonce_hex": nonce_hex, "key": ["~","~"], "aad": ["~","~"], "pt": "~",
            "intact": "bad", "clear": "no",
        });
        let mut diag = json!({"len": blob.len(), "fmt_byte": blob.first().copied().map(|b| b as i64).unwrap_or(-1),
                              "opened_by": opened.len()});
        if opened.len() == 1 {
            let (k, vt, pt) = &opened[0];
            t["key"] = key_json(k);
            t["aad"] = json!(["task", vt]);
            t["pt"] = json!(payload_token(pt));
            t["intact"] = json!("ok");
            diag["ptlen"] = json!(pt.len());
            diag["nonce_len"] = json!(blob.len() as i64 - 17 - pt.len() as i64);
            if pt.len() >= 8 && contains(blob, pt) {
                t["clear"] = json!("yes");
            }
            if let Some(e) = expect_pt {
                diag["roundtrip"] = json!(e == &pt[..]);
            }
        } else if let Some(n) = ptlen_known {
            diag["ptlen"] = json!(n);
            diag["nonce_len"] = json!(blob.len() as i64 - 17 - n);
        }
        if contains(blob, MARKER.as_bytes()) {
            t["clear"] = json!("yes");
        }
        if let Some(e) = expect_pt {
            if e.len() >= 8 && contains(blob, e) {
                t["clear"] = json!("yes");
            }
        }
        json!({"term": t, "diag": diag})
    }

    fn log_put(&mut self, a: &str, key: &Key, lab: &Lab, pt_tok: &str, extra: Value) {
        let pt = payload_bytes(pt_tok);
        let blob = self.stored(lab);
        {
            let (sec, sal) = (secret_bytes(&key.0), self.salt(&key.1));
            let _ = self.indep.key(&sec, &sal);
        }
        let mut ev = json!({"a": a, "key": key_json(key), "lab": lab_json(lab), "pt": pt_tok});
        match blob {
            Some(b) => {
                let td = self.term(&b, Some(&pt));
                ev["term"] = td["term"].clone();
                ev["diag"] = td["diag"].clone();
                if b.len() <= 200 && self.dump.len() < 64 {
                    let (k, s) = (secret_bytes(&key.0), self.salt(&key.1));
                    let (pu, cu) = (self.vid(&lab.1.clone()), self.vid(&lab.2.clone()));
                    let be = self.backend.clone();
                    self.dump.push(json!({"backend": be, "secret": hex(&k), "salt": hex(&s),
                        "lab": lab_json(lab), "vids": {"parent": hex(pu.as_bytes()),
                        "own": hex(cu.as_bytes())},
                        "bound": td["term"]["aad"][1], "blob": hex(&b), "pt": hex(&pt)}));
                }
            }
            None => {
                ev["term"] = json!({"fmt":"~","nonce_hex":"","key":["~","~"],"aad":["~","~"],"pt":"~","intact":"missing","clear":"no"});
                ev["diag"] = json!({"len":-1,"fmt_byte":-1,"opened_by":0,"ptlen":-1,"nonce_len":-1,"roundtrip":false});
            }
        }
        if let Some(o) = extra.as_object() {
            for (k, v) in o {
                ev[k] = v.clone();
            }
        }
        self.out.push(ev);
    }

    async fn step(&mut self, s: &Value) {
        let a = s["a"].as_str().unwrap();
        match a {
            "Backend" => {}
            "AddVersion" => {
                let key = key_of(&s["key"]);
                let pt_tok = s["pt"].as_str().unwrap().to_string();
                let pt = payload_bytes(&pt_tok);
                let ptok = format!("v{}", self.nver);
                let ctok = format!("v{}", self.nver + 1);
                let parent = self.vid(&ptok);
                let r = self
                    .with_server(&key, move |srv| Box::pin(async move { srv.add_version(parent, pt).await }))
                    .await;
                match r {
                    Ok(Ok((AddVersionResult::Ok(v), _))) => {
                        self.vids.insert(ctok.clone(), v);
                        self.nver += 1;
                        let lab = ("v".to_string(), ptok, ctok);
                        self.log_put("AddVersion", &key, &lab, &pt_tok, json!({}));
                    }
                    Ok(Ok((AddVersionResult::ExpectedParentVersion(v), _))) => {
                        self.out.push(json!({"a":"Failed","what":"AddVersion","msg":format!("expected parent {v}")}))
                    }
                    Ok(Err(e)) => self.out.push(json!({"a":"Failed","what":"AddVersion","msg":format!("{e:#}")})),
                    Err(e) => self.out.push(json!({"a":"Failed","what":"AddVersion","msg":format!("panic: {e}")})),
                }
            }
            "AddSnapshot" => {
                let key = key_of(&s["key"]);
                let lab = lab_of(&s["lab"]);
                let pt_tok = s["pt"].as_str().unwrap().to_string();
                let pt = payload_bytes(&pt_tok);
                let v = self.vid(&lab.2.clone());
                let r = self
                    .with_server(&key, move |srv| Box::pin(async move { srv.add_snapshot(v, pt).await }))
                    .await;
                match r {
                    Ok(Ok(())) => self.log_put("AddSnapshot", &key, &lab, &pt_tok, json!({})),
                    Ok(Err(e)) => self.out.push(json!({"a":"Failed","what":"AddSnapshot","msg":format!("{e:#}")})),
                    Err(e) => self.out.push(json!({"a":"Failed","what":"AddSnapshot","msg":format!("panic: {e}")})),
                }
            }
            "SealRaw" => {
                let key = key_of(&s["key"]);
                let lab = lab_of(&s["lab"]);
                let pt_tok = s["pt"].as_str().unwrap().to_string();
                let pt = payload_bytes(&pt_tok);
                let v = self.vid(&lab.2.clone());
                let sealer = s["sealer"].as_str().unwrap_or("hook").to_string();
                let (secret, salt) = (secret_bytes(&key.0), self.salt(&key.1));
                let blob = if sealer == "indep" {
                    Ok(self.indep.seal(&secret, &salt, v, &pt))
                } else {
                    match std::panic::catch_unwind(|| seal(&secret, &salt, v, pt.clone())) {
                        Ok(Ok(b)) => Ok(b),
                        Ok(Err(e)) => Err(format!("{e:#}")),
                        Err(_) => Err("panic in seal".into()),
                    }
                };
                match blob {
                    Ok(b) => {
                        // make sure the independent decoder knows this key
                        let _ = self.indep.key(&secret, &salt);
                        self.plant(&lab, &b, true);
                        self.log_put("SealRaw", &key, &lab, &pt_tok, json!({"sealer": sealer}));
                    }
                    Err(e) => self.out.push(json!({"a":"Failed","what":"SealRaw","msg":e})),
                }
            }
            "Mutate" => {
                let lab = lab_of(&s["lab"]);
                let m = s["m"].as_str().unwrap().to_string();
                let Some(mut b) = self.stored(&lab) else {
                    self.out.push(json!({"a":"Failed","what":"Mutate","msg":"nothing stored under the label"}));
                    return;
                };
                let how;
                match m.as_str() {
                    "flip" => {
                        let free: Vec<usize> = (0..b.len()).filter(|i| !self.touched.contains(i)).collect();
                        if free.is_empty() {
                            b.push(0x55); // nothing (left) to flip: garbage appended instead
                            how = "grow".into();
                        } else {
                            let pos = s["pos"].as_u64().map(|x| x as usize).unwrap_or_else(|| free[self.rnd(free.len())]);
                            let mask = s["mask"].as_u64().map(|x| x as u8).unwrap_or(if self.rnd(2) == 0 { 0x01 } else { 0x80 });
                            b[pos] ^= mask;
                            self.touched.insert(pos);
                            how = format!("byte {pos} xor {mask:#04x}");
                        }
                    }
                    "cut" => {
                        let n = s["len"].as_u64().map(|x| x as usize).unwrap_or_else(|| self.rnd(b.len().max(1)));
                        b.truncate(n);
                        how = format!("truncated to {n}");
                    }
                    "fmt" => {
                        if b.is_empty() {
                            b.push(2);
                        } else {
                            let choices = [0u8, 2, 255, 0x31];
                            b[0] = choices[self.rnd(choices.len())];
                        }
                        self.touched.insert(0);
                        how = format!("format byte {}", b[0]);
                    }
                    other => panic!("unknown mutation {other}"),
                }
                self.plant(&lab, &b, true);
                self.out.push(json!({"a":"Mutate","m":m,"lab":lab_json(&lab),"how":how}));
            }
            "Relabel" => {
                let from = lab_of(&s["from"]);
                let to = lab_of(&s["lab"]);
                let Some(b) = self.stored(&from) else {
                    self.out.push(json!({"a":"Failed","what":"Relabel","msg":"nothing stored under the label"}));
                    return;
                };
                self.plant(&to, &b, true);
                self.out.push(json!({"a":"Relabel","from":lab_json(&from),"lab":lab_json(&to)}));
            }
            "Foreign" => {
                let lab = lab_of(&s["lab"]);
                let key = key_of(&s["key"]);
                let pt_tok = s["pt"].as_str().unwrap().to_string();
                let v = self.doc_bind(&lab);
                let (secret, salt) = (secret_bytes(&key.0), self.salt(&key.1));
                let b = self.indep.seal(&secret, &salt, v, &payload_bytes(&pt_tok));
                self.plant(&lab, &b, true);
                self.log_put("Foreign", &key, &lab, &pt_tok, json!({"sealer":"indep"}));
            }
            "Read" => {
                let key = key_of(&s["key"]);
                let lab = lab_of(&s["lab"]);
                let o = self.read(&key, &lab).await;
                let (res, pt, msg) = self.read_result(&lab, &o);
                self.out.push(json!({"a":"Read","key":key_json(&key),"lab":lab_json(&lab),"res":res,"pt":pt,"msg":msg}));
            }
            "Sweep" => self.sweep(s).await,
            "RelabelSweep" => self.relabel_sweep(s).await,
            "Scan" => self.scan(),
            other => panic!("unknown step {other}"),
        }
    }

    /// every single-byte flip (one mask) or every truncation length of the value under a label,
    /// each offered to a reader; the original value is put back afterwards
    async fn sweep(&mut self, s: &Value) {
        let key = key_of(&s["key"]);
        let lab = lab_of(&s["lab"]);
        let variant = s["variant"].as_str().unwrap().to_string(); // flip01 | flip80 | cut
        let stride = s["stride"].as_u64().unwrap_or(1).max(1) as usize;
        let edge = s["edge"].as_u64().unwrap_or(64) as usize;
        let Some(orig) = self.stored(&lab) else {
            self.out.push(json!({"a":"Failed","what":"Sweep","msg":"nothing stored under the label"}));
            return;
        };
        let n = orig.len();
        // positions: all, or (with a stride) the first and last `edge` positions and every
        // stride-th one in between
        let positions: Vec<usize> = (0..n).filter(|i| stride == 1 || *i < edge || *i + edge >= n || i % stride == 0).collect();
        let mutate = |i: usize| -> Vec<u8> {
            let mut b = orig.clone();
            match variant.as_str() {
                "flip01" => b[i] ^= 0x01,
                "flip80" => b[i] ^= 0x80,
                "cut" => b.truncate(i),
                other => panic!("unknown sweep {other}"),
            }
            b
        };
        let (mut errors, mut returned, mut panics, mut others) = (0usize, 0usize, 0usize, 0usize);
        let mut first_bad: i64 = -1;
        if let Store::Raw { .. } = &self.store {
            // the hook derives the key on every call: spread the calls over threads
            let (secret, salt) = (secret_bytes(&key.0), self.salt(&key.1));
            let c = self.vid(&lab.2.clone());
            let results: Mutex<Vec<(usize, u8)>> = Mutex::new(vec![]);
            let next = std::sync::atomic::AtomicUsize::new(0);
            std::thread::scope(|sc| {
                for _ in 0..self.threads {
                    sc.spawn(|| loop {
                        let k = next.fetch_add(1, std::sync::atomic::Ordering::SeqCst);
                        if k >= positions.len() {
                            break;
                        }
                        let i = positions[k];
                        let b = mutate(i);
                        let r = match std::panic::catch_unwind(|| unseal(&secret, &salt, c, b)) {
                            Ok(Ok(_)) => 1u8,
                            Ok(Err(_)) => 0u8,
                            Err(_) => 2u8,
                        };
                        results.lock().unwrap().push((i, r));
                    });
                }
            });
            let mut rs = results.into_inner().unwrap();
            rs.sort();
            for (i, r) in rs {
                match r {
                    0 => errors += 1,
                    1 => returned += 1,
                    _ => panics += 1,
                }
                if r != 0 && first_bad < 0 {
                    first_bad = i as i64;
                }
            }
        } else {
            self.in_sweep = true;
            for &i in &positions {
                let b = mutate(i);
                self.plant(&lab, &b, false);
                let o = self.read(&key, &lab).await;
                match o {
                    ReadOut::Error(_) => errors += 1,
                    ReadOut::Returned { .. } => returned += 1,
                    ReadOut::Panic(_) => panics += 1,
                    ReadOut::NotFound => others += 1,
                }
                if !matches!(o, ReadOut::Error(_)) && first_bad < 0 {
                    first_bad = i as i64;
                }
            }
            self.plant(&lab, &orig, false);
            self.in_sweep = false;
        }
        let m = if variant == "cut" { "cut" } else { "flip" };
        self.out.push(json!({"a":"Sweep","m":m,"variant":variant,"key":key_json(&key),"lab":lab_json(&lab),
            "len":n,"n":positions.len(),"errors":errors,"returned":returned,"panics":panics,"others":others,
            "first_bad":first_bad}));
    }

    /// everything the harness can change in the storage, to put it back after a sweep
    fn save_store(&self) -> Value {
        match &self.store {
            Store::Raw { blobs } => json!(blobs.iter().map(|(l, b)| json!([lab_json(l), hex(b)])).collect::<Vec<_>>()),
            Store::Cloud { store } => {
                let s = store.lock().unwrap();
                json!(s.objects.iter().map(|(n, o)| json!([n, hex(&o.value), o.creation])).collect::<Vec<_>>())
            }
            Store::Http => {
                let st = self.http.as_ref().unwrap().1.lock().unwrap();
                json!({"versions": st.versions.iter().map(|v| json!([v.0.to_string(), v.1.to_string(), hex(&v.2)])).collect::<Vec<_>>(),
                       "snapshot": st.snapshot.as_ref().map(|s| json!([s.0.to_string(), hex(&s.1)]))})
            }
            Store::Git => {
                let d = self.git_dir.as_ref().unwrap();
                let mut files = vec![];
                for e in std::fs::read_dir(d).unwrap().flatten() {
                    if e.path().is_file() {
                        files.push(json!([e.file_name().to_string_lossy(), hex(&std::fs::read(e.path()).unwrap())]));
                    }
                }
                json!(files)
            }
        }
    }

    fn restore_store(&mut self, saved: &Value) {
        fn unhex(v: &Value) -> Vec<u8> {
            let s = v.as_str().unwrap().as_bytes();
            s.chunks(2).map(|c| u8::from_str_radix(std::str::from_utf8(c).unwrap(), 16).unwrap()).collect()
        }
        match &mut self.store {
            Store::Raw { blobs } => {
                blobs.clear();
                for e in saved.as_array().unwrap() {
                    blobs.insert(lab_of(&e[0]), unhex(&e[1]));
                }
            }
            Store::Cloud { store } => {
                let mut s = store.lock().unwrap();
                s.objects.clear();
                for e in saved.as_array().unwrap() {
                    s.objects.insert(e[0].as_str().unwrap().to_string(),
                        MemObject { value: unhex(&e[1]), creation: e[2].as_u64().unwrap() });
                }
            }
            Store::Http => {
                let mut st = self.http.as_ref().unwrap().1.lock().unwrap();
                st.versions = saved["versions"].as_array().unwrap().iter()
                    .map(|v| (Uuid::parse_str(v[0].as_str().unwrap()).unwrap(), Uuid::parse_str(v[1].as_str().unwrap()).unwrap(), unhex(&v[2])))
                    .collect();
                st.snapshot = saved["snapshot"].as_array().map(|s| (Uuid::parse_str(s[0].as_str().unwrap()).unwrap(), unhex(&s[1])));
            }
            Store::Git => {
                let d = self.git_dir.clone().unwrap();
                for e in std::fs::read_dir(&d).unwrap().flatten() {
                    if e.path().is_file() {
                        let _ = std::fs::remove_file(e.path());
                    }
                }
                for e in saved.as_array().unwrap() {
                    std::fs::write(d.join(e[0].as_str().unwrap()), unhex(&e[1])).unwrap();
                }
            }
        }
    }

    /// the value under `from` offered under EVERY other label over the given version ids, each
    /// time to a reader holding `key`; the storage is put back afterwards
    async fn relabel_sweep(&mut self, s: &Value) {
        let key = key_of(&s["key"]);
        let from = lab_of(&s["from"]);
        let vids: Vec<String> = s["vids"].as_array().unwrap().iter().map(|v| v.as_str().unwrap().to_string()).collect();
        let Some(blob) = self.stored(&from) else {
            self.out.push(json!({"a":"Failed","what":"RelabelSweep","msg":"nothing stored under the label"}));
            return;
        };
        let mut targets: Vec<Lab> = vec![];
        if from.0 == "r" {
            for c in &vids {
                targets.push(("r".into(), "~".into(), c.clone()));
            }
        } else {
            for p in &vids {
                for c in &vids {
                    if p != c {
                        targets.push(("v".into(), p.clone(), c.clone()));
                    }
                }
            }
            for c in &vids {
                targets.push(("s".into(), "~".into(), c.clone()));
            }
        }
        targets.retain(|t| *t != from);
        if matches!(self.store, Store::Git) {
            self.git_set_salt(&key);
            self.git_commit();
        }
        let saved = self.save_store();
        self.in_sweep = true;
        let mut results = vec![];
        for to in &targets {
            self.plant(to, &blob, false);
            let o = self.read(&key, to).await;
            let (res, pt, _) = self.read_result(to, &o);
            results.push(json!([lab_json(to), res, pt]));
            self.restore_store(&saved);
        }
        self.in_sweep = false;
        self.out.push(json!({"a":"RelabelSweep","from":lab_json(&from),"key":key_json(&key),"results":results}));
    }

    /// everything the storage holds (names and values; for HTTP every request received; for git
    /// every file of the working tree and every object of the repository) must be free of the
    /// plaintext marker
    fn scan(&mut self) {
        let mut items: Vec<(String, Vec<u8>)> = vec![];
        match &self.store {
            Store::Raw { blobs } => {
                for (l, b) in blobs {
                    items.push((format!("{l:?}"), b.clone()));
                }
            }
            Store::Cloud { store } => {
                for (n, o) in store.lock().unwrap().objects.iter() {
                    items.push((n.clone(), o.value.clone()));
                }
            }
            Store::Http => {
                let st = self.http.as_ref().unwrap().1.lock().unwrap();
                for (head, body) in &st.requests {
                    items.push((head.clone(), body.clone()));
                }
            }
            Store::Git => {
                let d = self.git_dir.clone().unwrap();
                let mut stack = vec![d.clone()];
                while let Some(p) = stack.pop() {
                    for e in std::fs::read_dir(&p).unwrap().flatten() {
                        let path = e.path();
                        if path.is_dir() {
                            stack.push(path);
                            continue;
                        }
                        let Ok(raw) = std::fs::read(&path) else { continue };
                        let name = path.strip_prefix(&d).unwrap().to_string_lossy().to_string();
                        // loose objects are zlib streams: look inside
                        if name.starts_with(".git/objects/") && !name.contains("pack") {
                            let mut z = flate2::read::ZlibDecoder::new(&raw[..]);
                            let mut plain = vec![];
                            if z.read_to_end(&mut plain).is_ok() {
                                items.push((format!("{name} (inflated)"), plain));
                            }
                        }
                        // the snapshot file wraps the sealed value in JSON / base64
                        if name == "snapshot" {
                            if let Ok(j) = serde_json::from_slice::<Value>(&raw) {
                                if let Some(b) = j["payload"].as_str().and_then(b64dec) {
                                    items.push(("snapshot (payload decoded)".into(), b));
                                }
                            }
                        }
                        items.push((name, raw));
                    }
                }
            }
        }
        let marker = MARKER.as_bytes();
        let marker_b64 = b64enc(marker);
        let mut hits: Vec<String> = vec![];
        let mut bytes = 0usize;
        for (n, b) in &items {
            bytes += b.len();
            if contains(n.as_bytes(), marker) || contains(b, marker) || contains(b, marker_b64.as_bytes()) {
                hits.push(n.clone());
            }
            for t in ["p2", "p100", "p70k"] {
                let p = payload_bytes(t);
                if contains(b, &p[..p.len().min(64)]) {
                    hits.push(format!("{n} contains the start of {t}"));
                }
            }
        }
        self.out.push(json!({"a":"Scan","items":items.len(),"bytes":bytes,"hits":hits.len(),
            "where": hits.iter().take(5).cloned().collect::<Vec<_>>()}));
    }

    /// replace nonce_hex by the index of the nonce in the order of first appearance
    fn finish(&mut self, out: &str) {
        let mut seen: HashMap<String, usize> = HashMap::new();
        let mut o = std::io::BufWriter::new(std::fs::File::create(out).unwrap());
        for ev in self.out.iter_mut() {
            if let Some(t) = ev.get_mut("term") {
                let h = t["nonce_hex"].as_str().unwrap_or("").to_string();
                let idx = if h.is_empty() {
                    0
                } else {
                    let n = seen.len() + 1;
                    *seen.entry(h).or_insert(n)
                };
                t.as_object_mut().unwrap().remove("nonce_hex");
                t["nonce"] = json!(idx);
            }
            writeln!(o, "{}", serde_json::to_string(ev).unwrap()).unwrap();
        }
        eprintln!("sealdrv: {} events, {} distinct nonces", self.out.len(), seen.len());
    }
}

async fn run_behaviour(ctx: &mut Ctx, backend: &str, id: Value, steps: &[Value]) {
    ctx.reset(backend, &id).await;
    for s in steps {
        ctx.step(s).await;
    }
}

// ------------------------------------------------------------------------------------------
// built-in scenarios

fn k(a: &str, b: &str) -> Value {
    json!([a, b])
}
fn l(kind: &str, p: &str, c: &str) -> Value {
    json!([kind, p, c])
}

/// raw hook: payload classes x keys x version ids, both directions, wrong key / id, sweeps
fn vector_behaviours(thorough: bool) -> Vec<Vec<Value>> {
    let mut bs = vec![];
    let keys: Vec<(&str, &str)> = if thorough {
        vec![("k1", "s1"), ("k2", "s1"), ("k1", "s2"), ("k0", "s1"), ("k3", "s3")]
    } else {
        vec![("k1", "s1"), ("k2", "s1"), ("k0", "s3")]
    };
    for (ki, (sec, sal)) in keys.iter().enumerate() {
        let pts: Vec<&str> = if ki == 0 || thorough { vec!["p0", "p1", "p100", "p70k"] } else { vec!["p100"] };
        let (osec, osal) = if ki == 0 { ("k2", "s1") } else { ("k1", "s1") };
        for pt in pts {
            let mut b = vec![];
            // hook seals for v1 and for the nil id; the independent implementation seals for v2
            b.push(json!({"a":"SealRaw","key":k(sec,sal),"lab":l("r","~","v1"),"pt":pt,"sealer":"hook"}));
            b.push(json!({"a":"SealRaw","key":k(sec,sal),"lab":l("r","~","v0"),"pt":pt,"sealer":"hook"}));
            b.push(json!({"a":"SealRaw","key":k(sec,sal),"lab":l("r","~","v2"),"pt":pt,"sealer":"indep"}));
            b.push(json!({"a":"Scan"}));
            if ki == 0 && pt == "p100" {
                // the same call twice must not produce the same nonce; one value under every id
                b.push(json!({"a":"SealRaw","key":k(sec,sal),"lab":l("r","~","v0"),"pt":pt,"sealer":"hook"}));
                b.push(json!({"a":"RelabelSweep","from":l("r","~","v1"),"key":k(sec,sal),"vids":["v0","v1","v2","v3","v4"]}));
            }
            for v in ["v1", "v0", "v2"] {
                b.push(json!({"a":"Read","key":k(sec,sal),"lab":l("r","~",v)}));
            }
            // wrong secret / salt
            b.push(json!({"a":"Read","key":k(osec,osal),"lab":l("r","~","v1")}));
            if ki == 0 {
                b.push(json!({"a":"Read","key":k("k1","s2"),"lab":l("r","~","v2")}));
            }
            // a value sealed for another version id (incl. the nil id)
            b.push(json!({"a":"Relabel","from":l("r","~","v1"),"lab":l("r","~","v3")}));
            b.push(json!({"a":"Read","key":k(sec,sal),"lab":l("r","~","v3")}));
            b.push(json!({"a":"Relabel","from":l("r","~","v0"),"lab":l("r","~","v1")}));
            b.push(json!({"a":"Read","key":k(sec,sal),"lab":l("r","~","v1")}));
            b.push(json!({"a":"Relabel","from":l("r","~","v2"),"lab":l("r","~","v0")}));
            b.push(json!({"a":"Read","key":k(sec,sal),"lab":l("r","~","v0")}));
            // empty value, other format bytes
            b.push(json!({"a":"Mutate","m":"cut","lab":l("r","~","v3"),"len":0}));
            b.push(json!({"a":"Read","key":k(sec,sal),"lab":l("r","~","v3")}));
            b.push(json!({"a":"Mutate","m":"fmt","lab":l("r","~","v2")}));
            b.push(json!({"a":"Read","key":k(sec,sal),"lab":l("r","~","v2")}));
            bs.push(b);
        }
    }
    // the tamper sweep through the hook: every flip (both masks) and every truncation
    let sweep_pts: Vec<&str> = if thorough { vec!["p0", "p1", "p100"] } else { vec!["p0", "p1"] };
    for pt in sweep_pts {
        let mut b = vec![];
        b.push(json!({"a":"SealRaw","key":k("k1","s1"),"lab":l("r","~","v1"),"pt":pt,"sealer":"hook"}));
        b.push(json!({"a":"Read","key":k("k1","s1"),"lab":l("r","~","v1")}));
        for variant in ["flip01", "flip80", "cut"] {
            b.push(json!({"a":"Sweep","variant":variant,"key":k("k1","s1"),"lab":l("r","~","v1")}));
        }
        b.push(json!({"a":"Read","key":k("k1","s1"),"lab":l("r","~","v1")}));
        bs.push(b);
    }
    if !thorough {
        // p100 through the hook: a sample (all of it is swept through the object store)
        let mut b = vec![];
        b.push(json!({"a":"SealRaw","key":k("k1","s1"),"lab":l("r","~","v1"),"pt":"p100","sealer":"hook"}));
        for variant in ["flip01", "flip80", "cut"] {
            b.push(json!({"a":"Sweep","variant":variant,"key":k("k1","s1"),"lab":l("r","~","v1"),"stride":16,"edge":16}));
        }
        bs.push(b);
    } else {
        let mut b = vec![];
        b.push(json!({"a":"SealRaw","key":k("k1","s1"),"lab":l("r","~","v1"),"pt":"p70k","sealer":"hook"}));
        for variant in ["flip01", "flip80", "cut"] {
            b.push(json!({"a":"Sweep","variant":variant,"key":k("k1","s1"),"lab":l("r","~","v1"),"stride":997,"edge":40}));
        }
        bs.push(b);
    }
    bs
}

/// the three real backends: what is stored, what a changed store makes the Server return
fn backend_behaviours(backend: &str, thorough: bool) -> Vec<Vec<Value>> {
    let k1 = k("k1", "s1");
    let mut bs = vec![];
    // 1. content and binding, wrong secret / salt, re-labelling, foreign values, single mutations
    let mut b = vec![];
    b.push(json!({"a":"AddVersion","key":k1,"pt":"p100"}));
    b.push(json!({"a":"AddVersion","key":k1,"pt":"p70k"}));
    b.push(json!({"a":"AddVersion","key":k1,"pt":"p0"}));
    b.push(json!({"a":"AddVersion","key":k("k2","s1"),"pt":"p2"}));
    b.push(json!({"a":"AddSnapshot","key":k1,"lab":l("s","~","v2"),"pt":"p70k"}));
    b.push(json!({"a":"Scan"}));
    let vlabs = [l("v", "v0", "v1"), l("v", "v1", "v2"), l("v", "v2", "v3"), l("v", "v3", "v4")];
    for (i, lab) in vlabs.iter().enumerate() {
        let right = if i == 3 { k("k2", "s1") } else { k1.clone() };
        let wrong = if i == 3 { k1.clone() } else { k("k2", "s1") };
        b.push(json!({"a":"Read","key":right,"lab":lab}));
        b.push(json!({"a":"Read","key":wrong,"lab":lab}));
    }
    b.push(json!({"a":"Read","key":k("k1","s2"),"lab":l("v","v0","v1")}));
    b.push(json!({"a":"Read","key":k1,"lab":l("s","~","v2")}));
    b.push(json!({"a":"Read","key":k("k2","s1"),"lab":l("s","~","v2")}));
    b.push(json!({"a":"Read","key":k("k1","s2"),"lab":l("s","~","v2")}));
    // the value of every stored version / snapshot offered under EVERY other label
    let ids = json!(["v0", "v1", "v2", "v3", "v4", "v5"]);
    for (from, key) in [(l("v", "v0", "v1"), k1.clone()), (l("v", "v2", "v3"), k1.clone()),
                        (l("v", "v3", "v4"), k("k2", "s1")), (l("s", "~", "v2"), k1.clone())] {
        b.push(json!({"a":"RelabelSweep","from":from,"key":key,"vids":ids}));
    }
    // re-labelling: a version under another parent / another id / as a snapshot, a snapshot as a
    // version, a snapshot under another id
    let relabels = [
        (l("v", "v0", "v1"), l("v", "v1", "v2")), // overwrite the value of another version
        (l("v", "v1", "v2"), l("v", "v4", "v5")), // new name, both ids different
        (l("v", "v2", "v3"), l("v", "v5", "v3")), // same id under another parent
        (l("v", "v0", "v1"), l("v", "v0", "v6")), // same parent, another id
        (l("s", "~", "v2"), l("s", "~", "v1")),   // the snapshot as the snapshot of another version
        (l("v", "v3", "v4"), l("s", "~", "v4")),  // a version as the snapshot of the same id
        (l("v", "v3", "v4"), l("s", "~", "v3")),  // a version as the snapshot of its parent
        (l("s", "~", "v3"), l("v", "v6", "v3")),  // (that value) back as a version of the same id
    ];
    for (from, to) in relabels.iter() {
        b.push(json!({"a":"Relabel","from":from,"lab":to}));
        b.push(json!({"a":"Read","key":k1,"lab":to}));
        b.push(json!({"a":"Read","key":k("k2","s1"),"lab":to}));
    }
    bs.push(b);

    let mut b = vec![];
    b.push(json!({"a":"AddVersion","key":k1,"pt":"p100"}));
    b.push(json!({"a":"AddVersion","key":k1,"pt":"p1"}));
    b.push(json!({"a":"AddSnapshot","key":k1,"lab":l("s","~","v1"),"pt":"p100"}));
    for lab in [l("v", "v0", "v1"), l("s", "~", "v1")] {
        // a value sealed by another implementation with the same key is accepted, with another
        // secret or salt it is refused (and accepted by the holder of that key)
        b.push(json!({"a":"Foreign","lab":lab,"key":k1,"pt":"p2"}));
        b.push(json!({"a":"Read","key":k1,"lab":lab}));
        b.push(json!({"a":"Foreign","lab":lab,"key":k("k2","s1"),"pt":"p2"}));
        b.push(json!({"a":"Read","key":k1,"lab":lab}));
        b.push(json!({"a":"Read","key":k("k2","s1"),"lab":lab}));
        b.push(json!({"a":"Foreign","lab":lab,"key":k("k1","s2"),"pt":"p2"}));
        b.push(json!({"a":"Read","key":k1,"lab":lab}));
        b.push(json!({"a":"Read","key":k("k1","s2"),"lab":lab}));
        b.push(json!({"a":"Foreign","lab":lab,"key":k1,"pt":"p100"}));
        for m in ["fmt", "flip", "cut"] {
            b.push(json!({"a":"Read","key":k1,"lab":lab}));
            b.push(json!({"a":"Mutate","m":m,"lab":lab}));
            b.push(json!({"a":"Read","key":k1,"lab":lab}));
            b.push(json!({"a":"Foreign","lab":lab,"key":k1,"pt":"p100"}));
        }
        b.push(json!({"a":"Mutate","m":"cut","lab":lab,"len":0}));
        b.push(json!({"a":"Read","key":k1,"lab":lab}));
    }
    bs.push(b);

    // 2. the tamper sweep through the backend's own read path
    let mut sizes = vec![("p0", 1u64), ("p1", 1), ("p100", 1)];
    if thorough {
        sizes.push(("p70k", if backend == "cloud" { 1 } else { 101 }));
    } else if backend == "cloud" {
        sizes.push(("p70k", 499));
    }
    for (pt, stride) in sizes {
        let mut b = vec![];
        b.push(json!({"a":"AddVersion","key":k1,"pt":pt}));
        b.push(json!({"a":"AddSnapshot","key":k1,"lab":l("s","~","v1"),"pt":pt}));
        for lab in [l("v", "v0", "v1"), l("s", "~", "v1")] {
            if pt == "p70k" && lab[0] == "s" && !thorough {
                continue;
            }
            b.push(json!({"a":"Read","key":k1,"lab":lab}));
            for variant in ["flip01", "flip80", "cut"] {
                b.push(json!({"a":"Sweep","variant":variant,"key":k1,"lab":lab,"stride":stride,"edge":48}));
            }
            b.push(json!({"a":"Read","key":k1,"lab":lab}));
        }
        bs.push(b);
    }
    bs
}

pub fn main(args: &[String]) {
    for v in ["HTTP_PROXY", "HTTPS_PROXY", "http_proxy", "https_proxy", "ALL_PROXY", "all_proxy"] {
        std::env::remove_var(v);
    }
    std::env::set_var("NO_PROXY", "127.0.0.1,localhost");
    std::env::set_var("GIT_CONFIG_GLOBAL", "/dev/null");
    std::env::set_var("GIT_CONFIG_SYSTEM", "/dev/null");
    let cmd = args[1].as_str();
    let out = crate::arg(args, "--out").expect("--out");
    let dir = PathBuf::from(crate::arg(args, "--dir").unwrap_or_else(|| format!("{out}.dir")));
    let _ = std::fs::remove_dir_all(&dir);
    std::fs::create_dir_all(&dir).unwrap();
    // the scratch directory may lie inside a git work tree (/verif): keep git from looking above
    let abs = std::fs::canonicalize(&dir).unwrap();
    std::env::set_var("GIT_CEILING_DIRECTORIES", abs.to_string_lossy().to_string());
    let thorough = args.iter().any(|a| a == "--thorough");
    let seed: u64 = crate::arg(args, "--seed").and_then(|s| s.parse().ok()).unwrap_or(1);
    let mut ctx = Ctx::new(abs.clone(), seed);
    if let Some(t) = crate::arg(args, "--threads").and_then(|s| s.parse().ok()) {
        ctx.threads = t;
    }
    // the panic hook would print every caught panic; keep the output small
    std::panic::set_hook(Box::new(|_| {}));
    crate::local_block_on(async {
        match cmd {
            "seal-replay" => {
                let inp = crate::arg(args, "--in").expect("--in");
                let f = BufReader::new(std::fs::File::open(inp).unwrap());
                for line in f.lines() {
                    let line = line.unwrap();
                    if line.trim().is_empty() {
                        continue;
                    }
                    let b: Value = serde_json::from_str(&line).expect("stimulus json");
                    let steps = b["steps"].as_array().unwrap().clone();
                    let backend = b["backend"].as_str().unwrap().to_string();
                    run_behaviour(&mut ctx, &backend, b["id"].clone(), &steps).await;
                }
            }
            "seal-vectors" => {
                // the hook derives the key on every call (~0.1 s): run the behaviours on several
                // threads, each with its own context, and merge the events in order
                let bs = vector_behaviours(thorough);
                let n = bs.len();
                let next = std::sync::atomic::AtomicUsize::new(0);
                let done: Mutex<Vec<(usize, Vec<Value>, Vec<Value>)>> = Mutex::new(vec![]);
                let workers = ctx.threads.min(6).max(1);
                let inner = (ctx.threads / 2).max(1);
                std::thread::scope(|sc| {
                    for w in 0..workers {
                        let (bs, next, done, abs) = (&bs, &next, &done, &abs);
                        sc.spawn(move || loop {
                            let i = next.fetch_add(1, std::sync::atomic::Ordering::SeqCst);
                            if i >= n {
                                break;
                            }
                            let mut c = Ctx::new(abs.join(format!("w{w}")), seed.wrapping_add(i as u64));
                            c.threads = inner;
                            crate::local_block_on(run_behaviour(&mut c, "raw", json!(i), &bs[i]));
                            done.lock().unwrap().push((i, std::mem::take(&mut c.out), std::mem::take(&mut c.dump)));
                        });
                    }
                });
                let mut d = done.into_inner().unwrap();
                d.sort_by_key(|x| x.0);
                for (_, out, dump) in d {
                    ctx.out.extend(out);
                    for x in dump {
                        if ctx.dump.len() < 64 {
                            ctx.dump.push(x);
                        }
                    }
                }
            }
            "seal-backends" => {
                let only = crate::arg(args, "--backend");
                let mut i = 0;
                for backend in ["cloud", "http", "git"] {
                    if only.as_deref().map(|o| o != backend).unwrap_or(false) {
                        continue;
                    }
                    for b in backend_behaviours(backend, thorough) {
                        run_behaviour(&mut ctx, backend, json!(i), &b).await;
                        i += 1;
                    }
                }
            }
            other => {
                eprintln!("sealdrv: unknown sub-command {other}");
                std::process::exit(2);
            }
        }
    });
    ctx.finish(&out);
    if let Some(d) = crate::arg(args, "--dump") {
        let mut o = std::io::BufWriter::new(std::fs::File::create(d).unwrap());
        for v in &ctx.dump {
            writeln!(o, "{}", serde_json::to_string(v).unwrap()).unwrap();
        }
    }
    drop(ctx);
    let _ = std::fs::remove_dir_all(&abs);
}
