//! Storage drivers.
//!
//! * `storage-replay` (C16): runs TLC-generated StorageTxn call sequences on InMemoryStorage and
//!   SqliteStorage (with close/reopen, read-only handles and databases rewritten under older
//!   schemas at the points the stimulus says) and logs every call with its result.
//! * `sqlite-kill` / `sqlite-child` (C06): replica actions on a SQLite directory in a child
//!   process that is stopped (SIGKILL) at every storage call index, or fails there, or is killed
//!   at a random instant; the parent reopens the directory and logs what it finds.
//! * `sqlite-concurrent` / `sqlite-worker` (C17): several handles (threads and child processes)
//!   on one SQLite directory.
#![allow(clippy::too_many_arguments)]
use crate::model::{DbState, TIME_BASE};
use crate::{arg, local_block_on};
use chrono::{DateTime, TimeZone, Utc};
use serde_json::{json, Value};
use std::collections::HashMap;
use std::io::{BufRead, Write};
use std::path::{Path, PathBuf};
use std::sync::{Arc, Mutex};
use taskchampion::storage::inmemory::InMemoryStorage;
use taskchampion::storage::{AccessMode, Storage, StorageTxn, TaskMap};
use taskchampion::{Operation, SqliteStorage, Uuid};

pub const NOVAL: &str = "~";

pub fn main(args: &[String]) {
    let cmd = args.get(1).map(|s| s.as_str()).unwrap_or("");
    match cmd {
        "storage-replay" => storage_replay(args),
        _ => {
            eprintln!("stordrv: unknown sub-command {cmd}");
            std::process::exit(2);
        }
    }
}

// ------------------------------------------------------------------------------------------
// model tokens <-> concrete values

/// Maps the specification's tokens (tasks u1.., properties, values, versions v1.., times) to
/// concrete values of a chosen class, and back.
pub struct SM {
    pub valclass: String,
    pub nanos: u32,
    rev_val: HashMap<String, String>,
    rev_key: HashMap<String, String>,
}

const TASK_BASE: u128 = 0x7a5c_0000_0000_0000_0000_0000_0000_0000u128;
const VER_BASE: u128 = 0xba5e_0000_0000_0000_0000_0000_0000_0000u128;

impl SM {
    pub fn new(valclass: &str) -> SM {
        SM {
            valclass: valclass.to_string(),
            nanos: if valclass == "ascii" { 0 } else { 123_456_789 },
            rev_val: HashMap::new(),
            rev_key: HashMap::new(),
        }
    }
    pub fn task(&self, tok: &str) -> Uuid {
        let n: u128 = tok.trim_start_matches('u').parse().expect("task token uN");
        Uuid::from_u128(TASK_BASE + n)
    }
    pub fn task_tok(&self, u: Uuid) -> String {
        let n = u.as_u128();
        if (TASK_BASE..TASK_BASE + 1_000_000).contains(&n) {
            format!("u{}", n - TASK_BASE)
        } else {
            format!("?{u}")
        }
    }
    pub fn ver(&self, tok: &str) -> Uuid {
        if tok == NOVAL {
            return Uuid::nil();
        }
        let n: u128 = tok.trim_start_matches('v').parse().expect("version token vN");
        Uuid::from_u128(VER_BASE + n)
    }
    pub fn ver_tok(&self, u: Uuid) -> String {
        let n = u.as_u128();
        if u.is_nil() {
            NOVAL.to_string()
        } else if (VER_BASE..VER_BASE + 1_000_000).contains(&n) {
            format!("v{}", n - VER_BASE)
        } else {
            format!("?{u}")
        }
    }
    pub fn time(&self, t: i64) -> DateTime<Utc> {
        Utc.timestamp_opt(TIME_BASE + t, self.nanos).unwrap()
    }
    pub fn time_tok(&self, t: &DateTime<Utc>) -> i64 {
        if t.timestamp_subsec_nanos() != self.nanos {
            return -999_999;
        }
        t.timestamp() - TIME_BASE
    }
    pub fn val(&mut self, tok: &str) -> String {
        let s = match self.valclass.as_str() {
            "unicode" => format!("{tok}\u{2713}\u{fc}\"\\\n\u{1f600}'{tok}"),
            "edge" => match tok {
                "a" => String::new(),
                "b" => "\u{0}null".to_string(),
                "pending" | "recurring" | "completed" | "deleted" => tok.to_string(),
                _ => format!(" {tok}\t"),
            },
            _ => tok.to_string(),
        };
        self.rev_val.insert(s.clone(), tok.to_string());
        s
    }
    pub fn val_tok(&self, s: &str) -> String {
        match self.rev_val.get(s) {
            Some(t) => t.clone(),
            None if self.valclass == "ascii" && s.len() < 40 => s.to_string(),
            None => format!("?{}", s.chars().take(30).collect::<String>()),
        }
    }
    pub fn key(&mut self, tok: &str) -> String {
        let s = match self.valclass.as_str() {
            "unicode" if tok != "status" => format!("{tok}\u{e9}'\"\\{tok}\u{1f4a5}"),
            "edge" => match tok {
                "p" => String::new(),
                "q" => "$.Update.uuid".to_string(),
                _ => tok.to_string(),
            },
            _ => tok.to_string(),
        };
        self.rev_key.insert(s.clone(), tok.to_string());
        s
    }
    pub fn key_tok(&self, s: &str) -> String {
        match self.rev_key.get(s) {
            Some(t) => t.clone(),
            None if self.valclass == "ascii" && s.len() < 40 => s.to_string(),
            None => format!("?{}", s.chars().take(30).collect::<String>()),
        }
    }

    /// a task map from the stimulus form {prop: value-or-"~"}
    pub fn map_from_json(&mut self, m: &Value) -> TaskMap {
        let mut t = TaskMap::new();
        if let Some(o) = m.as_object() {
            for (p, v) in o {
                let v = v.as_str().unwrap_or(NOVAL);
                if v != NOVAL {
                    let k = self.key(p);
                    let v = self.val(v);
                    t.insert(k, v);
                }
            }
        }
        t
    }
    /// sorted [[prop, value], ...]
    pub fn map_to_json(&self, t: &TaskMap) -> Value {
        let mut pv: Vec<(String, String)> =
            t.iter().map(|(p, v)| (self.key_tok(p), self.val_tok(v))).collect();
        pv.sort();
        json!(pv)
    }
    /// an operation from the stimulus form {k,u,p,v,t,o:{prop: value-or-"~"}} (o may also be
    /// an array of pairs)
    pub fn op_from_json(&mut self, j: &Value) -> Operation {
        let k = j["k"].as_str().unwrap();
        let old: Vec<(String, String)> = match &j["o"] {
            Value::Object(m) => m
                .iter()
                .map(|(p, v)| (p.clone(), v.as_str().unwrap_or(NOVAL).to_string()))
                .collect(),
            Value::Array(a) => a
                .iter()
                .map(|e| (e[0].as_str().unwrap().to_string(), e[1].as_str().unwrap().to_string()))
                .collect(),
            _ => vec![],
        };
        match k {
            "P" => Operation::UndoPoint,
            "C" => Operation::Create { uuid: self.task(j["u"].as_str().unwrap()) },
            "D" => {
                let mut old_task = TaskMap::new();
                for (p, v) in old {
                    if v != NOVAL {
                        let kk = self.key(&p);
                        let vv = self.val(&v);
                        old_task.insert(kk, vv);
                    }
                }
                Operation::Delete { uuid: self.task(j["u"].as_str().unwrap()), old_task }
            }
            "U" => {
                let p = j["p"].as_str().unwrap().to_string();
                let v = j["v"].as_str().unwrap();
                let mut ov = None;
                for (pp, vv) in old {
                    if pp == p && vv != NOVAL {
                        ov = Some(self.val(&vv));
                    }
                }
                Operation::Update {
                    uuid: self.task(j["u"].as_str().unwrap()),
                    property: self.key(&p),
                    value: if v == NOVAL { None } else { Some(self.val(v)) },
                    old_value: ov,
                    timestamp: self.time(j["t"].as_i64().unwrap_or(0)),
                }
            }
            _ => panic!("bad op kind {k}"),
        }
    }
    pub fn op_to_json(&self, op: &Operation) -> Value {
        match op {
            Operation::UndoPoint => json!({"k":"P","u":"-","p":"-","v":"-","t":0,"o":[]}),
            Operation::Create { uuid } => {
                json!({"k":"C","u":self.task_tok(*uuid),"p":"-","v":"-","t":0,"o":[]})
            }
            Operation::Delete { uuid, old_task } => {
                json!({"k":"D","u":self.task_tok(*uuid),"p":"-","v":"-","t":0,
                       "o":self.map_to_json(old_task)})
            }
            Operation::Update { uuid, property, value, old_value, timestamp } => {
                let p = self.key_tok(property);
                let o: Vec<(String, String)> = match old_value {
                    Some(ov) => vec![(p.clone(), self.val_tok(ov))],
                    None => vec![],
                };
                json!({"k":"U","u":self.task_tok(*uuid),"p":p,
                       "v": match value { Some(v) => self.val_tok(v), None => NOVAL.to_string() },
                       "t": self.time_tok(timestamp), "o": o})
            }
        }
    }
    pub fn ops_to_json(&self, ops: &[Operation]) -> Value {
        Value::Array(ops.iter().map(|o| self.op_to_json(o)).collect())
    }
    pub fn tasks_to_json(&self, tasks: Vec<(Uuid, TaskMap)>) -> Value {
        let mut out: Vec<(String, Value)> =
            tasks.iter().map(|(u, t)| (self.task_tok(*u), self.map_to_json(t))).collect();
        out.sort_by(|a, b| (&a.0, a.1.to_string()).cmp(&(&b.0, b.1.to_string())));
        json!(out)
    }
    pub fn ws_to_json(&self, ws: &[Option<Uuid>]) -> Value {
        let items: Vec<String> = ws
            .iter()
            .skip(1)
            .map(|e| match e {
                Some(u) => self.task_tok(*u),
                None => NOVAL.to_string(),
            })
            .collect();
        json!({"ws0": ws.first().map(|e| e.is_none()).unwrap_or(false), "ws": items})
    }
    /// the state in the form of TraceSync's `post` (base as a version token)
    pub fn db_to_json(&self, d: &DbState, base: Value) -> Value {
        let tasks: Vec<(Uuid, TaskMap)> = d
            .tasks
            .iter()
            .map(|(u, t)| (*u, t.iter().map(|(k, v)| (k.clone(), v.clone())).collect()))
            .collect();
        let w = self.ws_to_json(&d.ws);
        json!({"tasks": self.tasks_to_json(tasks), "ops": self.ops_to_json(&d.ops),
               "base": base, "ws": w["ws"], "ws0": w["ws0"]})
    }
}

fn status_of(e: &taskchampion::Error) -> (&'static str, String) {
    let msg = format!("{e:#}");
    if msg.contains("read-only mode") {
        ("readonly", msg)
    } else {
        ("error", msg)
    }
}

// ------------------------------------------------------------------------------------------
// C16: storage-replay

async fn open_sqlite(dir: &Path, ro: bool, create: bool) -> Result<SqliteStorage, String> {
    let mode = if ro { AccessMode::ReadOnly } else { AccessMode::ReadWrite };
    SqliteStorage::new(dir, mode, create).await.map_err(|e| format!("{e:#}"))
}

/// one call of a StorageTxn method: (status, value, message)
async fn exec_call(txn: &mut dyn StorageTxn, c: &Value, sm: &mut SM) -> (String, Value, String) {
    let a = c["a"].as_str().unwrap();
    let u = c["u"].as_str().unwrap_or("-");
    macro_rules! done {
        ($r:expr, $f:expr) => {
            match $r {
                Ok(x) => ("ok".to_string(), $f(x), String::new()),
                Err(e) => {
                    let (st, msg) = status_of(&e);
                    (st.to_string(), json!("-"), msg)
                }
            }
        };
    }
    let unit = |_: ()| json!("-");
    match a {
        "GetTask" => {
            let r = txn.get_task(sm.task(u)).await;
            done!(r, |t: Option<TaskMap>| match t {
                Some(t) => json!({"ex": true, "m": sm.map_to_json(&t)}),
                None => json!({"ex": false, "m": []}),
            })
        }
        "CreateTask" => done!(txn.create_task(sm.task(u)).await, |b: bool| json!(b)),
        "SetTask" => {
            let m = sm.map_from_json(&c["m"]);
            done!(txn.set_task(sm.task(u), m).await, unit)
        }
        "DeleteTask" => done!(txn.delete_task(sm.task(u)).await, |b: bool| json!(b)),
        "AllTasks" => done!(txn.all_tasks().await, |t| sm.tasks_to_json(t)),
        "AllTaskUuids" => done!(txn.all_task_uuids().await, |us: Vec<Uuid>| {
            let mut v: Vec<String> = us.iter().map(|x| sm.task_tok(*x)).collect();
            v.sort();
            json!(v)
        }),
        "BaseVersion" => done!(txn.base_version().await, |v| json!(sm.ver_tok(v))),
        "SetBaseVersion" => {
            let v = sm.ver(c["v"].as_str().unwrap());
            done!(txn.set_base_version(v).await, unit)
        }
        "AddOperation" => {
            let op = sm.op_from_json(&c["op"]);
            done!(txn.add_operation(op).await, unit)
        }
        "RemoveOperation" => {
            let op = sm.op_from_json(&c["op"]);
            done!(txn.remove_operation(op).await, unit)
        }
        "UnsyncedOperations" => {
            done!(txn.unsynced_operations().await, |o: Vec<Operation>| sm.ops_to_json(&o))
        }
        "NumUnsynced" => done!(txn.num_unsynced_operations().await, |n: usize| json!(n)),
        "GetTaskOperations" => {
            done!(txn.get_task_operations(sm.task(u)).await, |o: Vec<Operation>| sm.ops_to_json(&o))
        }
        "SyncComplete" => done!(txn.sync_complete().await, unit),
        "GetWorkingSet" => {
            done!(txn.get_working_set().await, |w: Vec<Option<Uuid>>| sm.ws_to_json(&w))
        }
        "AddToWorkingSet" => done!(txn.add_to_working_set(sm.task(u)).await, |n: usize| json!(n)),
        "SetWorkingSetItem" => {
            let i = c["i"].as_u64().unwrap() as usize;
            let x = c["x"].as_str().unwrap();
            let x = if x == NOVAL { None } else { Some(sm.task(x)) };
            done!(txn.set_working_set_item(i, x).await, unit)
        }
        "ClearWorkingSet" => done!(txn.clear_working_set().await, unit),
        "GetPendingTasks" => done!(txn.get_pending_tasks().await, |t| sm.tasks_to_json(t)),
        "IsEmpty" => done!(txn.is_empty().await, |b: bool| json!(b)),
        other => panic!("unknown storage call {other}"),
    }
}

/// DDL of the historical schemas (src/storage/sqlite/schema.rs; the 0.8.0 dump in inner.rs)
fn legacy_sql(ver: &str, src: &Path) -> Result<String, String> {
    let mut s = String::new();
    s.push_str(&format!("ATTACH DATABASE '{}' AS src;\n", src.display()));
    s.push_str("PRAGMA journal_mode=WAL;\n");
    s.push_str(
        "CREATE TABLE operations (id INTEGER PRIMARY KEY AUTOINCREMENT, data STRING);\n\
         CREATE TABLE sync_meta (key STRING PRIMARY KEY, value STRING);\n\
         CREATE TABLE tasks (uuid STRING PRIMARY KEY, data STRING);\n\
         CREATE TABLE working_set (id INTEGER PRIMARY KEY, uuid STRING);\n",
    );
    let uuid_col = |q: char| {
        format!(
            "ALTER TABLE operations ADD COLUMN uuid GENERATED ALWAYS AS (\
             coalesce(json_extract(data, {q}$.Update.uuid{q}), \
             json_extract(data, {q}$.Create.uuid{q}), \
             json_extract(data, {q}$.Delete.uuid{q}))) VIRTUAL;\n\
             CREATE INDEX operations_by_uuid ON operations (uuid);\n"
        )
    };
    let synced = "ALTER TABLE operations ADD COLUMN synced bool DEFAULT false;\n\
                  CREATE INDEX operations_by_synced ON operations (synced);\n";
    let version = |minor: u32| {
        format!(
            "CREATE TABLE version (singleton INTEGER PRIMARY KEY CHECK (singleton = 0), \
             major INTEGER, minor INTEGER);\n\
             INSERT INTO version (singleton, major, minor) VALUES (0, 0, {minor});\n"
        )
    };
    match ver {
        "0.8" => {}
        "0.9" => {
            s.push_str(&uuid_col('"'));
            s.push_str(synced);
        }
        "0.1" => {
            s.push_str(&uuid_col('"'));
            s.push_str(synced);
            s.push_str(&version(1));
        }
        "0.2" => {
            s.push_str(&uuid_col('\''));
            s.push_str(synced);
            s.push_str(&version(2));
        }
        _ => return Err(format!("unknown legacy schema {ver}")),
    }
    if ver == "0.8" {
        s.push_str("INSERT INTO operations (id, data) SELECT id, data FROM src.operations ORDER BY id;\n");
    } else {
        s.push_str(
            "INSERT INTO operations (id, data, synced) SELECT id, data, synced FROM src.operations ORDER BY id;\n",
        );
    }
    s.push_str(
        "INSERT INTO sync_meta (key, value) SELECT key, value FROM src.sync_meta;\n\
         INSERT INTO tasks (uuid, data) SELECT uuid, data FROM src.tasks;\n\
         INSERT INTO working_set (id, uuid) SELECT id, uuid FROM src.working_set;\n\
         DETACH DATABASE src;\n",
    );
    Ok(s)
}

/// Rewrite the database in `dir` under an older schema with the sqlite3 command-line tool.
fn rewrite_legacy(dir: &Path, ver: &str, sqlite3: &str) -> Result<(), String> {
    let db = dir.join("taskchampion.sqlite3");
    let src = dir.join("current.sqlite3");
    if !db.exists() {
        return Err("no database to rewrite".into());
    }
    for suffix in ["-wal", "-shm"] {
        let p = dir.join(format!("taskchampion.sqlite3{suffix}"));
        if p.exists() && std::fs::metadata(&p).map(|m| m.len()).unwrap_or(0) > 0 && suffix == "-wal" {
            return Err("write-ahead log not checkpointed after close".into());
        }
        let _ = std::fs::remove_file(p);
    }
    std::fs::rename(&db, &src).map_err(|e| e.to_string())?;
    let sql = legacy_sql(ver, &src)?;
    let mut child = std::process::Command::new(sqlite3)
        .arg("-bail")
        .arg(&db)
        .stdin(std::process::Stdio::piped())
        .stdout(std::process::Stdio::piped())
        .stderr(std::process::Stdio::piped())
        .spawn()
        .map_err(|e| format!("cannot run {sqlite3}: {e}"))?;
    child.stdin.take().unwrap().write_all(sql.as_bytes()).map_err(|e| e.to_string())?;
    let out = child.wait_with_output().map_err(|e| e.to_string())?;
    if !out.status.success() {
        return Err(format!(
            "sqlite3 failed for schema {ver}: {}",
            String::from_utf8_lossy(&out.stderr)
        ));
    }
    let _ = std::fs::remove_file(&src);
    for suffix in ["-wal", "-shm"] {
        let _ = std::fs::remove_file(dir.join(format!("current.sqlite3{suffix}")));
    }
    Ok(())
}

struct ReplayCfg {
    sqlite3: Option<String>,
}

async fn run_stimulus(b: &Value, dir: &Path, cfg: &ReplayCfg, log: Arc<Mutex<Vec<Value>>>) {
    let backend = b["backend"].as_str().unwrap_or("mem").to_string();
    let valclass = b["valclass"].as_str().unwrap_or("ascii");
    let mut sm = SM::new(valclass);
    let emit = |v: Value| log.lock().unwrap().push(v);
    emit(json!({"a":"Reset","id":b["id"].clone(),"backend":backend,"valclass":valclass}));
    let sql = backend == "sqlite";
    let mut storage: Box<dyn Storage> = if sql {
        let _ = std::fs::remove_dir_all(dir);
        match open_sqlite(dir, false, true).await {
            Ok(s) => Box::new(s),
            Err(e) => {
                emit(json!({"a":"OpenFailed","msg":e}));
                return;
            }
        }
    } else {
        Box::new(InMemoryStorage::new())
    };
    let steps = b["steps"].as_array().unwrap();
    let mut i = 0usize;
    while i < steps.len() {
        let s = &steps[i];
        let a = s["a"].as_str().unwrap();
        match a {
            "Begin" => {
                i += 1;
                let mut txn = match storage.txn().await {
                    Ok(t) => {
                        emit(json!({"a":"Begin","st":"ok"}));
                        t
                    }
                    Err(e) => {
                        emit(json!({"a":"Begin","st":"error","msg":format!("{e:#}")}));
                        continue;
                    }
                };
                while i < steps.len() {
                    let s = &steps[i];
                    let a = s["a"].as_str().unwrap();
                    i += 1;
                    match a {
                        "Commit" => {
                            let r = txn.commit().await;
                            // nothing may be called on a transaction after commit, whatever
                            // commit returned
                            match r {
                                Ok(()) => emit(json!({"a":"Commit","st":"ok"})),
                                Err(e) => {
                                    let (st, msg) = status_of(&e);
                                    emit(json!({"a":"Commit","st":st,"msg":msg}));
                                }
                            }
                            break;
                        }
                        "Abandon" => {
                            emit(json!({"a":"Abandon"}));
                            break;
                        }
                        "Begin" | "Reopen" | "Legacy" => {
                            panic!("stimulus {}: {a} inside a transaction", b["id"])
                        }
                        _ => {
                            let (st, v, msg) = exec_call(txn.as_mut(), s, &mut sm).await;
                            let mut e = json!({"a":"Call","c":s.clone(),"st":st,"v":v});
                            if !msg.is_empty() {
                                e["msg"] = json!(msg);
                            }
                            emit(e);
                        }
                    }
                }
                drop(txn);
            }
            "Reopen" | "Legacy" => {
                i += 1;
                if !sql {
                    // there is nothing to reopen in memory; only stimuli whose reopen steps are
                    // plain read-write reopens are given to this backend
                    continue;
                }
                drop(storage);
                let mut st = "ok".to_string();
                let mut msg = String::new();
                if a == "Legacy" {
                    let ver = s["v"].as_str().unwrap();
                    match &cfg.sqlite3 {
                        Some(cli) => {
                            if let Err(e) = rewrite_legacy(dir, ver, cli) {
                                st = "toolerror".into();
                                msg = e;
                            }
                        }
                        None => {
                            st = "toolerror".into();
                            msg = "no sqlite3 command-line tool".into();
                        }
                    }
                }
                let ro = a == "Reopen" && s["v"].as_str() == Some("ro");
                match open_sqlite(dir, ro, false).await {
                    Ok(s2) => storage = Box::new(s2),
                    Err(e) => {
                        emit(json!({"a":a,"v":s["v"].clone(),"st":"error","msg":e}));
                        return;
                    }
                }
                let mut e = json!({"a":a,"v":s["v"].clone(),"st":st});
                if !msg.is_empty() {
                    e["msg"] = json!(msg);
                }
                emit(e);
            }
            other => panic!("stimulus {}: unexpected step {other} outside a transaction", b["id"]),
        }
    }
    drop(storage);
}

fn storage_replay(args: &[String]) {
    let inp = arg(args, "--in").expect("--in");
    let out = arg(args, "--out").expect("--out");
    let dir = PathBuf::from(arg(args, "--dir").expect("--dir"));
    let jobs: usize = arg(args, "--jobs").and_then(|j| j.parse().ok()).unwrap_or(4);
    let sqlite3 = arg(args, "--sqlite3");
    let f = std::io::BufReader::new(std::fs::File::open(inp).unwrap());
    let stimuli: Vec<Value> = f
        .lines()
        .map(|l| l.unwrap())
        .filter(|l| !l.trim().is_empty())
        .map(|l| serde_json::from_str(&l).expect("stimulus json"))
        .collect();
    let n = stimuli.len();
    let stimuli = Arc::new(stimuli);
    let next = Arc::new(Mutex::new(0usize));
    let results: Arc<Mutex<Vec<Option<Vec<Value>>>>> = Arc::new(Mutex::new(vec![None; n]));
    std::fs::create_dir_all(&dir).unwrap();
    let mut handles = vec![];
    for j in 0..jobs.max(1) {
        let stimuli = stimuli.clone();
        let next = next.clone();
        let results = results.clone();
        let dir = dir.join(format!("job{j}"));
        let sqlite3 = sqlite3.clone();
        handles.push(std::thread::spawn(move || {
            let cfg = ReplayCfg { sqlite3 };
            let rt = tokio::runtime::Builder::new_current_thread().enable_all().build().unwrap();
            loop {
                let k = {
                    let mut g = next.lock().unwrap();
                    let k = *g;
                    *g += 1;
                    k
                };
                if k >= stimuli.len() {
                    break;
                }
                let log = Arc::new(Mutex::new(Vec::new()));
                let b = stimuli[k].clone();
                let d = dir.join("db");
                let l2 = log.clone();
                let r = std::panic::catch_unwind(std::panic::AssertUnwindSafe(|| {
                    let local = tokio::task::LocalSet::new();
                    local.block_on(&rt, run_stimulus(&b, &d, &cfg, l2));
                }));
                if let Err(p) = r {
                    let msg = p
                        .downcast_ref::<String>()
                        .cloned()
                        .or_else(|| p.downcast_ref::<&str>().map(|s| s.to_string()))
                        .unwrap_or_default();
                    log.lock().unwrap().push(json!({"a":"Panic","msg":msg}));
                }
                let lines = std::mem::take(&mut *log.lock().unwrap());
                results.lock().unwrap()[k] = Some(lines);
            }
            let _ = std::fs::remove_dir_all(&dir);
        }));
    }
    for h in handles {
        h.join().unwrap();
    }
    let mut o = std::io::BufWriter::new(std::fs::File::create(out).unwrap());
    let mut nev = 0usize;
    for r in results.lock().unwrap().iter() {
        for l in r.as_ref().expect("result") {
            writeln!(o, "{}", serde_json::to_string(l).unwrap()).unwrap();
            nev += 1;
        }
    }
    eprintln!("replayed {n} stimuli, {nev} events");
}
