//! Storage drivers.
//!
//! * `storage-replay` (C16): runs TLC-generated StorageTxn call sequences on InMemoryStorage and
//!   SqliteStorage (with close/reopen, read-only handles and databases rewritten under older
//!   schemas at the points the stimulus says) and logs every call with its result.
//! * `sqlite-kill` / `sqlite-child` (C06): replica actions on a SQLite directory in a child
//!   process that is stopped (SIGKILL) at every storage call index, or fails there, or is killed
//!   at a random instant; the parent reopens the directory and logs what it finds.
//! * `sqlite-concurrent` / `sqlite-worker` (C17): several handles (threads and child processes)
//!   on one SQLite directory.
#![allow(clippy::too_many_arguments)]
use crate::model::{ver_index, DbState, TIME_BASE};
use crate::tap::{read_state, AnyStorage, FailKind, Tap};
use crate::{arg, local_block_on};
use chrono::{DateTime, TimeZone, Utc};
use serde_json::{json, Value};
use std::collections::HashMap;
use std::io::{BufRead, Write};
use std::path::{Path, PathBuf};
use std::sync::{Arc, Mutex};
use taskchampion::storage::inmemory::InMemoryStorage;
use taskchampion::storage::{AccessMode, Storage, StorageTxn, TaskMap};
use taskchampion::server::{GetVersionResult, Server};
use taskchampion::{Operation, Replica, ServerConfig, SqliteStorage, Uuid};

pub const NOVAL: &str = "~";

pub fn main(args: &[String]) {
    let cmd = args.get(1).map(|s| s.as_str()).unwrap_or("");
    match cmd {
        "storage-replay" => storage_replay(args),
        "sqlite-kill" => kill_main(args),
        "sqlite-child" => child_main(args),
        "sqlite-concurrent" => concurrent_main(args),
        "sqlite-worker" => worker_main(args),
        _ => {
            eprintln!("stordrv: unknown sub-command {cmd}");
            std::process::exit(2);
        }
    }
}

// ------------------------------------------------------------------------------------------
// model tokens <-> concrete values

/// Maps the specification's tokens (tasks u1.., properties, values, versions v1.., times) to
/// concrete values of a chosen class, and back.
pub struct SM {
    pub valclass: String,
    pub nanos: u32,
    rev_val: HashMap<String, String>,
    rev_key: HashMap<String, String>,
}

const TASK_BASE: u128 = 0x7a5c_0000_0000_0000_0000_0000_0000_0000u128;
const VER_BASE: u128 = 0xba5e_0000_0000_0000_0000_0000_0000_0000u128;

impl SM {
    pub fn new(valclass: &str) -> SM {
        SM {
            valclass: valclass.to_string(),
            nanos: if valclass == "ascii" { 0 } else { 123_456_789 },
            rev_val: HashMap::new(),
            rev_key: HashMap::new(),
        }
    }
    pub fn task(&self, tok: &str) -> Uuid {
        let n: u128 = tok.trim_start_matches('u').parse().expect("task token uN");
        Uuid::from_u128(TASK_BASE + n)
    }
    pub fn task_tok(&self, u: Uuid) -> String {
        let n = u.as_u128();
        if (TASK_BASE..TASK_BASE + 1_000_000).contains(&n) {
            format!("u{}", n - TASK_BASE)
        } else {
            format!("?{u}")
        }
    }
    pub fn ver(&self, tok: &str) -> Uuid {
        if tok == NOVAL {
            return Uuid::nil();
        }
        let n: u128 = tok.trim_start_matches('v').parse().expect("version token vN");
        Uuid::from_u128(VER_BASE + n)
    }
    pub fn ver_tok(&self, u: Uuid) -> String {
        let n = u.as_u128();
        if u.is_nil() {
            NOVAL.to_string()
        } else if (VER_BASE..VER_BASE + 1_000_000).contains(&n) {
            format!("v{}", n - VER_BASE)
        } else {
            format!("?{u}")
        }
    }
    pub fn time(&self, t: i64) -> DateTime<Utc> {
        Utc.timestamp_opt(TIME_BASE + t, self.nanos).unwrap()
    }
    pub fn time_tok(&self, t: &DateTime<Utc>) -> i64 {
        if t.timestamp_subsec_nanos() != self.nanos {
            return -999_999;
        }
        t.timestamp() - TIME_BASE
    }
    pub fn val(&mut self, tok: &str) -> String {
        // "huge<d>": a value of about 1.2 MB (a transaction that outgrows SQLite's page cache)
        if tok.starts_with("huge") && tok.len() == 5 {
            return tok.repeat(250_000);
        }
        let s = match self.valclass.as_str() {
            "unicode" => format!("{tok}\u{2713}\u{fc}\"\\\n\u{1f600}'{tok}"),
            "edge" => match tok {
                "a" => String::new(),
                "b" => "\u{0}null".to_string(),
                "pending" | "recurring" | "completed" | "deleted" => tok.to_string(),
                _ => format!(" {tok}\t"),
            },
            _ => tok.to_string(),
        };
        self.rev_val.insert(s.clone(), tok.to_string());
        s
    }
    pub fn val_tok(&self, s: &str) -> String {
        if s.len() == 5 * 250_000 && s.starts_with("huge") {
            return s[..5].to_string();
        }
        match self.rev_val.get(s) {
            Some(t) => t.clone(),
            None if self.valclass == "ascii" && s.len() < 40 => s.to_string(),
            None => format!("?{}", s.chars().take(30).collect::<String>()),
        }
    }
    pub fn key(&mut self, tok: &str) -> String {
        let s = match self.valclass.as_str() {
            "unicode" if tok != "status" => format!("{tok}\u{e9}'\"\\{tok}\u{1f4a5}"),
            "edge" => match tok {
                "p" => String::new(),
                "q" => "$.Update.uuid".to_string(),
                _ => tok.to_string(),
            },
            _ => tok.to_string(),
        };
        self.rev_key.insert(s.clone(), tok.to_string());
        s
    }
    pub fn key_tok(&self, s: &str) -> String {
        match self.rev_key.get(s) {
            Some(t) => t.clone(),
            None if self.valclass == "ascii" && s.len() < 40 => s.to_string(),
            None => format!("?{}", s.chars().take(30).collect::<String>()),
        }
    }

    /// a task map from the stimulus form {prop: value-or-"~"}
    pub fn map_from_json(&mut self, m: &Value) -> TaskMap {
        let mut t = TaskMap::new();
        if let Some(o) = m.as_object() {
            for (p, v) in o {
                let v = v.as_str().unwrap_or(NOVAL);
                if v != NOVAL {
                    let k = self.key(p);
                    let v = self.val(v);
                    t.insert(k, v);
                }
            }
        }
        t
    }
    /// sorted [[prop, value], ...]
    pub fn map_to_json(&self, t: &TaskMap) -> Value {
        let mut pv: Vec<(String, String)> =
            t.iter().map(|(p, v)| (self.key_tok(p), self.val_tok(v))).collect();
        pv.sort();
        json!(pv)
    }
    /// an operation from the stimulus form {k,u,p,v,t,o:{prop: value-or-"~"}} (o may also be
    /// an array of pairs)
    pub fn op_from_json(&mut self, j: &Value) -> Operation {
        let k = j["k"].as_str().unwrap();
        let old: Vec<(String, String)> = match &j["o"] {
            Value::Object(m) => m
                .iter()
                .map(|(p, v)| (p.clone(), v.as_str().unwrap_or(NOVAL).to_string()))
                .collect(),
            Value::Array(a) => a
                .iter()
                .map(|e| (e[0].as_str().unwrap().to_string(), e[1].as_str().unwrap().to_string()))
                .collect(),
            _ => vec![],
        };
        match k {
            "P" => Operation::UndoPoint,
            "C" => Operation::Create { uuid: self.task(j["u"].as_str().unwrap()) },
            "D" => {
                let mut old_task = TaskMap::new();
                for (p, v) in old {
                    if v != NOVAL {
                        let kk = self.key(&p);
                        let vv = self.val(&v);
                        old_task.insert(kk, vv);
                    }
                }
                Operation::Delete { uuid: self.task(j["u"].as_str().unwrap()), old_task }
            }
            "U" => {
                let p = j["p"].as_str().unwrap().to_string();
                let v = j["v"].as_str().unwrap();
                let mut ov = None;
                for (pp, vv) in old {
                    if pp == p && vv != NOVAL {
                        ov = Some(self.val(&vv));
                    }
                }
                Operation::Update {
                    uuid: self.task(j["u"].as_str().unwrap()),
                    property: self.key(&p),
                    value: if v == NOVAL { None } else { Some(self.val(v)) },
                    old_value: ov,
                    timestamp: self.time(j["t"].as_i64().unwrap_or(0)),
                }
            }
            _ => panic!("bad op kind {k}"),
        }
    }
    pub fn op_to_json(&self, op: &Operation) -> Value {
        match op {
            Operation::UndoPoint => json!({"k":"P","u":"-","p":"-","v":"-","t":0,"o":[]}),
            Operation::Create { uuid } => {
                json!({"k":"C","u":self.task_tok(*uuid),"p":"-","v":"-","t":0,"o":[]})
            }
            Operation::Delete { uuid, old_task } => {
                json!({"k":"D","u":self.task_tok(*uuid),"p":"-","v":"-","t":0,
                       "o":self.map_to_json(old_task)})
            }
            Operation::Update { uuid, property, value, old_value, timestamp } => {
                let p = self.key_tok(property);
                let o: Vec<(String, String)> = match old_value {
                    Some(ov) => vec![(p.clone(), self.val_tok(ov))],
                    None => vec![],
                };
                json!({"k":"U","u":self.task_tok(*uuid),"p":p,
                       "v": match value { Some(v) => self.val_tok(v), None => NOVAL.to_string() },
                       "t": self.time_tok(timestamp), "o": o})
            }
        }
    }
    pub fn ops_to_json(&self, ops: &[Operation]) -> Value {
        Value::Array(ops.iter().map(|o| self.op_to_json(o)).collect())
    }
    pub fn tasks_to_json(&self, tasks: Vec<(Uuid, TaskMap)>) -> Value {
        let mut out: Vec<(String, Value)> =
            tasks.iter().map(|(u, t)| (self.task_tok(*u), self.map_to_json(t))).collect();
        out.sort_by(|a, b| (&a.0, a.1.to_string()).cmp(&(&b.0, b.1.to_string())));
        json!(out)
    }
    pub fn ws_to_json(&self, ws: &[Option<Uuid>]) -> Value {
        let items: Vec<String> = ws
            .iter()
            .skip(1)
            .map(|e| match e {
                Some(u) => self.task_tok(*u),
                None => NOVAL.to_string(),
            })
            .collect();
        json!({"ws0": ws.first().map(|e| e.is_none()).unwrap_or(false), "ws": items})
    }
    /// the state in the form of TraceSync's `post` (base as a version token)
    pub fn db_to_json(&self, d: &DbState, base: Value) -> Value {
        let tasks: Vec<(Uuid, TaskMap)> = d
            .tasks
            .iter()
            .map(|(u, t)| (*u, t.iter().map(|(k, v)| (k.clone(), v.clone())).collect()))
            .collect();
        let w = self.ws_to_json(&d.ws);
        json!({"tasks": self.tasks_to_json(tasks), "ops": self.ops_to_json(&d.ops),
               "base": base, "ws": w["ws"], "ws0": w["ws0"]})
    }
}

fn status_of(e: &taskchampion::Error) -> (&'static str, String) {
    let msg = format!("{e:#}");
    if msg.contains("read-only mode") {
        ("readonly", msg)
    } else {
        ("error", msg)
    }
}

// ------------------------------------------------------------------------------------------
// C16: storage-replay

async fn open_sqlite(dir: &Path, ro: bool, create: bool) -> Result<SqliteStorage, String> {
    let mode = if ro { AccessMode::ReadOnly } else { AccessMode::ReadWrite };
    SqliteStorage::new(dir, mode, create).await.map_err(|e| format!("{e:#}"))
}

/// one call of a StorageTxn method: (status, value, message)
async fn exec_call(txn: &mut dyn StorageTxn, c: &Value, sm: &mut SM) -> (String, Value, String) {
    let a = c["a"].as_str().unwrap();
    let u = c["u"].as_str().unwrap_or("-");
    macro_rules! done {
        ($r:expr, $f:expr) => {
            match $r {
                Ok(x) => ("ok".to_string(), $f(x), String::new()),
                Err(e) => {
                    let (st, msg) = status_of(&e);
                    (st.to_string(), json!("-"), msg)
                }
            }
        };
    }
    let unit = |_: ()| json!("-");
    match a {
        "GetTask" => {
            let r = txn.get_task(sm.task(u)).await;
            done!(r, |t: Option<TaskMap>| match t {
                Some(t) => json!({"ex": true, "m": sm.map_to_json(&t)}),
                None => json!({"ex": false, "m": []}),
            })
        }
        "CreateTask" => done!(txn.create_task(sm.task(u)).await, |b: bool| json!(b)),
        "SetTask" => {
            let m = sm.map_from_json(&c["m"]);
            done!(txn.set_task(sm.task(u), m).await, unit)
        }
        "DeleteTask" => done!(txn.delete_task(sm.task(u)).await, |b: bool| json!(b)),
        "AllTasks" => done!(txn.all_tasks().await, |t| sm.tasks_to_json(t)),
        "AllTaskUuids" => done!(txn.all_task_uuids().await, |us: Vec<Uuid>| {
            let mut v: Vec<String> = us.iter().map(|x| sm.task_tok(*x)).collect();
            v.sort();
            json!(v)
        }),
        "BaseVersion" => done!(txn.base_version().await, |v| json!(sm.ver_tok(v))),
        "SetBaseVersion" => {
            let v = sm.ver(c["v"].as_str().unwrap());
            done!(txn.set_base_version(v).await, unit)
        }
        "AddOperation" => {
            let op = sm.op_from_json(&c["op"]);
            done!(txn.add_operation(op).await, unit)
        }
        "RemoveOperation" => {
            let op = sm.op_from_json(&c["op"]);
            done!(txn.remove_operation(op).await, unit)
        }
        "UnsyncedOperations" => {
            done!(txn.unsynced_operations().await, |o: Vec<Operation>| sm.ops_to_json(&o))
        }
        "NumUnsynced" => done!(txn.num_unsynced_operations().await, |n: usize| json!(n)),
        "GetTaskOperations" => {
            done!(txn.get_task_operations(sm.task(u)).await, |o: Vec<Operation>| sm.ops_to_json(&o))
        }
        "SyncComplete" => done!(txn.sync_complete().await, unit),
        "GetWorkingSet" => {
            done!(txn.get_working_set().await, |w: Vec<Option<Uuid>>| sm.ws_to_json(&w))
        }
        "AddToWorkingSet" => done!(txn.add_to_working_set(sm.task(u)).await, |n: usize| json!(n)),
        "SetWorkingSetItem" => {
            let i = c["i"].as_u64().unwrap() as usize;
            let x = c["x"].as_str().unwrap();
            let x = if x == NOVAL { None } else { Some(sm.task(x)) };
            done!(txn.set_working_set_item(i, x).await, unit)
        }
        "ClearWorkingSet" => done!(txn.clear_working_set().await, unit),
        "GetPendingTasks" => done!(txn.get_pending_tasks().await, |t| sm.tasks_to_json(t)),
        "IsEmpty" => done!(txn.is_empty().await, |b: bool| json!(b)),
        other => panic!("unknown storage call {other}"),
    }
}

/// DDL of the historical schemas (src/storage/sqlite/schema.rs; the 0.8.0 dump in inner.rs)
fn legacy_sql(ver: &str, src: &Path) -> Result<String, String> {
    let mut s = String::new();
    s.push_str(&format!("ATTACH DATABASE '{}' AS src;\n", src.display()));
    s.push_str("PRAGMA journal_mode=WAL;\n");
    s.push_str(
        "CREATE TABLE operations (id INTEGER PRIMARY KEY AUTOINCREMENT, data STRING);\n\
         CREATE TABLE sync_meta (key STRING PRIMARY KEY, value STRING);\n\
         CREATE TABLE tasks (uuid STRING PRIMARY KEY, data STRING);\n\
         CREATE TABLE working_set (id INTEGER PRIMARY KEY, uuid STRING);\n",
    );
    let uuid_col = |q: char| {
        format!(
            "ALTER TABLE operations ADD COLUMN uuid GENERATED ALWAYS AS (\
             coalesce(json_extract(data, {q}$.Update.uuid{q}), \
             json_extract(data, {q}$.Create.uuid{q}), \
             json_extract(data, {q}$.Delete.uuid{q}))) VIRTUAL;\n\
             CREATE INDEX operations_by_uuid ON operations (uuid);\n"
        )
    };
    let synced = "ALTER TABLE operations ADD COLUMN synced bool DEFAULT false;\n\
                  CREATE INDEX operations_by_synced ON operations (synced);\n";
    let version = |minor: u32| {
        format!(
            "CREATE TABLE version (singleton INTEGER PRIMARY KEY CHECK (singleton = 0), \
             major INTEGER, minor INTEGER);\n\
             INSERT INTO version (singleton, major, minor) VALUES (0, 0, {minor});\n"
        )
    };
    match ver {
        "0.8" => {}
        "0.9" => {
            s.push_str(&uuid_col('"'));
            s.push_str(synced);
        }
        "0.1" => {
            s.push_str(&uuid_col('"'));
            s.push_str(synced);
            s.push_str(&version(1));
        }
        "0.2" => {
            s.push_str(&uuid_col('\''));
            s.push_str(synced);
            s.push_str(&version(2));
        }
        _ => return Err(format!("unknown legacy schema {ver}")),
    }
    if ver == "0.8" {
        s.push_str("INSERT INTO operations (id, data) SELECT id, data FROM src.operations ORDER BY id;\n");
    } else {
        s.push_str(
            "INSERT INTO operations (id, data, synced) SELECT id, data, synced FROM src.operations ORDER BY id;\n",
        );
    }
    s.push_str(
        "INSERT INTO sync_meta (key, value) SELECT key, value FROM src.sync_meta;\n\
         INSERT INTO tasks (uuid, data) SELECT uuid, data FROM src.tasks;\n\
         INSERT INTO working_set (id, uuid) SELECT id, uuid FROM src.working_set;\n\
         DETACH DATABASE src;\n",
    );
    Ok(s)
}

/// Rewrite the database in `dir` under an older schema with the sqlite3 command-line tool.
fn rewrite_legacy(dir: &Path, ver: &str, sqlite3: &str) -> Result<(), String> {
    let db = dir.join("taskchampion.sqlite3");
    let src = dir.join("current.sqlite3");
    if !db.exists() {
        return Err("no database to rewrite".into());
    }
    for suffix in ["-wal", "-shm"] {
        let p = dir.join(format!("taskchampion.sqlite3{suffix}"));
        if p.exists() && std::fs::metadata(&p).map(|m| m.len()).unwrap_or(0) > 0 && suffix == "-wal" {
            return Err("write-ahead log not checkpointed after close".into());
        }
        let _ = std::fs::remove_file(p);
    }
    std::fs::rename(&db, &src).map_err(|e| e.to_string())?;
    let sql = legacy_sql(ver, &src)?;
    let mut child = std::process::Command::new(sqlite3)
        .arg("-bail")
        .arg(&db)
        .stdin(std::process::Stdio::piped())
        .stdout(std::process::Stdio::piped())
        .stderr(std::process::Stdio::piped())
        .spawn()
        .map_err(|e| format!("cannot run {sqlite3}: {e}"))?;
    child.stdin.take().unwrap().write_all(sql.as_bytes()).map_err(|e| e.to_string())?;
    let out = child.wait_with_output().map_err(|e| e.to_string())?;
    if !out.status.success() {
        return Err(format!(
            "sqlite3 failed for schema {ver}: {}",
            String::from_utf8_lossy(&out.stderr)
        ));
    }
    let _ = std::fs::remove_file(&src);
    for suffix in ["-wal", "-shm"] {
        let _ = std::fs::remove_file(dir.join(format!("current.sqlite3{suffix}")));
    }
    Ok(())
}

struct ReplayCfg {
    sqlite3: Option<String>,
    /// directory holding an empty database created by SqliteStorage::new
    template: PathBuf,
}

async fn run_stimulus(b: &Value, dir: &Path, cfg: &ReplayCfg, log: Arc<Mutex<Vec<Value>>>) {
    let backend = b["backend"].as_str().unwrap_or("mem").to_string();
    let valclass = b["valclass"].as_str().unwrap_or("ascii");
    let mut sm = SM::new(valclass);
    let emit = |v: Value| log.lock().unwrap().push(v);
    emit(json!({"a":"Reset","id":b["id"].clone(),"backend":backend,"valclass":valclass,
                "check":b["check"].as_str().unwrap_or("-")}));
    let sql = backend == "sqlite";
    let mut storage: Box<dyn Storage> = if sql {
        let _ = std::fs::remove_dir_all(dir);
        // most databases start as a copy of an empty database that SqliteStorage itself created
        // (creating the schema costs more than everything else a short stimulus does); every
        // 16th stimulus, and the first of each job, creates its database from nothing
        let fresh = b["id"].as_u64().unwrap_or(0) % 16 == 0;
        let tpl = cfg.template.join("taskchampion.sqlite3");
        let mut create = true;
        if !fresh && tpl.exists() {
            std::fs::create_dir_all(dir).unwrap();
            std::fs::copy(&tpl, dir.join("taskchampion.sqlite3")).unwrap();
            create = false;
        }
        match open_sqlite(dir, false, create).await {
            Ok(s) => Box::new(s),
            Err(e) => {
                emit(json!({"a":"OpenFailed","msg":e}));
                return;
            }
        }
    } else {
        Box::new(InMemoryStorage::new())
    };
    let steps = b["steps"].as_array().unwrap();
    let mut i = 0usize;
    while i < steps.len() {
        let s = &steps[i];
        let a = s["a"].as_str().unwrap();
        match a {
            "Begin" => {
                i += 1;
                let mut txn = match storage.txn().await {
                    Ok(t) => {
                        emit(json!({"a":"Begin","st":"ok"}));
                        t
                    }
                    Err(e) => {
                        emit(json!({"a":"Begin","st":"error","msg":format!("{e:#}")}));
                        continue;
                    }
                };
                while i < steps.len() {
                    let s = &steps[i];
                    let a = s["a"].as_str().unwrap();
                    i += 1;
                    match a {
                        "Commit" => {
                            let r = txn.commit().await;
                            // nothing may be called on a transaction after commit, whatever
                            // commit returned
                            match r {
                                Ok(()) => emit(json!({"a":"Commit","st":"ok"})),
                                Err(e) => {
                                    let (st, msg) = status_of(&e);
                                    emit(json!({"a":"Commit","st":st,"msg":msg}));
                                }
                            }
                            break;
                        }
                        "Abandon" => {
                            emit(json!({"a":"Abandon"}));
                            break;
                        }
                        "Begin" | "Reopen" | "Legacy" => {
                            panic!("stimulus {}: {a} inside a transaction", b["id"])
                        }
                        _ => {
                            let (st, v, msg) = exec_call(txn.as_mut(), s, &mut sm).await;
                            let mut e = json!({"a":"Call","c":s.clone(),"st":st,"v":v});
                            if !msg.is_empty() {
                                e["msg"] = json!(msg);
                            }
                            emit(e);
                        }
                    }
                }
                drop(txn);
            }
            "Reopen" | "Legacy" => {
                i += 1;
                if !sql {
                    // there is nothing to reopen in memory; only stimuli whose reopen steps are
                    // plain read-write reopens are given to this backend
                    continue;
                }
                drop(storage);
                let mut st = "ok".to_string();
                let mut msg = String::new();
                if a == "Legacy" {
                    let ver = s["v"].as_str().unwrap();
                    match &cfg.sqlite3 {
                        Some(cli) => {
                            if let Err(e) = rewrite_legacy(dir, ver, cli) {
                                st = "toolerror".into();
                                msg = e;
                            }
                        }
                        None => {
                            st = "toolerror".into();
                            msg = "no sqlite3 command-line tool".into();
                        }
                    }
                }
                let ro = a == "Reopen" && s["v"].as_str() == Some("ro");
                match open_sqlite(dir, ro, false).await {
                    Ok(s2) => storage = Box::new(s2),
                    Err(e) => {
                        emit(json!({"a":a,"v":s["v"].clone(),"st":"error","msg":e}));
                        return;
                    }
                }
                let mut e = json!({"a":a,"v":s["v"].clone(),"st":st});
                if !msg.is_empty() {
                    e["msg"] = json!(msg);
                }
                emit(e);
            }
            other => panic!("stimulus {}: unexpected step {other} outside a transaction", b["id"]),
        }
    }
    drop(storage);
}

fn storage_replay(args: &[String]) {
    let inp = arg(args, "--in").expect("--in");
    let out = arg(args, "--out").expect("--out");
    let dir = match arg(args, "--dir") {
        Some(d) => PathBuf::from(d),
        None => Path::new(&out).parent().unwrap_or(Path::new(".")).join("storage-dbs"),
    };
    let jobs: usize = arg(args, "--jobs").and_then(|j| j.parse().ok()).unwrap_or(4);
    let sqlite3 = Some(arg(args, "--sqlite3").unwrap_or_else(|| "sqlite3".to_string()));
    let f = std::io::BufReader::new(std::fs::File::open(inp).unwrap());
    let stimuli: Vec<Value> = f
        .lines()
        .map(|l| l.unwrap())
        .filter(|l| !l.trim().is_empty())
        .map(|l| serde_json::from_str(&l).expect("stimulus json"))
        .collect();
    let n = stimuli.len();
    let stimuli = Arc::new(stimuli);
    let next = Arc::new(Mutex::new(0usize));
    let results: Arc<Mutex<Vec<Option<Vec<Value>>>>> = Arc::new(Mutex::new(vec![None; n]));
    std::fs::create_dir_all(&dir).unwrap();
    let mut handles = vec![];
    for j in 0..jobs.max(1) {
        let stimuli = stimuli.clone();
        let next = next.clone();
        let results = results.clone();
        let dir = dir.join(format!("job{j}"));
        let sqlite3 = sqlite3.clone();
        handles.push(std::thread::spawn(move || {
            let cfg = ReplayCfg { sqlite3, template: dir.join("template") };
            let rt = tokio::runtime::Builder::new_current_thread().enable_all().build().unwrap();
            if stimuli.iter().any(|b| b["backend"].as_str() == Some("sqlite")) {
                let t = cfg.template.clone();
                let local = tokio::task::LocalSet::new();
                local.block_on(&rt, async move {
                    let s = open_sqlite(&t, false, true).await.expect("template database");
                    drop(s);
                });
            }
            loop {
                let k = {
                    let mut g = next.lock().unwrap();
                    let k = *g;
                    *g += 1;
                    k
                };
                if k >= stimuli.len() {
                    break;
                }
                let log = Arc::new(Mutex::new(Vec::new()));
                let b = stimuli[k].clone();
                let d = dir.join("db");
                let l2 = log.clone();
                let r = std::panic::catch_unwind(std::panic::AssertUnwindSafe(|| {
                    let local = tokio::task::LocalSet::new();
                    local.block_on(&rt, run_stimulus(&b, &d, &cfg, l2));
                }));
                if let Err(p) = r {
                    let msg = p
                        .downcast_ref::<String>()
                        .cloned()
                        .or_else(|| p.downcast_ref::<&str>().map(|s| s.to_string()))
                        .unwrap_or_default();
                    log.lock().unwrap().push(json!({"a":"Panic","msg":msg}));
                }
                let lines = std::mem::take(&mut *log.lock().unwrap());
                results.lock().unwrap()[k] = Some(lines);
            }
            let _ = std::fs::remove_dir_all(&dir);
        }));
    }
    for h in handles {
        h.join().unwrap();
    }
    let mut o = std::io::BufWriter::new(std::fs::File::create(out).unwrap());
    let mut nev = 0usize;
    for r in results.lock().unwrap().iter() {
        for l in r.as_ref().expect("result") {
            writeln!(o, "{}", serde_json::to_string(l).unwrap()).unwrap();
            nev += 1;
        }
    }
    eprintln!("replayed {n} stimuli, {nev} events");
}

// ------------------------------------------------------------------------------------------
// C06: replica actions in a child process that is stopped at a chosen storage call

/// The abstract state in a SQLite replica directory, read through a fresh handle.
async fn read_dir_state(dir: &Path) -> Result<DbState, String> {
    let mut s = open_sqlite(dir, false, false).await?;
    let mut t = s.txn().await.map_err(|e| format!("{e:#}"))?;
    let st = read_state(t.as_mut()).await.map_err(|e| format!("{e:#}"))?;
    drop(t);
    drop(s);
    Ok(st)
}

/// The ids of the versions held by the local server in `dir`, oldest first.
async fn chain_ids(dir: &Path) -> Vec<Uuid> {
    let mut ids = vec![];
    if !dir.join("taskchampion-sync-server.sqlite3").exists() && std::fs::read_dir(dir).map(|d| d.count()).unwrap_or(0) == 0 {
        return ids;
    }
    let mut srv = match (ServerConfig::Local { server_dir: dir.to_path_buf() }).into_server().await {
        Ok(s) => s,
        Err(_) => return ids,
    };
    let mut parent = Uuid::nil();
    for _ in 0..10_000 {
        match srv.get_child_version(parent).await {
            Ok(GetVersionResult::Version { version_id, .. }) => {
                ids.push(version_id);
                parent = version_id;
            }
            _ => break,
        }
    }
    ids
}

fn copy_tree(src: &Path, dst: &Path) {
    let _ = std::fs::remove_dir_all(dst);
    std::fs::create_dir_all(dst).unwrap();
    for e in std::fs::read_dir(src).unwrap() {
        let e = e.unwrap();
        let p = e.path();
        let d = dst.join(e.file_name());
        if p.is_dir() {
            copy_tree(&p, &d);
        } else {
            std::fs::copy(&p, &d).unwrap();
        }
    }
}

fn state_json(sm: &SM, ids: &[Uuid], d: &DbState) -> Value {
    sm.db_to_json(d, json!(ver_index(ids, d.base)))
}

/// raw form used between child and parent: base as a uuid string
fn state_raw(sm: &SM, d: &DbState) -> Value {
    sm.db_to_json(d, json!(d.base.to_string()))
}

fn raw_to_indexed(raw: &Value, ids: &[Uuid]) -> Value {
    let mut v = raw.clone();
    let b = Uuid::parse_str(raw["base"].as_str().unwrap_or("")).unwrap_or(Uuid::nil());
    v["base"] = json!(ver_index(ids, b));
    v
}

/// Perform one action (Edit / Undo / Rebuild / Sync) on a replica; returns (result, fetched
/// undo list as JSON).
async fn do_action(
    rep: &mut Replica<Tap>,
    server_dir: &Path,
    act: &Value,
    sm: &mut SM,
) -> (String, Value) {
    let kind = act["kind"].as_str().unwrap();
    let classify = |e: &taskchampion::Error| {
        let m = format!("{e:#}");
        if m.contains("injected") { "injected".to_string() } else { format!("error: {m}") }
    };
    match kind {
        "Edit" => {
            let ops: Vec<Operation> =
                act["ops"].as_array().unwrap().iter().map(|j| sm.op_from_json(j)).collect();
            match rep.commit_operations(ops).await {
                Ok(()) => ("ok".into(), json!([])),
                Err(e) => (classify(&e), json!([])),
            }
        }
        // self-test of the check only: the batch committed in two storage transactions
        "EditSplit" => {
            let ops: Vec<Operation> =
                act["ops"].as_array().unwrap().iter().map(|j| sm.op_from_json(j)).collect();
            let (a, b) = ops.split_at(ops.len() / 2);
            if let Err(e) = rep.commit_operations(a.to_vec()).await {
                return (classify(&e), json!([]));
            }
            match rep.commit_operations(b.to_vec()).await {
                Ok(()) => ("ok".into(), json!([])),
                Err(e) => (classify(&e), json!([])),
            }
        }
        "Undo" if act["ops"].as_array().map(|a| !a.is_empty()).unwrap_or(false) => {
            // a list fetched earlier (possibly stale by now)
            let ops: Vec<Operation> =
                act["ops"].as_array().unwrap().iter().map(|j| sm.op_from_json(j)).collect();
            let oj = sm.ops_to_json(&ops);
            match rep.commit_reversed_operations(ops).await {
                Ok(true) => ("true".into(), oj),
                Ok(false) => ("false".into(), oj),
                Err(e) => (classify(&e), oj),
            }
        }
        "Undo" => {
            let ops = match rep.get_undo_operations().await {
                Ok(o) => o,
                Err(e) => return (classify(&e), json!([])),
            };
            let oj = sm.ops_to_json(&ops);
            match rep.commit_reversed_operations(ops).await {
                Ok(true) => ("true".into(), oj),
                Ok(false) => ("false".into(), oj),
                Err(e) => (classify(&e), oj),
            }
        }
        "Rebuild" => match rep.rebuild_working_set(act["rn"].as_bool().unwrap_or(false)).await {
            Ok(()) => ("ok".into(), json!([])),
            Err(e) => (classify(&e), json!([])),
        },
        "Sync" => {
            std::fs::create_dir_all(server_dir).unwrap();
            let mut srv: Box<dyn Server> =
                match (ServerConfig::Local { server_dir: server_dir.to_path_buf() }).into_server().await {
                    Ok(s) => s,
                    Err(e) => return (format!("error: server: {e:#}"), json!([])),
                };
            match rep.sync(&mut srv, false).await {
                Ok(()) => ("ok".into(), json!([])),
                Err(e) => (classify(&e), json!([])),
            }
        }
        other => panic!("unknown action {other}"),
    }
}

/// `sqlite-child --dir D --action JSON [--fail-at K --fail-kind kill|killafter|error]
/// [--linger-ms N]`: opens D/replica wrapped in the tap, performs the action, prints RETURNED
/// and a one-line JSON report.
fn child_main(args: &[String]) {
    let dir = PathBuf::from(arg(args, "--dir").expect("--dir"));
    let act: Value = serde_json::from_str(&arg(args, "--action").expect("--action")).unwrap();
    let fail_at: Option<u64> = arg(args, "--fail-at").and_then(|k| k.parse().ok());
    let kind = match arg(args, "--fail-kind").as_deref() {
        Some("kill") => Some(FailKind::Kill),
        Some("killafter") => Some(FailKind::KillAfter),
        Some("error") => Some(FailKind::Error),
        _ => None,
    };
    let linger: u64 = arg(args, "--linger-ms").and_then(|k| k.parse().ok()).unwrap_or(0);
    let which = arg(args, "--replica").unwrap_or_else(|| "replica".to_string());
    local_block_on(async move {
        let mut sm = SM::new("ascii");
        let storage = open_sqlite(&dir.join(&which), false, false).await.expect("open replica");
        let (tap, shared) = Tap::new(AnyStorage::Sql(storage));
        let mut rep = Replica::new(tap);
        {
            let mut sh = shared.lock().unwrap();
            sh.record = true;
            sh.calls = 0;
            sh.commits.clear();
            sh.fail_at = fail_at.zip(kind);
        }
        let (result, undo) = do_action(&mut rep, &dir.join("server"), &act, &mut sm).await;
        {
            let mut o = std::io::stdout().lock();
            writeln!(o, "RETURNED").unwrap();
            o.flush().unwrap();
        }
        let (names, commits) = {
            let mut sh = shared.lock().unwrap();
            sh.fail_at = None;
            sh.record = false;
            (sh.names.clone(), std::mem::take(&mut sh.commits))
        };
        // the state as the same handle sees it afterwards
        let _ = rep.all_task_uuids().await;
        let same = shared.lock().unwrap().begin.clone();
        let commits: Vec<Value> = commits.iter().map(|c| state_raw(&sm, c)).collect();
        let rep_json = json!({"result": result, "undo": undo, "calls": names,
            "commits": commits, "same": same.map(|s| state_raw(&sm, &s))});
        {
            let mut o = std::io::stdout().lock();
            writeln!(o, "{}", serde_json::to_string(&rep_json).unwrap()).unwrap();
            o.flush().unwrap();
        }
        if linger > 0 {
            std::thread::sleep(std::time::Duration::from_millis(linger));
        }
        drop(rep);
    });
}

/// This very executable, also when the file has been replaced by a rebuild meanwhile.
fn self_exe() -> PathBuf {
    let p = PathBuf::from("/proc/self/exe");
    if p.exists() {
        p
    } else {
        std::env::current_exe().expect("current_exe")
    }
}

struct ChildOut {
    killed: bool,
    returned: bool,
    report: Option<Value>,
    wall_us: u128,
}

fn run_child(dir: &Path, act: &Value, fail: Option<(u64, &str)>, linger: u64, kill_after_us: Option<u64>) -> ChildOut {
    let exe = self_exe();
    let mut cmd = std::process::Command::new(exe);
    cmd.arg("sqlite-child").arg("--dir").arg(dir).arg("--action").arg(act.to_string());
    if let Some((k, kind)) = fail {
        cmd.arg("--fail-at").arg(k.to_string()).arg("--fail-kind").arg(kind);
    }
    if linger > 0 {
        cmd.arg("--linger-ms").arg(linger.to_string());
    }
    cmd.stdin(std::process::Stdio::null())
        .stdout(std::process::Stdio::piped())
        .stderr(std::process::Stdio::null());
    let t0 = std::time::Instant::now();
    let mut child = cmd.spawn().expect("spawn child");
    if let Some(us) = kill_after_us {
        std::thread::sleep(std::time::Duration::from_micros(us));
        unsafe {
            libc::kill(child.id() as i32, libc::SIGKILL);
        }
    }
    let out = child.wait_with_output().expect("wait child");
    let wall_us = t0.elapsed().as_micros();
    use std::os::unix::process::ExitStatusExt;
    let killed = out.status.signal() == Some(libc::SIGKILL);
    let text = String::from_utf8_lossy(&out.stdout);
    let mut returned = false;
    let mut report = None;
    for line in text.lines() {
        if line == "RETURNED" {
            returned = true;
        } else if line.starts_with('{') {
            report = serde_json::from_str(line).ok();
        }
    }
    ChildOut { killed, returned, report, wall_us }
}

/// operations of a stimulus (old values possibly as an object) in trace form (pairs)
fn ops_as_pairs(ops: &Value) -> Value {
    let mut sm = SM::new("ascii");
    let v: Vec<Value> = ops
        .as_array()
        .map(|a| a.iter().map(|j| { let o = sm.op_from_json(j); sm.op_to_json(&o) }).collect())
        .unwrap_or_default();
    Value::Array(v)
}

/// the storage transactions of an action, as labels for the commits it makes
fn acts_of(action: &Value, undo: &Value, ncommits: usize) -> Vec<Value> {
    let kind = action["kind"].as_str().unwrap();
    let main = match kind {
        "Edit" | "EditSplit" => json!({"kind":"Edit","ops":ops_as_pairs(&action["ops"]),"rn":false}),
        "Undo" => json!({"kind":"Undo","ops":undo.clone(),"rn":false}),
        "Rebuild" => json!({"kind":"Rebuild","ops":[],"rn":action["rn"].as_bool().unwrap_or(false)}),
        _ => json!({"kind":"Sync","ops":[],"rn":false}),
    };
    let mut v = vec![];
    for i in 0..ncommits {
        if i == 0 {
            v.push(main.clone());
        } else {
            v.push(json!({"kind":"Rebuild","ops":[],"rn":false}));
        }
    }
    v
}

/// One stimulus: prior steps, then the action under test interrupted at every storage call.
async fn kill_stimulus(b: &Value, root: &Path, lines: &mut Vec<Value>, stats: &mut HashMap<String, u64>) {
    let mut sm = SM::new("ascii");
    let id = b["id"].clone();
    let base = root.join("base");
    let _ = std::fs::remove_dir_all(root);
    std::fs::create_dir_all(base.join("server")).unwrap();
    // ---- prior history, in process
    {
        let mut reps: HashMap<String, Replica<Tap>> = HashMap::new();
        for s in b["prior"].as_array().unwrap() {
            let r = s["r"].as_str().unwrap_or("A").to_string();
            if !reps.contains_key(&r) {
                let d = base.join(if r == "A" { "replica".to_string() } else { format!("replica{r}") });
                let st = open_sqlite(&d, false, true).await.expect("create replica");
                let (tap, sh) = Tap::new(AnyStorage::Sql(st));
                sh.lock().unwrap().quiet = true;
                reps.insert(r.clone(), Replica::new(tap));
            }
            let rep = reps.get_mut(&r).unwrap();
            let (res, _) = do_action(rep, &base.join("server"), s, &mut sm).await;
            if res.starts_with("error") {
                lines.push(json!({"a":"ToolError","id":id,"msg":format!("prior step failed: {res}")}));
                return;
            }
        }
        if !reps.contains_key("A") {
            let st = open_sqlite(&base.join("replica"), false, true).await.expect("create replica");
            drop(st);
        }
        drop(reps);
    }
    let action = &b["action"];
    let s0 = read_dir_state(&base.join("replica")).await.expect("read prior state");
    let ids0 = chain_ids(&base.join("server")).await;
    let s0j = state_json(&sm, &ids0, &s0);

    // ---- reference run
    let refd = root.join("ref");
    copy_tree(&base, &refd);
    let r = run_child(&refd, action, None, 0, None);
    let Some(rep) = r.report.clone() else {
        lines.push(json!({"a":"ToolError","id":id,"msg":"reference child gave no report"}));
        return;
    };
    let ids_ref = chain_ids(&refd.join("server")).await;
    let calls: Vec<String> =
        rep["calls"].as_array().unwrap().iter().map(|x| x.as_str().unwrap().to_string()).collect();
    let posts: Vec<Value> =
        rep["commits"].as_array().unwrap().iter().map(|c| raw_to_indexed(c, &ids_ref)).collect();
    let acts = acts_of(action, &rep["undo"], posts.len());
    let fin = read_dir_state(&refd.join("replica")).await.expect("read reference state");
    let finj = state_json(&sm, &ids_ref, &fin);
    // the uninterrupted run: every transaction a complete action, the result durable
    lines.push(json!({"a":"Reset","id":id,"run":"reference","action":action,"result":rep["result"],
                      "calls":calls}));
    lines.push(json!({"a":"Open","db":s0j}));
    for (a, p) in acts.iter().zip(posts.iter()) {
        lines.push(json!({"a":"Begin","h":"h1","act":a}));
        lines.push(json!({"a":"Commit","h":"h1","post":p}));
    }
    if let Some(same) = rep.get("same").filter(|s| !s.is_null()) {
        lines.push(json!({"a":"Observe","via":"same handle","obs":raw_to_indexed(same, &ids_ref)}));
    }
    lines.push(json!({"a":"Observe","via":"fresh handle after exit","obs":finj}));
    *stats.entry("reference_runs".into()).or_insert(0) += 1;

    // ---- stops and failures at every storage call index
    let n = calls.len() as u64;
    let commit_idx: Vec<u64> =
        calls.iter().enumerate().filter(|(_, c)| *c == "commit").map(|(i, _)| i as u64 + 1).collect();
    let kinds: Vec<String> = b["kinds"]
        .as_array()
        .map(|a| a.iter().map(|x| x.as_str().unwrap().to_string()).collect())
        .unwrap_or_else(|| vec!["kill".into(), "killafter".into(), "error".into()]);
    let stride = b["stride"].as_u64().unwrap_or(1).max(1);
    let offset = b["id"].as_u64().unwrap_or(0) % stride;
    for k in 1..=n {
        for kind in &kinds {
            // with a stride only every stride-th index is used, but always the commits and
            // their neighbours
            let near_commit = commit_idx.iter().any(|c| k + 1 >= *c && k <= *c + 1);
            if !near_commit && k % stride != offset {
                continue;
            }
            let d = root.join("run");
            copy_tree(&base, &d);
            let o = run_child(&d, action, Some((k, kind.as_str())), 0, None);
            let ids = chain_ids(&d.join("server")).await;
            let obs = match read_dir_state(&d.join("replica")).await {
                Ok(s) => state_json(&sm, &ids, &s),
                Err(e) => {
                    lines.push(json!({"a":"Reset","id":id,"run":format!("{kind}@{k}")}));
                    lines.push(json!({"a":"Unreadable","msg":e}));
                    continue;
                }
            };
            // transactions completed before the stop: commits that had returned
            let done = commit_idx
                .iter()
                .filter(|c| **c < k || (**c == k && kind == "killafter"))
                .count();
            // a stop after the k-th call returned leaves a transaction open unless that call
            // was its commit; a stop before the k-th call is always inside a transaction
            let inside = !(kind == "killafter" && commit_idx.contains(&k));
            lines.push(json!({"a":"Reset","id":id,"run":format!("{kind}@{k}"),"call":calls[(k-1) as usize],
                              "died":o.killed}));
            lines.push(json!({"a":"Open","db":s0j}));
            for i in 0..done.min(acts.len()) {
                lines.push(json!({"a":"Begin","h":"h1","act":acts[i]}));
                lines.push(json!({"a":"Commit","h":"h1","post":posts[i]}));
            }
            if kind == "error" {
                // the call returned an error: the action returns it, the transaction is dropped
                if done < acts.len() {
                    lines.push(json!({"a":"Begin","h":"h1","act":acts[done]}));
                    lines.push(json!({"a":"Drop","h":"h1"}));
                }
                let res = o.report.as_ref().map(|r| r["result"].clone()).unwrap_or(json!("?"));
                if res != json!("injected") {
                    lines.push(json!({"a":"Unexpected","what":"the action did not return the injected error","result":res}));
                }
                if let Some(same) = o.report.as_ref().and_then(|r| r.get("same")).filter(|s| !s.is_null()) {
                    lines.push(json!({"a":"Observe","via":"same handle","obs":raw_to_indexed(same, &ids)}));
                }
                lines.push(json!({"a":"Observe","via":"fresh handle after exit","obs":obs}));
                *stats.entry("error_returns".into()).or_insert(0) += 1;
            } else {
                if !o.killed {
                    lines.push(json!({"a":"Unexpected","what":"child was not stopped","k":k}));
                }
                if inside && done < acts.len() {
                    lines.push(json!({"a":"Begin","h":"h1","act":acts[done]}));
                } else if inside {
                    // a read-only transaction after the last commit (none in these actions)
                    lines.push(json!({"a":"Begin","h":"h1","act":{"kind":"Rebuild","ops":[],"rn":false}}));
                }
                lines.push(json!({"a":"Kill","h":"h1"}));
                lines.push(json!({"a":"Recover","h":"h1","obs":obs}));
                *stats.entry("kills_at_call".into()).or_insert(0) += 1;
            }
        }
    }

    // ---- stops at random instants
    let nasync = b["async"].as_u64().unwrap_or(0);
    let mut seed = b["seed"].as_u64().unwrap_or(1).wrapping_mul(6364136223846793005).wrapping_add(id.as_u64().unwrap_or(0));
    let span = (r.wall_us as u64).max(2000);
    for _ in 0..nasync {
        seed = seed.wrapping_mul(6364136223846793005).wrapping_add(1442695040888963407);
        let us = (seed >> 33) % (span + span / 4);
        let d = root.join("run");
        copy_tree(&base, &d);
        let o = run_child(&d, action, None, 50, Some(us));
        let ids = chain_ids(&d.join("server")).await;
        let obs = match read_dir_state(&d.join("replica")).await {
            Ok(s) => state_json(&sm, &ids, &s),
            Err(e) => {
                lines.push(json!({"a":"Reset","id":id,"run":format!("async@{us}us")}));
                lines.push(json!({"a":"Unreadable","msg":e}));
                continue;
            }
        };
        lines.push(json!({"a":"Reset","id":id,"run":format!("async@{us}us"),"died":o.killed}));
        lines.push(json!({"a":"Open","db":s0j}));
        lines.push(json!({"a":"KillAsync","h":"h1","acts":acts,"posts":posts,"reported":o.returned}));
        lines.push(json!({"a":"Recover","h":"h1","obs":obs}));
        *stats.entry(if o.returned { "async_kills_after_return" } else { "async_kills_before_return" }.into()).or_insert(0) += 1;
    }
    let _ = std::fs::remove_dir_all(root);
}

fn kill_main(args: &[String]) {
    let inp = arg(args, "--in").expect("--in");
    let out = arg(args, "--out").expect("--out");
    let dir = PathBuf::from(arg(args, "--dir").expect("--dir"));
    let jobs: usize = arg(args, "--jobs").and_then(|j| j.parse().ok()).unwrap_or(4);
    let f = std::io::BufReader::new(std::fs::File::open(inp).unwrap());
    let stimuli: Vec<Value> = f
        .lines()
        .map(|l| l.unwrap())
        .filter(|l| !l.trim().is_empty())
        .map(|l| serde_json::from_str(&l).expect("stimulus json"))
        .collect();
    let n = stimuli.len();
    let stimuli = Arc::new(stimuli);
    let next = Arc::new(Mutex::new(0usize));
    let results: Arc<Mutex<Vec<Option<Vec<Value>>>>> = Arc::new(Mutex::new(vec![None; n]));
    let stats: Arc<Mutex<HashMap<String, u64>>> = Arc::new(Mutex::new(HashMap::new()));
    let mut handles = vec![];
    for j in 0..jobs.max(1) {
        let (stimuli, next, results, stats) = (stimuli.clone(), next.clone(), results.clone(), stats.clone());
        let dir = dir.join(format!("job{j}"));
        handles.push(std::thread::spawn(move || loop {
            let k = {
                let mut g = next.lock().unwrap();
                let k = *g;
                *g += 1;
                k
            };
            if k >= stimuli.len() {
                break;
            }
            let mut lines = vec![];
            let mut st = HashMap::new();
            local_block_on(kill_stimulus(&stimuli[k], &dir, &mut lines, &mut st));
            results.lock().unwrap()[k] = Some(lines);
            let mut g = stats.lock().unwrap();
            for (k, v) in st {
                *g.entry(k).or_insert(0) += v;
            }
        }));
    }
    for h in handles {
        h.join().unwrap();
    }
    let mut o = std::io::BufWriter::new(std::fs::File::create(out).unwrap());
    for r in results.lock().unwrap().iter() {
        for l in r.as_ref().expect("result") {
            writeln!(o, "{}", serde_json::to_string(l).unwrap()).unwrap();
        }
    }
    println!("{}", serde_json::to_string(&*stats.lock().unwrap()).unwrap());
}

// ------------------------------------------------------------------------------------------
// C17: several handles on one directory

fn lcg(seed: &mut u64) -> u64 {
    *seed = seed.wrapping_mul(6364136223846793005).wrapping_add(1442695040888963407);
    *seed >> 33
}

/// The work of one handle: `iters` actions chosen by the seed; one JSON event per action.
async fn worker_run(dir: &Path, wid: u64, iters: u64, seed: u64, go: Option<PathBuf>) -> Vec<Value> {
    let sm = SM::new("ascii");
    let mut sm2 = SM::new("ascii");
    let mut ev = vec![];
    let storage = match open_sqlite(dir, false, false).await {
        Ok(s) => s,
        Err(e) => {
            ev.push(json!({"w":wid,"seq":0,"a":"open","ok":false,"err":e}));
            return ev;
        }
    };
    let mut rep = Replica::new(storage);
    let mut reader = match open_sqlite(dir, false, false).await {
        Ok(s) => s,
        Err(e) => {
            ev.push(json!({"w":wid,"seq":0,"a":"open","ok":false,"err":e}));
            return ev;
        }
    };
    let mut rng = seed.wrapping_mul(1000003).wrapping_add(wid * 7919 + 1);
    // all handles are opened first; the work starts when the starting file appears
    if let Some(go) = go {
        let t0 = std::time::Instant::now();
        while !go.exists() && t0.elapsed().as_secs() < 20 {
            std::thread::sleep(std::time::Duration::from_micros(200));
        }
    }
    for j in 1..=iters {
        let x = lcg(&mut rng) % 100;
        if x < 55 {
            let u = format!("u{}", wid * 100 + j);
            let opsj = json!([
                {"k":"P","u":"-","p":"-","v":"-","t":0,"o":[]},
                {"k":"C","u":u,"p":"-","v":"-","t":0,"o":[]},
                {"k":"U","u":u,"p":"status","v":"pending","t":1,"o":[]},
                {"k":"U","u":u,"p":"tag","v":format!("w{wid}b{j}"),"t":1,"o":[]},
            ]);
            let ops: Vec<Operation> = opsj.as_array().unwrap().iter().map(|o| sm2.op_from_json(o)).collect();
            let r = rep.commit_operations(ops).await;
            ev.push(json!({"w":wid,"seq":j,"a":"commit","ops":opsj,"ok":r.is_ok(),
                           "err":r.err().map(|e| format!("{e:#}")).unwrap_or_default()}));
        } else if x < 72 {
            match rep.get_undo_operations().await {
                Ok(ops) => {
                    let oj = sm.ops_to_json(&ops);
                    let r = rep.commit_reversed_operations(ops).await;
                    match r {
                        Ok(b) => ev.push(json!({"w":wid,"seq":j,"a":"undo","ops":oj,"ok":true,"res":b})),
                        Err(e) => ev.push(json!({"w":wid,"seq":j,"a":"undo","ops":oj,"ok":false,"err":format!("{e:#}")})),
                    }
                }
                Err(e) => ev.push(json!({"w":wid,"seq":j,"a":"fetch","ok":false,"err":format!("{e:#}")})),
            }
        } else if x < 85 {
            let rn = x >= 80;
            let r = rep.rebuild_working_set(rn).await;
            ev.push(json!({"w":wid,"seq":j,"a":"rebuild","rn":rn,"ok":r.is_ok(),
                           "err":r.err().map(|e| format!("{e:#}")).unwrap_or_default()}));
        } else {
            let t = rep.all_task_data().await.map(|t| t.len());
            let w = rep.working_set().await.map(|w| w.len());
            // ... and everything at once, in one transaction of a second handle of this worker
            let snap = match reader.txn().await {
                Ok(mut txn) => read_state(txn.as_mut()).await.ok(),
                Err(_) => None,
            };
            let mut e = json!({"w":wid,"seq":j,"a":"read","ok":t.is_ok() && w.is_ok() && snap.is_some(),
                           "ntasks":t.ok().map(|n| n as i64).unwrap_or(-1),
                           "nws":w.ok().map(|n| n as i64).unwrap_or(-1)});
            if let Some(st) = snap {
                e["snap"] = state_json(&sm, &[], &st);
            }
            ev.push(e);
        }
    }
    drop(rep);
    ev
}

fn worker_main(args: &[String]) {
    let dir = PathBuf::from(arg(args, "--dir").expect("--dir"));
    let wid: u64 = arg(args, "--wid").and_then(|x| x.parse().ok()).unwrap_or(1);
    let iters: u64 = arg(args, "--iters").and_then(|x| x.parse().ok()).unwrap_or(5);
    let seed: u64 = arg(args, "--seed").and_then(|x| x.parse().ok()).unwrap_or(1);
    let go = arg(args, "--go").map(PathBuf::from);
    let ev = local_block_on(worker_run(&dir, wid, iters, seed, go));
    let mut o = std::io::stdout().lock();
    for e in ev {
        writeln!(o, "{}", serde_json::to_string(&e).unwrap()).unwrap();
    }
}

/// `sqlite-concurrent --dir D --out trace --runs R --workers W --iters M --mode threads|procs|mixed`
fn concurrent_main(args: &[String]) {
    let out = arg(args, "--out").expect("--out");
    let dir = PathBuf::from(arg(args, "--dir").expect("--dir"));
    let runs: u64 = arg(args, "--runs").and_then(|x| x.parse().ok()).unwrap_or(10);
    let iters: u64 = arg(args, "--iters").and_then(|x| x.parse().ok()).unwrap_or(5);
    let seed0: u64 = arg(args, "--seed").and_then(|x| x.parse().ok()).unwrap_or(1);
    let wmin: u64 = arg(args, "--wmin").and_then(|x| x.parse().ok()).unwrap_or(2);
    let wmax: u64 = arg(args, "--wmax").and_then(|x| x.parse().ok()).unwrap_or(8);
    let mode = arg(args, "--mode").unwrap_or_else(|| "mixed".to_string());
    let mut o = std::io::BufWriter::new(std::fs::File::create(&out).unwrap());
    // runs that are not audited (an undo returned an error), with the error texts
    let mut oi = std::io::BufWriter::new(std::fs::File::create(format!("{out}.inconclusive")).unwrap());
    let sm = SM::new("ascii");
    let mut stats: HashMap<String, u64> = HashMap::new();
    let mut rng = seed0;
    for run in 0..runs {
        let d = dir.join(format!("run{run}"));
        let _ = std::fs::remove_dir_all(&d);
        // schema creation is not isolated by transactions: the directory is initialised once
        local_block_on(async {
            let s = open_sqlite(&d, false, true).await.expect("create");
            drop(s);
        });
        let w = wmin + lcg(&mut rng) % (wmax - wmin + 1);
        let seed = lcg(&mut rng);
        let go = dir.join(format!("go{run}"));
        let _ = std::fs::remove_file(&go);
        let mut threads = vec![];
        let mut procs = vec![];
        for wid in 1..=w {
            let as_proc = match mode.as_str() {
                "threads" => false,
                "procs" => true,
                _ => wid % 2 == 0,
            };
            if as_proc {
                let exe = self_exe();
                let child = std::process::Command::new(exe)
                    .arg("sqlite-worker").arg("--dir").arg(&d)
                    .arg("--wid").arg(wid.to_string())
                    .arg("--iters").arg(iters.to_string())
                    .arg("--seed").arg(seed.to_string())
                    .arg("--go").arg(&go)
                    .stdin(std::process::Stdio::null())
                    .stdout(std::process::Stdio::piped())
                    .stderr(std::process::Stdio::null())
                    .spawn()
                    .expect("spawn worker");
                procs.push(child);
            } else {
                let d2 = d.clone();
                let g2 = go.clone();
                threads.push(std::thread::spawn(move || {
                    local_block_on(worker_run(&d2, wid, iters, seed, Some(g2)))
                }));
            }
        }
        std::thread::sleep(std::time::Duration::from_millis(if procs.is_empty() { 3 } else { 25 }));
        std::fs::write(&go, b"go").unwrap();
        let mut events: Vec<Value> = vec![];
        for t in threads {
            events.extend(t.join().expect("worker thread"));
        }
        for p in procs {
            let outp = p.wait_with_output().expect("worker process");
            for line in String::from_utf8_lossy(&outp.stdout).lines() {
                if let Ok(v) = serde_json::from_str::<Value>(line) {
                    events.push(v);
                }
            }
        }
        // ---- audit through a fresh handle
        let (dbj, finalj) = local_block_on(async {
            let s = read_dir_state(&d).await.expect("audit read");
            let st = open_sqlite(&d, false, false).await.expect("audit open");
            let mut rep = Replica::new(st);
            rep.rebuild_working_set(false).await.expect("audit rebuild");
            drop(rep);
            let f = read_dir_state(&d).await.expect("audit read 2");
            (state_json(&sm, &[], &s), state_json(&sm, &[], &f))
        });
        let mut commits = vec![];
        let mut undone = vec![];
        let mut snaps = vec![];
        let mut inconclusive = false;
        for e in &events {
            match e["a"].as_str().unwrap_or("") {
                "commit" => {
                    commits.push(json!({"w":e["w"],"seq":e["seq"],"ops":e["ops"],"ok":e["ok"]}));
                    *stats.entry(if e["ok"] == json!(true) { "commits_ok" } else { "commits_failed" }.into()).or_insert(0) += 1;
                }
                "undo" => {
                    if e["ok"] == json!(true) {
                        if e["res"] == json!(true) {
                            undone.push(e["ops"].clone());
                            *stats.entry("undos_applied".into()).or_insert(0) += 1;
                        } else {
                            *stats.entry("undos_refused".into()).or_insert(0) += 1;
                        }
                    } else {
                        // the undo may or may not have been committed before the error
                        inconclusive = true;
                    }
                }
                "rebuild" | "read" => {
                    if let Some(sn) = e.get("snap") {
                        snaps.push(sn.clone());
                        *stats.entry("snapshots".into()).or_insert(0) += 1;
                    }
                    *stats.entry(format!("{}s", e["a"].as_str().unwrap())).or_insert(0) += 1;
                    if e["ok"] != json!(true) {
                        *stats.entry("failed_reads_or_rebuilds".into()).or_insert(0) += 1;
                    }
                }
                "open" | "fetch" => {
                    *stats.entry("failed_open_or_fetch".into()).or_insert(0) += 1;
                }
                _ => {}
            }
        }
        *stats.entry(format!("runs_with_{w}_handles")).or_insert(0) += 1;
        if inconclusive {
            *stats.entry("inconclusive_runs".into()).or_insert(0) += 1;
            let errs: Vec<Value> = events
                .iter()
                .filter(|e| e["a"] == json!("undo") && e["ok"] != json!(true))
                .map(|e| e["err"].clone())
                .collect();
            writeln!(oi, "{}", json!({"a":"Inconclusive","id":run,"workers":w,"mode":mode,"seed":seed,
                                      "undo_errors":errs,"events":events})).unwrap();
        } else {
            writeln!(o, "{}", json!({"a":"Reset","id":run,"workers":w,"mode":mode,"seed":seed})).unwrap();
            // (the snapshots are listed separately; the event log keeps the rest)
            let events: Vec<Value> = events
                .into_iter()
                .map(|mut e| {
                    if let Some(o) = e.as_object_mut() {
                        o.remove("snap");
                    }
                    e
                })
                .collect();
            writeln!(o, "{}", json!({"a":"Audit","db":dbj,"final":finalj,"commits":commits,
                                     "undone":undone,"snaps":snaps,"events":events})).unwrap();
            *stats.entry("runs_audited".into()).or_insert(0) += 1;
        }
        let _ = std::fs::remove_dir_all(&d);
        let _ = std::fs::remove_file(&go);
    }
    println!("{}", serde_json::to_string(&stats).unwrap());
}
