//! Runs sequences of `Server`-trait calls against every provided backend (local SQLite, git
//! local-only, git with a shared bare remote, object store over the in-memory service, HTTP
//! client against a protocol-conformant server in this harness) and records an API-level trace
//! for TraceChain.tla.  Faults inside a backend's add_version are injected through the hooks.
use async_trait::async_trait;
use serde_json::{json, Value};
use std::collections::HashMap;
use std::io::{BufRead, BufReader, Read, Write};
use std::net::{TcpListener, TcpStream};
use std::path::{Path, PathBuf};
use std::sync::{Arc, Mutex};
use taskchampion::server::verif::{cloud_server, init_store, Fault, Gate, SharedStore};
use taskchampion::server::{AddVersionResult, GetVersionResult, Server, ServerConfig};
use taskchampion::storage::inmemory::InMemoryStorage;
use taskchampion::{Operation, Replica, Uuid};

const SECRET: &[u8] = b"verif-secret";

// ------------------------------------------------------------------------------------------
// object store: a gate that never blocks; faults by request counter

#[derive(Default)]
pub struct CloudFaults {
    /// (request index counted from arming, fault)
    pub at: Option<(usize, Fault)>,
    pub count: usize,
    pub log: Vec<String>,
}

struct PassGate {
    faults: Arc<Mutex<CloudFaults>>,
}

#[async_trait]
impl Gate for PassGate {
    async fn request(&mut self, _client: usize, req: Value) -> Fault {
        let mut f = self.faults.lock().unwrap();
        f.count += 1;
        f.log.push(format!(
            "{} {}",
            req["op"].as_str().unwrap_or("?"),
            req.get("name").or(req.get("prefix")).and_then(|x| x.as_str()).unwrap_or("")
        ));
        if let Some((k, fault)) = f.at {
            if f.count == k {
                f.at = None;
                return fault;
            }
        }
        Fault::None
    }
    fn reply(&mut self, _client: usize, _res: Value) {}
}

// ------------------------------------------------------------------------------------------
// a protocol-conformant HTTP sync server (docs/src/http.md) for the HTTP client

#[derive(Default)]
struct HttpState {
    versions: Vec<(Uuid, Uuid, Vec<u8>)>, // parent, id, body
    snapshot: Option<(Uuid, Vec<u8>)>,
    /// fail the n-th request from now: (n, after_effect)
    fail_at: Option<(usize, bool)>,
    /// the injected failure is a connection closed without any response (a reply that is really
    /// lost) instead of a 500 response
    drop_conn: bool,
    count: usize,
}

fn http_respond(stream: &mut TcpStream, status: &str, headers: &[(String, String)], body: &[u8]) {
    let mut out = format!("HTTP/1.1 {status}\r\nConnection: close\r\nContent-Length: {}\r\n", body.len());
    for (k, v) in headers {
        out.push_str(&format!("{k}: {v}\r\n"));
    }
    out.push_str("\r\n");
    let _ = stream.write_all(out.as_bytes());
    let _ = stream.write_all(body);
    let _ = stream.flush();
}

fn http_handle(mut stream: TcpStream, state: Arc<Mutex<HttpState>>) {
    let mut reader = BufReader::new(stream.try_clone().unwrap());
    let mut line = String::new();
    if reader.read_line(&mut line).is_err() {
        return;
    }
    let parts: Vec<String> = line.split_whitespace().map(|s| s.to_string()).collect();
    if parts.len() < 2 {
        return;
    }
    let (method, path) = (parts[0].clone(), parts[1].clone());
    let mut headers: HashMap<String, String> = HashMap::new();
    loop {
        let mut h = String::new();
        if reader.read_line(&mut h).is_err() || h == "\r\n" || h == "\n" || h.is_empty() {
            break;
        }
        if let Some((k, v)) = h.split_once(':') {
            headers.insert(k.trim().to_lowercase(), v.trim().to_string());
        }
    }
    let len: usize = headers.get("content-length").and_then(|v| v.parse().ok()).unwrap_or(0);
    let mut body = vec![0u8; len];
    if len > 0 && reader.read_exact(&mut body).is_err() {
        return;
    }
    let mut st = state.lock().unwrap();
    st.count += 1;
    let mut fail_after = false;
    if let Some((n, after)) = st.fail_at {
        if st.count == n {
            st.fail_at = None;
            if !after {
                if !st.drop_conn {
                    http_respond(&mut stream, "500 Internal Server Error", &[], b"injected");
                }
                return;
            }
            fail_after = true;
        }
    }
    let seg = "application/vnd.taskchampion.history-segment".to_string();
    let snapct = "application/vnd.taskchampion.snapshot".to_string();
    let last = path.rsplit('/').next().unwrap_or("").to_string();
    let (status, hdrs, rbody): (String, Vec<(String, String)>, Vec<u8>) =
        if method == "POST" && path.contains("/v1/client/add-version/") {
            match Uuid::parse_str(&last) {
                Err(_) => ("400 Bad Request".into(), vec![], vec![]),
                Ok(parent) => {
                    let latest = st.versions.last().map(|v| v.1);
                    if headers.get("content-type") != Some(&seg) {
                        ("400 Bad Request".into(), vec![], vec![])
                    } else if latest.is_some() && latest != Some(parent) {
                        (
                            "409 Conflict".into(),
                            vec![("X-Parent-Version-Id".into(), latest.unwrap().to_string())],
                            vec![],
                        )
                    } else {
                        let id = Uuid::new_v4();
                        st.versions.push((parent, id, body));
                        ("200 OK".into(), vec![("X-Version-Id".into(), id.to_string())], vec![])
                    }
                }
            }
        } else if method == "GET" && path.contains("/v1/client/get-child-version/") {
            match Uuid::parse_str(&last) {
                Err(_) => ("400 Bad Request".into(), vec![], vec![]),
                Ok(parent) => match st.versions.iter().find(|v| v.0 == parent) {
                    Some(v) => (
                        "200 OK".into(),
                        vec![
                            ("Content-Type".into(), seg.clone()),
                            ("X-Version-Id".into(), v.1.to_string()),
                            ("X-Parent-Version-Id".into(), v.0.to_string()),
                        ],
                        v.2.clone(),
                    ),
                    None => ("404 Not Found".into(), vec![], vec![]),
                },
            }
        } else if method == "POST" && path.contains("/v1/client/add-snapshot/") {
            match Uuid::parse_str(&last) {
                Err(_) => ("400 Bad Request".into(), vec![], vec![]),
                Ok(ver) => {
                    if headers.get("content-type") != Some(&snapct) {
                        ("400 Bad Request".into(), vec![], vec![])
                    } else if !st.versions.iter().any(|v| v.1 == ver) {
                        ("400 Bad Request".into(), vec![], vec![])
                    } else {
                        st.snapshot = Some((ver, body));
                        ("200 OK".into(), vec![], vec![])
                    }
                }
            }
        } else if method == "GET" && path.ends_with("/v1/client/snapshot") {
            match &st.snapshot {
                Some((v, b)) => (
                    "200 OK".into(),
                    vec![
                        ("Content-Type".into(), snapct.clone()),
                        ("X-Version-Id".into(), v.to_string()),
                    ],
                    b.clone(),
                ),
                None => ("404 Not Found".into(), vec![], vec![]),
            }
        } else {
            ("404 Not Found".into(), vec![], vec![])
        };
    let drop_conn = st.drop_conn;
    drop(st);
    if fail_after && drop_conn {
        // the request was carried out; the connection is closed without a response
        let _ = stream.shutdown(std::net::Shutdown::Both);
    } else if fail_after {
        http_respond(&mut stream, "500 Internal Server Error", &[], b"injected after effect");
    } else {
        http_respond(&mut stream, &status, &hdrs, &rbody);
    }
}

fn http_server() -> (String, Arc<Mutex<HttpState>>) {
    let listener = TcpListener::bind("127.0.0.1:0").expect("bind");
    let port = listener.local_addr().unwrap().port();
    let state = Arc::new(Mutex::new(HttpState::default()));
    let st = state.clone();
    std::thread::spawn(move || {
        for s in listener.incoming().flatten() {
            let st = st.clone();
            std::thread::spawn(move || http_handle(s, st));
        }
    });
    (format!("http://127.0.0.1:{port}"), state)
}

// ------------------------------------------------------------------------------------------

enum Backend {
    Local { dir: PathBuf },
    GitLocal { dir: PathBuf, git: Option<PathBuf> },
    GitRemote { bare: PathBuf, root: PathBuf, git: Option<PathBuf> },
    Cloud { store: SharedStore, faults: Arc<Mutex<CloudFaults>> },
    Http { url: String, client_id: Uuid, state: Arc<Mutex<HttpState>> },
}

fn run_git(dir: &Path, args: &[&str]) {
    let st = std::process::Command::new("git")
        .current_dir(dir)
        .args(args)
        .env("GIT_CONFIG_GLOBAL", "/dev/null")
        .env("GIT_CONFIG_SYSTEM", "/dev/null")
        .stdout(std::process::Stdio::null())
        .stderr(std::process::Stdio::null())
        .status()
        .expect("git");
    assert!(st.success(), "git {args:?} failed");
}

impl Backend {
    fn new(kind: &str, dir: &Path, git: Option<PathBuf>) -> Backend {
        std::fs::create_dir_all(dir).unwrap();
        match kind {
            "local" => Backend::Local { dir: dir.join("local") },
            "git-local" => Backend::GitLocal { dir: dir.join("gitlocal"), git },
            "git-remote" => {
                let bare = dir.join("bare.git");
                std::fs::create_dir_all(&bare).unwrap();
                run_git(&bare, &["init", "--bare", "-b", "main"]);
                Backend::GitRemote { bare, root: dir.to_path_buf(), git }
            }
            "cloud" => Backend::Cloud {
                store: init_store(b"0123456789abcdef"),
                faults: Arc::new(Mutex::new(CloudFaults::default())),
            },
            "http" => {
                static HTTP: Mutex<Option<(String, Uuid, Arc<Mutex<HttpState>>)>> = Mutex::new(None);
                let mut g = HTTP.lock().unwrap();
                let (url, client_id, state) = g
                    .get_or_insert_with(|| {
                        let (url, state) = http_server();
                        (url, Uuid::new_v4(), state)
                    })
                    .clone();
                *state.lock().unwrap() = HttpState::default();
                Backend::Http { url, client_id, state }
            }
            other => panic!("unknown backend {other}"),
        }
    }

    async fn open(&self, handle: &str) -> Result<Box<dyn Server>, String> {
        let r = match self {
            Backend::Local { dir } => {
                std::fs::create_dir_all(dir).unwrap();
                ServerConfig::Local { server_dir: dir.clone() }.into_server().await
            }
            Backend::GitLocal { dir, git } => ServerConfig::Git {
                local_path: dir.clone(),
                branch: "main".into(),
                remote: None,
                local_only: true,
                encryption_secret: SECRET.to_vec(),
                git_path: git.clone(),
            }
            .into_server()
            .await,
            Backend::GitRemote { bare, root, git } => ServerConfig::Git {
                local_path: root.join(format!("clone-{handle}")),
                branch: "main".into(),
                remote: Some(bare.to_string_lossy().to_string()),
                local_only: false,
                encryption_secret: SECRET.to_vec(),
                git_path: git.clone(),
            }
            .into_server()
            .await,
            Backend::Cloud { store, faults } => cloud_server(
                store.clone(),
                Box::new(PassGate { faults: faults.clone() }),
                0,
                100_000,
                SECRET,
            ),
            Backend::Http { url, client_id, .. } => ServerConfig::Remote {
                url: url.clone(),
                client_id: *client_id,
                encryption_secret: SECRET.to_vec(),
            }
            .into_server()
            .await,
        };
        r.map_err(|e| format!("{e:#}"))
    }
}

thread_local! {
    /// HTTP client handles are stateless and expensive to create (key derivation): reuse them
    static HTTP_POOL: std::cell::RefCell<HashMap<String, Box<dyn Server>>> =
        std::cell::RefCell::new(HashMap::new());
}

struct Run {
    backend: Backend,
    handles: HashMap<String, Option<Box<dyn Server>>>,
    ids: Vec<Uuid>,                    // observed version ids, in order of first observation
    unknown: Vec<Uuid>,                // parents invented by the harness
    accepted: Vec<(Uuid, Uuid)>,       // (parent, id) of versions known accepted, in order
    bodies: Vec<(String, Vec<u8>)>,    // label -> bytes submitted
    lines: Vec<Value>,
    counter: usize,
    /// a fault has been armed and the next add_version is the call it is meant for
    armed: bool,
    /// git commits are currently backdated beyond the backend's retention age (gitwrap.sh)
    old: bool,
}

fn backdate_file() -> Option<PathBuf> {
    std::env::var("GITFAULT_CTL").ok().map(|c| PathBuf::from(format!("{c}.backdate")))
}

fn set_backdate(on: bool) {
    if let Some(f) = backdate_file() {
        if on {
            let now = std::time::SystemTime::now()
                .duration_since(std::time::UNIX_EPOCH)
                .unwrap()
                .as_secs();
            std::fs::write(&f, format!("{}", now - 400 * 24 * 3600)).unwrap();
        } else {
            let _ = std::fs::remove_file(&f);
        }
    }
}

fn body_bytes(class: &str, n: usize) -> Vec<u8> {
    let task = "7a5c0000-0000-0000-0000-000000000001";
    match class {
        "empty" => vec![],
        "bin" => {
            let mut v: Vec<u8> = (0u16..256).map(|b| b as u8).collect();
            v.extend_from_slice(format!("#{n}").as_bytes());
            v.extend((0u16..256).rev().map(|b| b as u8));
            v
        }
        "big" => {
            let mut s = String::with_capacity(1_300_000);
            while s.len() < 1_200_000 {
                s.push_str("0123456789abcdefghijklmnopqrstuvwxyz");
            }
            format!("{{\"operations\":[{{\"Update\":{{\"uuid\":\"{task}\",\"property\":\"big\",\"value\":\"{n}:{s}\",\"timestamp\":\"2021-10-11T12:47:07Z\"}}}}]}}").into_bytes()
        }
        "ops0" => b"{\"operations\":[]}".to_vec(),
        _ => format!("{{\"operations\":[{{\"Update\":{{\"uuid\":\"{task}\",\"property\":\"n\",\"value\":\"{n}\",\"timestamp\":\"2021-10-11T12:47:07Z\"}}}}]}}").into_bytes(),
    }
}

impl Run {
    fn id_of(&mut self, u: Uuid) -> i64 {
        if u.is_nil() {
            return 0;
        }
        if let Some(i) = self.unknown.iter().position(|x| *x == u) {
            return -1 - i as i64;
        }
        if let Some(i) = self.ids.iter().position(|x| *x == u) {
            return i as i64 + 1;
        }
        self.ids.push(u);
        self.ids.len() as i64
    }

    fn resolve(&mut self, choice: &str) -> Uuid {
        match choice {
            "latest" => self.accepted.last().map(|v| v.1).unwrap_or(Uuid::nil()),
            "prev" => self.accepted.last().map(|v| v.0).unwrap_or(Uuid::nil()),
            "first" => self.accepted.first().map(|v| v.1).unwrap_or(Uuid::nil()),
            "nil" => Uuid::nil(),
            _ => {
                let u = Uuid::new_v4();
                self.unknown.push(u);
                u
            }
        }
    }

    fn label_of(&self, bytes: &[u8]) -> String {
        self.bodies
            .iter()
            .rev()
            .find(|(_, b)| b == bytes)
            .map(|(l, _)| l.clone())
            .unwrap_or_else(|| format!("?corrupt({} bytes)", bytes.len()))
    }

    fn learn(&mut self, parent: Uuid, id: Uuid) {
        if !self.accepted.iter().any(|v| v.1 == id) {
            // keep `accepted` in chain order: insert after its parent if known
            self.accepted.push((parent, id));
        }
    }

    async fn handle(&mut self, h: &str) -> Option<Box<dyn Server>> {
        if !self.handles.contains_key(h) || self.handles[h].is_none() {
            if matches!(self.backend, Backend::Http { .. }) {
                if let Some(s) = HTTP_POOL.with(|p| p.borrow_mut().remove(h)) {
                    self.handles.insert(h.to_string(), Some(s));
                    return self.handles.get_mut(h).unwrap().take();
                }
            }
            match self.backend.open(h).await {
                Ok(s) => {
                    self.handles.insert(h.to_string(), Some(s));
                }
                Err(e) => {
                    let faulted = e.contains("injected") || self.armed;
                    self.lines.push(json!({"a":"OpenFailed","h":h,"msg":e,"faulted":faulted}));
                    return None;
                }
            }
        }
        self.handles.get_mut(h).unwrap().take()
    }

    async fn step(&mut self, s: &Value) {
        let a = s["a"].as_str().unwrap();
        let h = s["h"].as_str().unwrap_or("h1").to_string();
        match a {
            "Epoch" => {
                self.old = false;
                set_backdate(false);
                self.lines.push(json!({"a":"Epoch","old":false}));
            }
            "Reopen" => {
                if let Some(Some(srv)) = self.handles.remove(&h) {
                    if matches!(self.backend, Backend::Http { .. }) {
                        HTTP_POOL.with(|p| p.borrow_mut().insert(h.clone(), srv));
                    }
                }
                self.handles.insert(h.clone(), None);
                self.lines.push(json!({"a":"Reopen","h":h}));
            }
            "AV" => {
                let parent = self.resolve(s["p"].as_str().unwrap());
                self.counter += 1;
                let class = s["body"].as_str().unwrap_or("small");
                let label = format!("{class}#{}", self.counter);
                let bytes = body_bytes(class, self.counter);
                let label = if class == "empty" { "empty".to_string() } else if class == "ops0" { "ops0".to_string() } else { label };
                self.bodies.push((label.clone(), bytes.clone()));
                let Some(mut srv) = self.handle(&h).await else { return };
                let p = self.id_of(parent);
                let res = std::panic::AssertUnwindSafe(srv.add_version(parent, bytes));
                let res = futures_catch(res).await;
                self.handles.insert(h.clone(), Some(srv));
                let faulted = self.armed;
                // the git wrapper emulated a process stop during this call: the server object
                // is discarded afterwards whatever it answered, as a restart would
                let stopped = std::env::var("GITFAULT_CTL")
                    .map(|c| std::path::Path::new(&format!("{c}.dead")).exists())
                    .unwrap_or(false);
                if self.armed {
                    self.disarm();
                    self.armed = false;
                }
                if stopped {
                    self.handles.insert(h.clone(), None);
                }
                match res {
                    Ok(Ok((AddVersionResult::Ok(v), _))) => {
                        let n = self.id_of(v);
                        self.learn(parent, v);
                        self.lines.push(json!({"a":"AV","h":h,"parent":p,"body":label,"faulted":faulted,"res":"ok","ver":n,"old":self.old}));
                    }
                    Ok(Ok((AddVersionResult::ExpectedParentVersion(v), _))) => {
                        let n = self.id_of(v);
                        self.lines.push(json!({"a":"AV","h":h,"parent":p,"body":label,"faulted":faulted,"res":"expected","ver":n,"old":self.old}));
                    }
                    Ok(Err(e)) => {
                        self.lines.push(json!({"a":"AV","h":h,"parent":p,"body":label,"faulted":faulted,"res":"error","ver":0,"old":self.old,"msg":format!("{e:#}")}));
                        // the handle may hold stale cached state after a failure: a real client
                        // would be restarted
                        if s["reopen_after_error"].as_bool().unwrap_or(true) || stopped {
                            self.handles.insert(h.clone(), None);
                        }
                    }
                    Err(p2) => {
                        // an injected stop is a failed call after which the client is restarted;
                        // any other panic is a result no specification action produces
                        let r = if p2.contains("injected stop") { "error" } else { "panic" };
                        self.lines.push(json!({"a":"AV","h":h,"parent":p,"body":label,"faulted":faulted,"res":r,"ver":0,"old":self.old,"msg":p2}));
                        self.handles.insert(h.clone(), None);
                    }
                }
            }
            "GC" => {
                let parent = self.resolve(s["p"].as_str().unwrap());
                let Some(mut srv) = self.handle(&h).await else { return };
                let p = self.id_of(parent);
                let res = srv.get_child_version(parent).await;
                self.handles.insert(h.clone(), Some(srv));
                match res {
                    Ok(GetVersionResult::Version { version_id, parent_version_id, history_segment }) => {
                        let n = self.id_of(version_id);
                        self.learn(parent, version_id);
                        let label = self.label_of(&history_segment);
                        self.lines.push(json!({"a":"GC","h":h,"parent":p,"res":"version","ver":n,
                            "body":label,"parent_ok":parent_version_id == parent}));
                    }
                    Ok(GetVersionResult::NoSuchVersion) => {
                        self.lines.push(json!({"a":"GC","h":h,"parent":p,"res":"none","ver":0,"body":"-","parent_ok":true}));
                    }
                    Err(e) => {
                        self.lines.push(json!({"a":"GC","h":h,"parent":p,"res":"error","ver":0,"body":"-","parent_ok":true,"msg":format!("{e:#}"),
                            "faulted":format!("{e:#}").contains("injected")}));
                        self.handles.insert(h.clone(), None);
                    }
                }
            }
            "AS" => {
                let ver = self.resolve(s["p"].as_str().unwrap());
                if ver.is_nil() {
                    return;
                }
                self.counter += 1;
                let class = s["body"].as_str().unwrap_or("small");
                let label = if class == "empty" || class == "ops0" {
                    class.to_string()
                } else {
                    format!("snap#{}", self.counter)
                };
                let bytes = body_bytes(class, self.counter);
                self.bodies.push((label.clone(), bytes.clone()));
                let Some(mut srv) = self.handle(&h).await else { return };
                let v = self.id_of(ver);
                let res = futures_catch(std::panic::AssertUnwindSafe(srv.add_snapshot(ver, bytes))).await;
                self.handles.insert(h.clone(), Some(srv));
                let r = match res {
                    Ok(Ok(())) => "ok".to_string(),
                    Ok(Err(_)) => {
                        self.handles.insert(h.clone(), None);
                        "error".to_string()
                    }
                    Err(_) => {
                        self.handles.insert(h.clone(), None);
                        "panic".to_string()
                    }
                };
                self.lines.push(json!({"a":"AS","h":h,"ver":v,"body":label,"res":r}));
            }
            "GS" => {
                let Some(mut srv) = self.handle(&h).await else { return };
                let res = srv.get_snapshot().await;
                self.handles.insert(h.clone(), Some(srv));
                match res {
                    Ok(Some((v, b))) => {
                        let n = self.id_of(v);
                        let label = self.label_of(&b);
                        self.lines.push(json!({"a":"GS","h":h,"res":"snapshot","ver":n,"body":label}));
                    }
                    Ok(None) => self.lines.push(json!({"a":"GS","h":h,"res":"nosnap","ver":0,"body":"-"})),
                    Err(e) => {
                        self.lines.push(json!({"a":"GS","h":h,"res":"error","ver":0,"body":"-","msg":format!("{e:#}"),
                            "faulted":format!("{e:#}").contains("injected")}));
                        self.handles.insert(h.clone(), None);
                    }
                }
            }
            "Fault" => {
                self.arm_fault(s);
                self.armed = true;
            }
            other => panic!("unknown step {other}"),
        }
    }

    fn arm_fault(&mut self, s: &Value) {
        let at = s["at"].as_u64().unwrap_or(1) as usize;
        let after = s["after"].as_bool().unwrap_or(false);
        match &self.backend {
            Backend::Cloud { faults, .. } => {
                let mut f = faults.lock().unwrap();
                f.count = 0;
                f.at = Some((at, if after { Fault::FailAfter } else { Fault::FailBefore }));
            }
            Backend::Http { state, .. } => {
                let mut st = state.lock().unwrap();
                st.count = 0;
                st.fail_at = Some((at, after));
                st.drop_conn = s["drop"].as_bool().unwrap_or(false);
            }
            Backend::Local { .. } => {
                taskchampion::server::verif::set_failpoint(
                    s["point"].as_str().unwrap_or("local.add_version.between"),
                    if s["kind"].as_str() == Some("stop") { 2 } else { 1 },
                );
            }
            Backend::GitLocal { .. } | Backend::GitRemote { .. } => {
                // the git wrapper script (gitwrap.sh) reads its instructions from $GITFAULT_CTL
                if let Some(cmd) = s["cmd"].as_str() {
                    let ctl = std::env::var("GITFAULT_CTL").expect("GITFAULT_CTL");
                    let stop = s["kind"].as_str() == Some("stop");
                    let when = match (stop, after) {
                        (false, false) => "before",
                        (false, true) => "after",
                        (true, false) => "stop",
                        (true, true) => "stopafter",
                    };
                    let mut rules = format!("{} {} {}\n", cmd, at, when);
                    // further commands failing in the same call (e.g. the remote is unreachable)
                    if let Some(more) = s["also"].as_array() {
                        for m in more {
                            rules.push_str(&format!(
                                "{} {} {}\n",
                                m["cmd"].as_str().unwrap(),
                                m["at"].as_u64().unwrap_or(1),
                                if m["after"].as_bool().unwrap_or(false) { "after" } else { "before" }
                            ));
                        }
                    }
                    std::fs::write(&ctl, rules).unwrap();
                }
                if let Some(p) = s["point"].as_str() {
                    taskchampion::server::verif::set_failpoint(
                        p,
                        if s["kind"].as_str() == Some("stop") { 2 } else { 1 },
                    );
                }
            }
        }
    }

    /// remove a fault that was armed but not consumed by the call it was meant for
    fn disarm(&mut self) {
        match &self.backend {
            Backend::Cloud { faults, .. } => faults.lock().unwrap().at = None,
            Backend::Http { state, .. } => state.lock().unwrap().fail_at = None,
            _ => {}
        }
        if let Ok(ctl) = std::env::var("GITFAULT_CTL") {
            let _ = std::fs::remove_file(&ctl);
            let _ = std::fs::remove_file(format!("{ctl}.dead"));
            if let Some(dir) = std::path::Path::new(&ctl).parent() {
                if let Ok(rd) = std::fs::read_dir(dir) {
                    for e in rd.flatten() {
                        if e.file_name().to_string_lossy().starts_with("gitfault.ctl.count") {
                            let _ = std::fs::remove_file(e.path());
                        }
                    }
                }
            }
        }
        for p in ["local.add_version.between", "git.add_version.after_version_file",
                  "git.add_version.after_meta"] {
            taskchampion::server::verif::set_failpoint(p, 0);
        }
    }

    /// replicas syncing through the backend: everybody must succeed and agree
    async fn converge(&mut self) {
        let mut ok = true;
        let mut msgs = vec![];
        let mut reps = vec![];
        for i in 0..2 {
            let h = format!("conv{i}");
            match self.backend.open(&h).await {
                Ok(s) => reps.push((Replica::new(InMemoryStorage::new()), s)),
                Err(e) => {
                    ok = false;
                    msgs.push(format!("open: {e}"));
                }
            }
        }
        if reps.len() == 2 {
            let u = Uuid::new_v4();
            let r0 = reps[0].0.commit_operations(vec![
                Operation::Create { uuid: u },
                Operation::Update {
                    uuid: u,
                    property: "description".into(),
                    value: Some("after the fault".into()),
                    old_value: None,
                    timestamp: chrono::Utc::now(),
                },
            ]);
            r0.await.unwrap();
            for round in 0..3 {
                for (i, (rep, srv)) in reps.iter_mut().enumerate() {
                    if let Err(e) = rep.sync(srv, false).await {
                        ok = false;
                        msgs.push(format!("round {round} replica {i}: {e:#}"));
                    }
                }
            }
            let a = reps[0].0.all_task_data().await.unwrap();
            let b = reps[1].0.all_task_data().await.unwrap();
            let norm = |m: &HashMap<Uuid, taskchampion::TaskData>| {
                let mut v: Vec<(Uuid, Vec<(String, String)>)> = m
                    .iter()
                    .map(|(u, t)| {
                        let mut kv: Vec<(String, String)> =
                            t.iter().map(|(k, v)| (k.clone(), v.clone())).collect();
                        kv.sort();
                        (*u, kv)
                    })
                    .collect();
                v.sort();
                v
            };
            if norm(&a) != norm(&b) {
                ok = false;
                msgs.push("replicas hold different tasks".into());
            }
            if !a.contains_key(&u) {
                ok = false;
                msgs.push("the task created after the fault is missing".into());
            }
        }
        self.lines.push(json!({"a":"Converge","ok":ok,"msgs":msgs}));
    }
}

/// await a future, turning a panic inside it into Err(message)
pub(crate) async fn futures_catch<F: std::future::Future + std::panic::UnwindSafe>(f: F) -> Result<F::Output, String> {
    use std::future::Future;
    use std::pin::Pin;
    use std::task::{Context, Poll};
    struct Catch<F>(Pin<Box<F>>);
    impl<F: Future> Future for Catch<F> {
        type Output = Result<F::Output, String>;
        fn poll(mut self: Pin<&mut Self>, cx: &mut Context<'_>) -> Poll<Self::Output> {
            let inner = &mut self.0;
            match std::panic::catch_unwind(std::panic::AssertUnwindSafe(|| inner.as_mut().poll(cx))) {
                Ok(Poll::Ready(v)) => Poll::Ready(Ok(v)),
                Ok(Poll::Pending) => Poll::Pending,
                Err(e) => {
                    let msg = e
                        .downcast_ref::<String>()
                        .cloned()
                        .or_else(|| e.downcast_ref::<&str>().map(|s| s.to_string()))
                        .unwrap_or_else(|| "panic".into());
                    Poll::Ready(Err(msg))
                }
            }
        }
    }
    Catch(Box::pin(f)).await
}

async fn run_behaviour(b: &Value, dir: &Path, git: Option<PathBuf>) -> Vec<Value> {
    let kind = b["backend"].as_str().unwrap();
    let _ = std::fs::remove_dir_all(dir);
    let backend = Backend::new(kind, dir, git);
    let mut run = Run {
        backend,
        handles: HashMap::new(),
        ids: vec![],
        unknown: vec![],
        accepted: vec![],
        bodies: vec![],
        lines: vec![json!({"a":"Reset","id":b["id"].clone(),"backend":kind})],
        counter: 0,
        armed: false,
        old: false,
    };
    set_backdate(false);
    if b["old_epoch"].as_bool().unwrap_or(false) {
        run.old = true;
        set_backdate(true);
        run.lines.push(json!({"a":"Epoch","old":true}));
    }
    for s in b["steps"].as_array().unwrap() {
        run.step(s).await;
    }
    // afterwards: walk the chain from nil, then try to add on top of the latest known version
    if b["walk"].as_bool().unwrap_or(true) {
        let mut parent = run.accepted.first().map(|v| v.0).unwrap_or(Uuid::nil());
        for _ in 0..(run.accepted.len() + 3) {
            let Some(mut srv) = run.handle("walker").await else { break };
            let p = run.id_of(parent);
            let res = srv.get_child_version(parent).await;
            run.handles.insert("walker".into(), Some(srv));
            match res {
                Ok(GetVersionResult::Version { version_id, parent_version_id, history_segment }) => {
                    let n = run.id_of(version_id);
                    run.learn(parent, version_id);
                    let label = run.label_of(&history_segment);
                    run.lines.push(json!({"a":"GC","h":"walker","parent":p,"res":"version","ver":n,
                        "body":label,"parent_ok":parent_version_id == parent}));
                    parent = version_id;
                }
                Ok(GetVersionResult::NoSuchVersion) => {
                    run.lines.push(json!({"a":"GC","h":"walker","parent":p,"res":"none","ver":0,"body":"-","parent_ok":true}));
                    // a backend that discards versions covered by its snapshot: go on from the
                    // child the harness knows was accepted
                    match run.accepted.iter().find(|v| v.0 == parent && !v.1.is_nil()) {
                        Some(v) if b["old_epoch"].as_bool().unwrap_or(false) => parent = v.1,
                        _ => break,
                    }
                }
                Err(e) => {
                    run.lines.push(json!({"a":"GC","h":"walker","parent":p,"res":"error","ver":0,"body":"-","parent_ok":true,"msg":format!("{e:#}"),
                        "faulted":format!("{e:#}").contains("injected")}));
                    break;
                }
            }
        }
    }
    if b["converge"].as_bool().unwrap_or(false) {
        run.converge().await;
    }
    if matches!(run.backend, Backend::Http { .. }) {
        for (k, v) in run.handles.drain() {
            if let Some(s) = v {
                if !k.starts_with("conv") {
                    HTTP_POOL.with(|p| p.borrow_mut().insert(k, s));
                }
            }
        }
    }
    drop(run.handles);
    set_backdate(false);
    let _ = std::fs::remove_dir_all(dir);
    run.lines
}

pub fn main(args: &[String]) {
    for v in ["HTTP_PROXY", "HTTPS_PROXY", "http_proxy", "https_proxy", "ALL_PROXY", "all_proxy"] {
        std::env::remove_var(v);
    }
    std::env::set_var("NO_PROXY", "127.0.0.1,localhost");
    std::env::set_var("GIT_CONFIG_GLOBAL", "/dev/null");
    std::env::set_var("GIT_CONFIG_SYSTEM", "/dev/null");
    let inp0 = crate::arg(args, "--dir").expect("--dir");
    std::fs::create_dir_all(&inp0).unwrap();
    std::env::set_var("GITFAULT_CTL", format!("{inp0}/gitfault.ctl"));
    // the scratch directory may itself lie inside a git work tree (/verif): keep git from
    // looking above it, or GitSyncServer takes the outer repository for its own
    let abs = std::fs::canonicalize(&inp0).unwrap();
    std::env::set_var("GIT_CEILING_DIRECTORIES", abs.to_string_lossy().to_string());
    let inp = crate::arg(args, "--in").expect("--in");
    let out = crate::arg(args, "--out").expect("--out");
    let dir = PathBuf::from(crate::arg(args, "--dir").expect("--dir"));
    let git = crate::arg(args, "--git").map(PathBuf::from);
    let f = std::io::BufReader::new(std::fs::File::open(inp).unwrap());
    let mut o = std::io::BufWriter::new(std::fs::File::create(out).unwrap());
    let mut n = 0usize;
    for line in f.lines() {
        let line = line.unwrap();
        if line.trim().is_empty() {
            continue;
        }
        let b: Value = serde_json::from_str(&line).expect("stimulus json");
        let d = dir.join(format!("b{n}"));
        let lines = crate::local_block_on(run_behaviour(&b, &d, git.clone()));
        for l in lines {
            writeln!(o, "{}", serde_json::to_string(&l).unwrap()).unwrap();
        }
        n += 1;
    }
    eprintln!("replayed {n} behaviours");
}
