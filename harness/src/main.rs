mod backenddrv;
mod chain;
mod clouddrv;
mod model;
mod sealdrv;
mod stordrv;
mod syncdrv;
mod tap;
mod taskdrv;

use serde_json::Value;
use std::io::{BufRead, Write};
use std::path::PathBuf;

pub fn arg(args: &[String], name: &str) -> Option<String> {
    args.iter()
        .position(|a| a == name)
        .and_then(|i| args.get(i + 1).cloned())
}

pub fn local_block_on<F: std::future::Future>(f: F) -> F::Output {
    let rt = tokio::runtime::Builder::new_current_thread()
        .enable_all()
        .build()
        .unwrap();
    let local = tokio::task::LocalSet::new();
    local.block_on(&rt, f)
}

fn main() {
    let args: Vec<String> = std::env::args().collect();
    let cmd = args.get(1).map(|s| s.as_str()).unwrap_or("");
    match cmd {
        "sync-replay" => {
            let inp = arg(&args, "--in").expect("--in");
            let out = arg(&args, "--out").expect("--out");
            let dir = arg(&args, "--dir").map(PathBuf::from);
            let f = std::io::BufReader::new(std::fs::File::open(inp).unwrap());
            let mut o = std::io::BufWriter::new(std::fs::File::create(out).unwrap());
            let mut n = 0usize;
            for line in f.lines() {
                let line = line.unwrap();
                if line.trim().is_empty() {
                    continue;
                }
                let b: Value = serde_json::from_str(&line).expect("stimulus json");
                let d = dir.as_ref().map(|d| d.join(format!("b{n}")));
                let lines = local_block_on(syncdrv::run_behaviour(&b, d.clone()));
                for l in lines {
                    writeln!(o, "{}", serde_json::to_string(&l).unwrap()).unwrap();
                }
                if let Some(d) = d {
                    let _ = std::fs::remove_dir_all(d);
                }
                n += 1;
            }
            eprintln!("replayed {n} behaviours");
        }
        "cloud-replay" => clouddrv::main(&args),
        "backend-replay" => backenddrv::main(&args),
        c if c.starts_with("task-") => taskdrv::main(&args),
        c if c.starts_with("storage-") || c.starts_with("sqlite-") => stordrv::main(&args),
        c if c.starts_with("seal-") => sealdrv::main(&args),
        _ => {
            eprintln!("usage: tcverif <sync-replay|task-*|storage-*|sqlite-*|seal-*> ...");
            std::process::exit(2);
        }
    }
}
