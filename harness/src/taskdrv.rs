//! (stub) filled in by the corresponding builder
pub fn main(_args: &[String]) {
    eprintln!("taskdrv: not implemented yet");
    std::process::exit(2);
}
