//! Task-model driver (C18, C19): binds spec/TaskModel.tla to src/task/*, Replica, WorkingSet and
//! DependencyMap through the public API only.
//!
//! * `task-read` / `task-mutate --in stimuli.ndjson --out trace.ndjson [--dir d]`: each input line
//!   is one behaviour `{id, kv, vv, canon, storage, steps:[..]}` over the specification's key and
//!   value TOKENS; `kv`/`vv` select which of the three concrete representatives of every key /
//!   value class is used.  Steps: `Install` (a task written through TaskData::create/update and
//!   committed), `Load` (get_task / create_task / get_task_data), `Mut` (one mutator call),
//!   `Commit`, `Read` (EVERY read accessor of Task, TaskData, WorkingSet, DependencyMap and
//!   Replica on the task reloaded from the replica, each under catch_unwind; a panic is the result
//!   token "panic"), `ReadObj` (the Task readers on the object in hand).
//! * `task-read --random N --seed S --out trace.ndjson`: tasks over seeded random keys and values;
//!   the class of every string is computed here with i128 arithmetic, independently of chrono.
//!
//! Every event carries the class map of the object / stored task, re-derived from the concrete
//! strings read back from the real code.
#![allow(deprecated)]
use crate::{arg, local_block_on};
use chrono::{DateTime, TimeZone, Utc};
use serde_json::{json, Value};
use std::collections::HashMap;
use std::future::Future;
use std::io::{BufRead, Write};
use std::panic::{catch_unwind, AssertUnwindSafe};
use std::path::PathBuf;
use std::pin::Pin;
use std::sync::Mutex;
use std::task::{Context, Poll};
use taskchampion::storage::inmemory::InMemoryStorage;
use taskchampion::storage::{AccessMode, Storage};
use taskchampion::{
    Annotation, Operation, Operations, Replica, SqliteStorage, Status, Tag, Task, TaskData, Uuid,
};

const NOVAL: &str = "~";
/// seconds of the last / first instant chrono's DateTime<Utc> can represent (+262142-12-31T23:59:59,
/// -262143-01-01T00:00:00), computed from the proleptic Gregorian calendar (tools: see c18.py)
const CAL_MAX: i128 = 8_210_266_876_799;
const CAL_MIN: i128 = -8_334_601_228_800;

static LAST_PANIC: Mutex<String> = Mutex::new(String::new());

fn tid(n: u128) -> Uuid {
    Uuid::from_u128(0x7a5c_0000_0000_0000_0000_0000_0000_0000u128 + n)
}

fn task_tok(u: Uuid) -> String {
    for n in [1u128, 2, 3, 4, 9] {
        if u == tid(n) {
            return format!("t{n}");
        }
    }
    format!("?{u}")
}

// ---------------------------------------------------------------------------------------------
// classes of strings, independent of chrono

#[derive(PartialEq, Debug, Clone, Copy)]
enum Int {
    No,
    Big,
    N(i128),
}

/// What `str::parse::<i64>` accepts, evaluated in i128: optional sign, then ASCII digits only.
fn parse_int(s: &str) -> Int {
    let b = s.as_bytes();
    let (neg, digits) = match b.first() {
        Some(b'+') => (false, &b[1..]),
        Some(b'-') => (true, &b[1..]),
        _ => (false, b),
    };
    if digits.is_empty() || !digits.iter().all(|c| c.is_ascii_digit()) {
        return Int::No;
    }
    let sig: Vec<u8> = digits.iter().copied().skip_while(|c| *c == b'0').collect();
    if sig.len() > 30 {
        return Int::Big;
    }
    let mut v: i128 = 0;
    for c in sig {
        v = v * 10 + (c - b'0') as i128;
    }
    Int::N(if neg { -v } else { v })
}

fn is_canonical_int(s: &str, v: i128) -> bool {
    s == v.to_string()
}

/// The value class of an arbitrary string (the tokens of TaskModel.tla).
fn classify_value(s: &str, lo: i64, hi: i64) -> &'static str {
    if s.is_empty() {
        return "empty";
    }
    match s {
        "pending" => return "pending",
        "completed" => return "completed",
        "deleted" => return "deleted",
        "recurring" => return "recurring",
        _ => {}
    }
    match parse_int(s) {
        Int::Big => "huge",
        Int::N(v) => {
            if v > i64::MAX as i128 || v < i64::MIN as i128 {
                "huge"
            } else if v > CAL_MAX {
                "far"
            } else if v < CAL_MIN {
                "negfar"
            } else if v >= lo as i128 && v <= hi as i128 {
                "now"
            } else if v > hi as i128 {
                "future"
            } else if v < 0 {
                "neg"
            } else if is_canonical_int(s, v) {
                "past"
            } else {
                "pastx"
            }
        }
        Int::No => {
            let signless = s.trim_start_matches(['+', '-']);
            if !signless.is_empty()
                && signless.chars().all(|c| c.is_numeric())
                && signless.chars().any(|c| !c.is_ascii())
            {
                "fw"
            } else {
                "nonnum"
            }
        }
    }
}

/// tag syntax of docs/src/tags.md, written out independently of src/task/tag.rs
fn user_tag_ok(t: &str) -> bool {
    let mut ch = t.chars();
    let Some(c0) = ch.next() else { return false };
    if t.chars().all(|c| c.is_ascii_uppercase()) {
        return false; // reserved for synthetic tags
    }
    if c0.is_whitespace() || c0.is_ascii_digit() || "+-*/()<>^!%=~".contains(c0) {
        return false;
    }
    ch.all(|c| !c.is_whitespace() && c != ':')
}

/// uuid syntaxes accepted by the uuid crate: simple, hyphenated, urn, braced
fn uuid_value(s: &str) -> Option<u128> {
    let s = if let Some(r) = s.strip_prefix("urn:uuid:") {
        if r.len() != 36 {
            return None;
        }
        r
    } else if s.starts_with('{') && s.ends_with('}') && s.len() == 38 {
        &s[1..37]
    } else {
        s
    };
    let hex: String = if s.len() == 36 {
        let b = s.as_bytes();
        if b[8] != b'-' || b[13] != b'-' || b[18] != b'-' || b[23] != b'-' {
            return None;
        }
        s.chars().filter(|c| *c != '-').collect()
    } else {
        s.to_string()
    };
    if hex.len() != 32 || !hex.chars().all(|c| c.is_ascii_hexdigit()) {
        return None;
    }
    u128::from_str_radix(&hex, 16).ok()
}

/// The key token of an arbitrary key (random mode).
fn classify_key(k: &str) -> String {
    const PROPS: [&str; 9] = [
        "status", "description", "modified", "start", "end", "priority", "wait", "entry", "due",
    ];
    if PROPS.contains(&k) {
        return k.to_string();
    }
    if let Some(t) = k.strip_prefix("tag_") {
        return if t.is_empty() {
            "tag:empty"
        } else if t == "WAITING" {
            "tag:synth"
        } else if ["ACTIVE", "PENDING", "COMPLETED", "DELETED", "BLOCKED", "UNBLOCKED", "BLOCKING"]
            .contains(&t)
        {
            "skip" // the model has one stored synthetic name (WAITING)
        } else if user_tag_ok(t) {
            "tag:valid"
        } else if t.chars().skip(1).any(|c| c.is_whitespace() || c == ':') {
            "tag:sep"
        } else {
            "tag:malformed"
        }
        .to_string();
    }
    if let Some(t) = k.strip_prefix("annotation_") {
        return match parse_int(t) {
            Int::Big => "ann:huge",
            Int::N(v) => {
                if v > i64::MAX as i128 || v < i64::MIN as i128 {
                    "ann:huge"
                } else if v > CAL_MAX {
                    "ann:far"
                } else if v < CAL_MIN {
                    "ann:negfar"
                } else if !is_canonical_int(t, v) {
                    "ann:plus"
                } else if v < 0 {
                    "ann:neg"
                } else {
                    "ann:valid"
                }
            }
            Int::No => {
                if t.is_empty() {
                    "ann:empty"
                } else if classify_value(t, 0, 0) == "fw" {
                    "ann:fw"
                } else {
                    "ann:nonnum"
                }
            }
        }
        .to_string();
    }
    if let Some(t) = k.strip_prefix("dep_") {
        return match uuid_value(t) {
            Some(v) if v == tid(2).as_u128() => "dep:t2",
            Some(v) if v == tid(3).as_u128() => "dep:t3",
            Some(v) if v == tid(1).as_u128() => "dep:self",
            Some(_) => "dep:missing",
            None if t.is_empty() => "dep:empty",
            None => "dep:malformed",
        }
        .to_string();
    }
    if k.is_empty() {
        "uda:empty".into()
    } else if k.contains('.') {
        "uda:ns".into()
    } else {
        "uda:plain".into()
    }
}

// ---------------------------------------------------------------------------------------------
// concrete representatives of the tokens

const KEY_TOKENS: [&str; 38] = [
    "status", "description", "modified", "start", "end", "priority", "wait", "entry", "due",
    "tag:valid", "tag:valid2", "tag:synth", "tag:empty", "tag:malformed", "tag:sep",
    "ann:valid", "ann:valid2", "ann:neg", "ann:plus", "ann:empty", "ann:nonnum", "ann:far",
    "ann:huge", "ann:negfar", "ann:fw", "ann:sep",
    "dep:t2", "dep:t2alt", "dep:t3", "dep:self", "dep:missing", "dep:empty", "dep:malformed", "dep:sep",
    "uda:plain", "uda:ns", "uda:near", "uda:empty",
];
const VAL_TOKENS: [&str; 21] = [
    "empty", "nonnum", "past", "past2", "pastx", "neg", "future", "future2", "far", "huge",
    "negfar", "fw", "pending", "completed", "deleted", "recurring", "unknown", "text", "text2",
    "now", "~",
];

fn s3(a: &str, b: &str, c: &str) -> [String; 3] {
    [a.to_string(), b.to_string(), c.to_string()]
}

fn dep_reps(u: Uuid) -> [String; 3] {
    [
        format!("dep_{}", u.hyphenated()),
        format!("dep_{}", u.hyphenated().to_string().to_uppercase()),
        format!("dep_{}", u.simple()),
    ]
}

fn key_reps(tok: &str) -> [String; 3] {
    let t2 = tid(2).hyphenated().to_string();
    match tok {
        "tag:valid" => s3("tag_ok", "tag_\u{1f980}x", "tag_:abc"),
        "tag:valid2" => s3("tag_next", "tag_a123_456", "tag_z"),
        "tag:synth" => s3("tag_WAITING", "tag_WAITING", "tag_WAITING"),
        "tag:empty" => s3("tag_", "tag_", "tag_"),
        "tag:malformed" => s3("tag_999", "tag_+x", "tag_NOSUCH"),
        "tag:sep" => s3("tag_a:b", "tag_a b", "tag_a\tb"),
        "ann:valid" => s3("annotation_1693329505", "annotation_0", "annotation_2000000000"),
        "ann:valid2" => s3("annotation_1693329506", "annotation_1", "annotation_8210266876799"),
        "ann:neg" => s3("annotation_-1", "annotation_-62167219201", "annotation_-8334601228800"),
        "ann:plus" => s3("annotation_+7", "annotation_007", "annotation_-0"),
        "ann:empty" => s3("annotation_", "annotation_", "annotation_"),
        "ann:nonnum" => s3("annotation_abc", "annotation_12x", "annotation_ 12"),
        "ann:far" => s3(
            "annotation_8210266876800",
            "annotation_8210298412800",
            "annotation_9223372036854775807",
        ),
        "ann:huge" => s3(
            "annotation_9223372036854775808",
            "annotation_99999999999999999999999999",
            "annotation_-9223372036854775809",
        ),
        "ann:negfar" => s3(
            "annotation_-8334601228801",
            "annotation_-8334632937600",
            "annotation_-9223372036854775808",
        ),
        "ann:fw" => s3(
            "annotation_\u{ff11}\u{ff12}\u{ff13}",
            "annotation_\u{661}\u{662}\u{663}",
            "annotation_1\u{ff12}3",
        ),
        "ann:sep" => s3("annotation_1_2", "annotation_annotation_5", "annotation_12 3"),
        "dep:t2" => dep_reps(tid(2)),
        "dep:t2alt" => {
            // the same uuid, always in a spelling other than the one "dep:t2" has
            let r = dep_reps(tid(2));
            [r[1].clone(), r[2].clone(), r[0].clone()]
        }
        "dep:t3" => dep_reps(tid(3)),
        "dep:self" => dep_reps(tid(1)),
        "dep:missing" => dep_reps(tid(9)),
        "dep:empty" => s3("dep_", "dep_", "dep_"),
        "dep:malformed" => s3("dep_xyz", "dep_1234", "dep_zzzzzzzz-zzzz-zzzz-zzzz-zzzzzzzzzzzz"),
        "dep:sep" => [format!("dep_{t2}_x"), format!("dep_dep_{t2}"), format!("dep_{t2} ")],
        "uda:plain" => s3("githubid", "Status", "tags"),
        "uda:ns" => s3("ns.key", "a.b.c", "trailing."),
        "uda:near" => s3("tag", "annotation", "dep"),
        "uda:empty" => s3("", "", ""),
        p => s3(p, p, p),
    }
}

fn val_reps(tok: &str) -> [String; 3] {
    match tok {
        "empty" => s3("", "", ""),
        "nonnum" => s3("abc", "12a", " 12"),
        "past" => s3("0", "1600000000", "5"),
        "past2" => s3("1", "1500000000", "6"),
        "pastx" => s3("+5", "007", "-0"),
        "neg" => s3("-1", "-62167219201", "-8334601228800"),
        "future" => s3("4102444800", "8210266876799", "32503680000"),
        "future2" => s3("4102444801", "8210266876798", "32503680001"),
        "far" => s3("8210266876800", "8210298412800", "9223372036854775807"),
        "huge" => s3(
            "9223372036854775808",
            "99999999999999999999999999",
            "-9223372036854775809",
        ),
        "negfar" => s3("-8334601228801", "-8334632937600", "-9223372036854775808"),
        "fw" => s3("\u{ff11}\u{ff12}\u{ff13}", "\u{661}\u{662}\u{663}", "1\u{ff12}3"),
        "unknown" => s3("Pending", "waiting", "PENDING "),
        "text" => s3(
            "some text",
            "\u{fc}n\u{ef} \u{2713} \"q\" \\ \n\u{1f600}",
            "a:b c_d.e=1",
        ),
        "text2" => s3("other", "second \u{2713}", "x"),
        p => s3(p, p, p),
    }
}

/// token <-> concrete string for one behaviour
struct Tab {
    kv: usize,
    vv: usize,
    canon: bool,
    krev: HashMap<String, String>,
    vrev: HashMap<String, String>,
    /// wall-clock window of this run: values inside are the token "now"
    lo: i64,
    random: bool,
}

impl Tab {
    fn new(kv: usize, vv: usize, canon: bool, lo: i64) -> Tab {
        let mut t = Tab {
            kv,
            vv,
            canon,
            krev: HashMap::new(),
            vrev: HashMap::new(),
            lo,
            random: false,
        };
        for k in KEY_TOKENS {
            let c = t.key(k);
            t.krev.insert(c, k.to_string());
        }
        for v in VAL_TOKENS {
            if v != "now" && v != NOVAL {
                let c = t.val(v);
                t.vrev.insert(c, v.to_string());
            }
        }
        t
    }

    fn hi(&self) -> i64 {
        Utc::now().timestamp() + 5
    }

    fn key(&self, tok: &str) -> String {
        let i = if self.canon && tok.starts_with("dep:") { 0 } else { self.kv };
        key_reps(tok)[i].clone()
    }

    fn val(&self, tok: &str) -> String {
        val_reps(tok)[self.vv].clone()
    }

    fn key_tok(&self, s: &str) -> String {
        match self.krev.get(s) {
            Some(t) => t.clone(),
            None => format!("?{s}"),
        }
    }

    fn val_tok(&self, s: &str) -> String {
        let class = classify_value(s, self.lo, self.hi());
        if self.random {
            return class.to_string();
        }
        match self.vrev.get(s) {
            Some(t) => {
                // self-check of the classifier against the table (same class, up to the
                // numbered tokens)
                let base = t.trim_end_matches('2');
                let cb = match class {
                    "nonnum" if matches!(base, "text" | "unknown") => base,
                    c => c,
                };
                if cb != base {
                    return format!("classifier-disagrees:{t}:{class}");
                }
                t.clone()
            }
            None => class.to_string(),
        }
    }
}

// ---------------------------------------------------------------------------------------------
// panic capture

fn guard<T>(f: impl FnOnce() -> T) -> Result<T, String> {
    catch_unwind(AssertUnwindSafe(f)).map_err(|_| LAST_PANIC.lock().unwrap().clone())
}

struct CatchUnwind<F>(Pin<Box<F>>);

impl<F: Future> Future for CatchUnwind<F> {
    type Output = Result<F::Output, String>;
    fn poll(mut self: Pin<&mut Self>, cx: &mut Context<'_>) -> Poll<Self::Output> {
        match catch_unwind(AssertUnwindSafe(|| self.0.as_mut().poll(cx))) {
            Ok(Poll::Ready(v)) => Poll::Ready(Ok(v)),
            Ok(Poll::Pending) => Poll::Pending,
            Err(_) => Poll::Ready(Err(LAST_PANIC.lock().unwrap().clone())),
        }
    }
}

fn aguard<F: Future>(f: F) -> CatchUnwind<F> {
    CatchUnwind(Box::pin(f))
}

/// result of a guarded call that itself returns Result: token or "panic" / "error"
struct Sweep {
    s: Vec<Value>,
    l: Vec<Value>,
    p: Vec<Value>,
    rs: Vec<Value>,
    rl: Vec<Value>,
    /// true while the replica-level readers are swept
    replica: bool,
    panics: Vec<String>,
}

impl Sweep {
    fn new() -> Sweep {
        Sweep { s: vec![], l: vec![], p: vec![], rs: vec![], rl: vec![], replica: false, panics: vec![] }
    }
    fn scalar(&mut self, f: &str, k: &str, r: Result<String, String>) {
        let res = match r {
            Ok(t) => t,
            Err(msg) => {
                let tok = if msg.starts_with("error:") { "error" } else { "panic" };
                self.panics.push(format!("{f}({k}): {msg}"));
                tok.to_string()
            }
        };
        if self.replica {
            self.rs.push(json!([f, k, res]));
        } else {
            self.s.push(json!([f, k, res]));
        }
    }
    fn list(&mut self, f: &str, k: &str, r: Result<Vec<String>, String>) {
        match r {
            Ok(mut v) => {
                v.sort();
                if self.replica {
                    self.rl.push(json!([f, k, v]));
                } else {
                    self.l.push(json!([f, k, v]));
                }
            }
            Err(msg) => {
                self.panics.push(format!("{f}({k}): {msg}"));
                if self.replica {
                    self.rl.push(json!([f, k, ["panic"]]));
                } else {
                    self.l.push(json!([f, k, ["panic"]]));
                }
            }
        }
    }
    fn pairs(&mut self, f: &str, k: &str, r: Result<Vec<(String, String)>, String>) {
        match r {
            Ok(mut v) => {
                v.sort();
                self.p.push(json!([f, k, v]));
            }
            Err(msg) => {
                self.panics.push(format!("{f}({k}): {msg}"));
                self.p.push(json!([f, k, [["panic", "panic"]]]));
            }
        }
    }
}

fn b(x: bool) -> String {
    if x { "true" } else { "false" }.to_string()
}

fn status_tok(s: &Status) -> String {
    match s {
        Status::Pending => "pending",
        Status::Completed => "completed",
        Status::Deleted => "deleted",
        Status::Recurring => "recurring",
        Status::Unknown(_) => "unknown",
    }
    .to_string()
}

/// a returned time must be exactly the stored number
fn ts_tok(tab: &Tab, r: Option<DateTime<Utc>>, stored: Option<&str>) -> String {
    match r {
        None => "none".into(),
        Some(dt) => match stored {
            Some(s) if parse_int(s) == Int::N(dt.timestamp() as i128) => tab.val_tok(s),
            _ => format!("wrong-time:{}", dt.timestamp()),
        },
    }
}

fn opt_tok(tab: &Tab, r: Option<&str>) -> String {
    match r {
        None => "none".into(),
        Some(s) => tab.val_tok(s),
    }
}

fn split_uda(key: &str) -> (String, String) {
    match key.split_once('.') {
        Some((a, b)) => (a.to_string(), b.to_string()),
        None => (String::new(), key.to_string()),
    }
}

fn join_uda(ns: &str, key: &str) -> String {
    if ns.is_empty() {
        key.to_string()
    } else {
        format!("{ns}.{key}")
    }
}

fn map_pairs<'a>(tab: &Tab, it: impl Iterator<Item = (&'a String, &'a String)>) -> Vec<(String, String)> {
    let mut v: Vec<(String, String)> = it.map(|(k, v)| (tab.key_tok(k), tab.val_tok(v))).collect();
    v.sort();
    v
}

/// every read accessor of Task and TaskData
fn sweep_task(task: &Task, tab: &Tab, sw: &mut Sweep) {
    let keys: Vec<String> = match guard(|| {
        task.clone().into_task_data().properties().cloned().collect::<Vec<String>>()
    }) {
        Ok(k) => k,
        Err(m) => {
            sw.panics.push(format!("properties: {m}"));
            vec![]
        }
    };
    sw.scalar("get_uuid", "-", guard(|| task_tok(task.get_uuid())));
    sw.scalar(
        "data.get_uuid",
        "-",
        guard(|| task_tok(task.clone().into_task_data().get_uuid())),
    );
    sw.scalar("get_status", "-", guard(|| status_tok(&task.get_status())));
    sw.scalar("get_description", "-", guard(|| tab.val_tok(task.get_description())));
    sw.scalar("get_priority", "-", guard(|| tab.val_tok(task.get_priority())));
    sw.scalar("get_entry", "-", guard(|| ts_tok(tab, task.get_entry(), task.get_value("entry"))));
    sw.scalar("get_wait", "-", guard(|| ts_tok(tab, task.get_wait(), task.get_value("wait"))));
    sw.scalar(
        "get_modified",
        "-",
        guard(|| ts_tok(tab, task.get_modified(), task.get_value("modified"))),
    );
    sw.scalar("get_due", "-", guard(|| ts_tok(tab, task.get_due(), task.get_value("due"))));
    sw.scalar("is_waiting", "-", guard(|| b(task.is_waiting())));
    sw.scalar("is_active", "-", guard(|| b(task.is_active())));
    sw.scalar("is_blocked", "-", guard(|| b(task.is_blocked())));
    sw.scalar("is_blocking", "-", guard(|| b(task.is_blocking())));
    sw.scalar("eq_clone", "-", guard(|| b(task.clone() == *task)));
    sw.scalar("debug", "-", guard(|| {
        let s = format!("{task:?}");
        if s.is_empty() { "empty".to_string() } else { "ok".to_string() }
    }));
    for name in [
        "WAITING", "ACTIVE", "PENDING", "COMPLETED", "DELETED", "BLOCKED", "UNBLOCKED", "BLOCKING",
    ] {
        sw.scalar("has_tag", name, guard(|| {
            let t: Tag = name.parse().unwrap();
            b(task.has_tag(&t))
        }));
    }
    for ck in &keys {
        let kt = tab.key_tok(ck);
        if kt == "tag:valid" || kt == "tag:valid2" {
            sw.scalar("has_tag", &kt, guard(|| {
                let t: Tag = ck["tag_".len()..].parse().unwrap();
                b(task.has_tag(&t))
            }));
        }
        sw.scalar("get_value", &kt, guard(|| opt_tok(tab, task.get_value(ck.clone()))));
        sw.scalar(
            "get_timestamp",
            &kt,
            guard(|| ts_tok(tab, task.get_timestamp(ck), task.get_value(ck.clone()))),
        );
        sw.scalar(
            "get_user_defined_attribute",
            &kt,
            guard(|| opt_tok(tab, task.get_user_defined_attribute(ck))),
        );
        sw.scalar("get_legacy_uda", &kt, guard(|| opt_tok(tab, task.get_legacy_uda(ck))));
        sw.scalar("get_uda", &kt, guard(|| {
            let (ns, key) = split_uda(ck);
            opt_tok(tab, task.get_uda(&ns, &key))
        }));
        sw.scalar("data.get", &kt, guard(|| {
            let d = task.clone().into_task_data();
            opt_tok(tab, d.get(ck))
        }));
        sw.scalar("data.has", &kt, guard(|| b(task.clone().into_task_data().has(ck))));
    }
    sw.list("get_tags", "-", guard(|| {
        task.get_tags()
            .map(|t| {
                if t.is_synthetic() {
                    t.to_string()
                } else {
                    tab.key_tok(&format!("tag_{t}"))
                }
            })
            .collect()
    }));
    sw.list(
        "get_dependencies",
        "-",
        guard(|| task.get_dependencies().map(task_tok).collect()),
    );
    sw.list("data.properties", "-", guard(|| {
        task.clone().into_task_data().properties().map(|k| tab.key_tok(k)).collect()
    }));
    sw.pairs("get_annotations", "-", guard(|| {
        task.get_annotations()
            .map(|a: Annotation| {
                // the stored key whose suffix is this number
                let secs = a.entry.timestamp() as i128;
                let key = keys
                    .iter()
                    .find(|k| {
                        k.strip_prefix("annotation_").map(parse_int) == Some(Int::N(secs))
                            && task.get_value((*k).clone()) == Some(a.description.as_str())
                    })
                    .map(|k| tab.key_tok(k))
                    .unwrap_or_else(|| format!("?annotation@{secs}"));
                (key, tab.val_tok(&a.description))
            })
            .collect()
    }));
    sw.pairs("get_udas", "-", guard(|| {
        task.get_udas()
            .map(|((ns, key), v)| (tab.key_tok(&join_uda(ns, key)), tab.val_tok(v)))
            .collect()
    }));
    sw.pairs("get_legacy_udas", "-", guard(|| {
        task.get_legacy_udas().map(|(k, v)| (tab.key_tok(k), tab.val_tok(v))).collect()
    }));
    sw.pairs("get_user_defined_attributes", "-", guard(|| {
        task.get_user_defined_attributes()
            .map(|(k, v)| (tab.key_tok(k), tab.val_tok(v)))
            .collect()
    }));
    sw.pairs("data.iter", "-", guard(|| {
        let d = task.clone().into_task_data();
        let v = map_pairs(tab, d.iter());
        v
    }));
    sw.pairs("get_taskmap", "-", guard(|| map_pairs(tab, task.get_taskmap().iter())));
}

fn cnt(n: usize) -> String {
    if n <= 3 { n.to_string() } else { "many".to_string() }
}

fn flat<T>(r: Result<Result<T, taskchampion::Error>, String>) -> Result<T, String> {
    match r {
        Ok(Ok(v)) => Ok(v),
        Ok(Err(e)) => Err(format!("error: {e}")),
        Err(m) => Err(m),
    }
}

/// every read accessor of Replica, WorkingSet and DependencyMap
async fn sweep_replica<S: Storage>(rep: &mut Replica<S>, sw: &mut Sweep, expire: bool) {
    let t1 = tid(1);
    sw.replica = true;
    let r = flat(aguard(rep.get_task(t1)).await);
    sw.scalar("get_task", "-", r.map(|t| if t.is_some() { "some" } else { "none" }.to_string()));
    let r = flat(aguard(rep.get_task_data(t1)).await);
    let stored: Option<TaskData> = r.clone().ok().flatten();
    sw.scalar("get_task_data", "-", r.map(|t| if t.is_some() { "some" } else { "none" }.to_string()));

    match flat(aguard(rep.working_set()).await) {
        Ok(ws) => {
            sw.scalar("ws.len", "-", guard(|| cnt(ws.len())));
            sw.scalar("ws.largest_index", "-", guard(|| cnt(ws.largest_index())));
            sw.scalar("ws.is_empty", "-", guard(|| b(ws.is_empty())));
            for n in [1u128, 2, 3] {
                sw.scalar("ws.by_uuid", &format!("t{n}"), guard(|| {
                    if ws.by_uuid(tid(n)).is_some() { "some" } else { "none" }.to_string()
                }));
            }
            sw.scalar("ws.consistent", "-", guard(|| {
                let mut ok = ws.by_index(0).is_none() && ws.by_index(ws.largest_index() + 1).is_none();
                let mut n = 0;
                for (i, u) in ws.iter() {
                    n += 1;
                    ok = ok && ws.by_index(i) == Some(u) && ws.by_uuid(u) == Some(i);
                    ok = ok && i >= 1 && i <= ws.largest_index();
                }
                b(ok && n == ws.len())
            }));
            sw.list("ws.iter", "-", guard(|| ws.iter().map(|(_, u)| task_tok(u)).collect()));
        }
        Err(m) => {
            sw.scalar("ws.len", "-", Err(m));
        }
    }
    sw.scalar(
        "num_local_operations",
        "-",
        flat(aguard(rep.num_local_operations()).await).map(|_| "ok".to_string()),
    );
    sw.scalar(
        "num_undo_points",
        "-",
        flat(aguard(rep.num_undo_points()).await).map(|_| "ok".to_string()),
    );
    sw.scalar(
        "get_undo_operations",
        "-",
        flat(aguard(rep.get_undo_operations()).await).map(|_| "ok".to_string()),
    );
    sw.scalar(
        "get_task_operations",
        "t1",
        flat(aguard(rep.get_task_operations(t1)).await).map(|_| "ok".to_string()),
    );

    let r = flat(aguard(rep.all_tasks()).await);
    // the Task handed out by all_tasks carries the same map as get_task_data
    let same = r.as_ref().ok().map(|all| {
        all.get(&t1).map(|t| t.clone().into_task_data()) == stored
    });
    sw.list("all_tasks", "-", r.map(|m| m.keys().map(|u| task_tok(*u)).collect()));
    sw.scalar("all_tasks.t1eq", "-", Ok(b(same.unwrap_or(false))));
    let r = flat(aguard(rep.all_task_data()).await);
    sw.list("all_task_data", "-", r.map(|m| m.keys().map(|u| task_tok(*u)).collect()));
    let r = flat(aguard(rep.all_task_uuids()).await);
    sw.list("all_task_uuids", "-", r.map(|v| v.iter().map(|u| task_tok(*u)).collect()));
    let r = flat(aguard(rep.pending_tasks()).await);
    sw.list("pending_tasks", "-", r.map(|v| v.iter().map(|t| task_tok(t.get_uuid())).collect()));
    let r = flat(aguard(rep.pending_task_data()).await);
    sw.list("pending_task_data", "-", r.map(|v| v.iter().map(|t| task_tok(t.get_uuid())).collect()));

    for (name, force) in [("dm", false), ("dmf", true)] {
        match flat(aguard(rep.dependency_map(force)).await) {
            Ok(dm) => {
                for n in [1u128, 2, 4] {
                    sw.list(
                        &format!("{name}.dependencies"),
                        &format!("t{n}"),
                        guard(|| dm.dependencies(tid(n)).map(task_tok).collect()),
                    );
                    sw.list(
                        &format!("{name}.dependents"),
                        &format!("t{n}"),
                        guard(|| dm.dependents(tid(n)).map(task_tok).collect()),
                    );
                }
            }
            Err(m) => sw.list(&format!("{name}.dependencies"), "t1", Err(m)),
        }
    }

    if expire {
        let r = flat(aguard(rep.expire_tasks()).await);
        let after = flat(aguard(rep.get_task_data(t1)).await);
        let res = match (r, after) {
            (Err(m), _) | (_, Err(m)) => Err(m),
            (Ok(()), Ok(a)) => Ok(match (stored.is_some(), a.is_some()) {
                (false, _) => "absent",
                (true, true) => "kept",
                (true, false) => "gone",
            }
            .to_string()),
        };
        sw.scalar("expire", "t1", res);
    }
}

// ---------------------------------------------------------------------------------------------
// executing behaviours

enum Obj {
    None,
    Task(Task),
    Data(TaskData),
}

impl Obj {
    fn kind(&self) -> &'static str {
        match self {
            Obj::None => "none",
            Obj::Task(_) => "task",
            Obj::Data(_) => "data",
        }
    }
    fn map(&self, tab: &Tab) -> Vec<(String, String)> {
        match self {
            Obj::None => vec![],
            Obj::Task(t) => map_pairs(tab, t.get_taskmap().iter()),
            Obj::Data(d) => map_pairs(tab, d.iter()),
        }
    }
}

fn ops_json(tab: &Tab, ops: &Operations) -> Value {
    let mut out = vec![];
    for op in ops {
        let u = op.get_uuid().map(task_tok).unwrap_or_else(|| "-".into());
        out.push(match op {
            Operation::Create { .. } => json!({"k":"C","u":u,"p":"-","v":"-","o":"-","om":[],"t":"-"}),
            Operation::Delete { old_task, .. } => {
                json!({"k":"D","u":u,"p":"-","v":"-","o":"-","om":map_pairs(tab, old_task.iter()),"t":"-"})
            }
            Operation::Update { property, value, old_value, timestamp, .. } => {
                let ts = timestamp.timestamp();
                let t = if ts >= tab.lo && ts <= tab.hi() { "now".to_string() } else { ts.to_string() };
                json!({"k":"U","u":u,"p":tab.key_tok(property),
                       "v": value.as_deref().map(|s| tab.val_tok(s)).unwrap_or_else(|| NOVAL.into()),
                       "o": old_value.as_deref().map(|s| tab.val_tok(s)).unwrap_or_else(|| NOVAL.into()),
                       "om":[],"t":t})
            }
            Operation::UndoPoint => json!({"k":"P","u":"-","p":"-","v":"-","o":"-","om":[],"t":"-"}),
        });
    }
    Value::Array(out)
}

fn time_of(tab: &Tab, tok: &str) -> Option<DateTime<Utc>> {
    if tok == NOVAL {
        return None;
    }
    match parse_int(&tab.val(tok)) {
        Int::N(v) => Utc.timestamp_opt(v as i64, 0).single(),
        _ => panic!("harness: value token {tok} is not a time"),
    }
}

fn status_of(tab: &Tab, tok: &str) -> Status {
    match tok {
        "pending" => Status::Pending,
        "completed" => Status::Completed,
        "deleted" => Status::Deleted,
        "recurring" => Status::Recurring,
        t => Status::Unknown(tab.val(t)),
    }
}

fn optval(tab: &Tab, tok: &str) -> Option<String> {
    if tok == NOVAL { None } else { Some(tab.val(tok)) }
}

fn ann_time(tab: &Tab, k: &str) -> DateTime<Utc> {
    let ck = tab.key(k);
    match parse_int(&ck["annotation_".len()..]) {
        Int::N(v) => Utc.timestamp_opt(v as i64, 0).single().expect("harness: annotation time"),
        _ => panic!("harness: annotation key token {k} has no time"),
    }
}

fn dep_uuid(k: &str) -> Uuid {
    match k {
        "dep:t2" => tid(2),
        "dep:t3" => tid(3),
        "dep:self" => tid(1),
        "dep:missing" => tid(9),
        _ => panic!("harness: {k} names no uuid"),
    }
}

fn res_tok(r: Result<Result<(), taskchampion::Error>, String>) -> (String, Option<String>) {
    match r {
        Ok(Ok(())) => ("ok".into(), None),
        Ok(Err(_)) => ("err".into(), None),
        Err(m) => ("panic".into(), Some(m)),
    }
}

/// one mutator call on the object in hand
fn mutate(tab: &Tab, obj: &mut Obj, ops: &mut Operations, f: &str, k: &str, v: &str) -> (String, Option<String>) {
    if f == "into_data" {
        let o = std::mem::replace(obj, Obj::None);
        *obj = match o {
            Obj::Task(t) => Obj::Data(t.into_task_data()),
            other => other,
        };
        return ("ok".into(), None);
    }
    match obj {
        Obj::Task(t) => {
            let r = guard(|| -> Result<(), taskchampion::Error> {
                match f {
                    "set_status" => t.set_status(status_of(tab, v), ops),
                    "set_description" => t.set_description(tab.val(v), ops),
                    "set_priority" => t.set_priority(tab.val(v), ops),
                    "set_entry" => t.set_entry(time_of(tab, v), ops),
                    "set_wait" => t.set_wait(time_of(tab, v), ops),
                    "set_due" => t.set_due(time_of(tab, v), ops),
                    "set_modified" => t.set_modified(time_of(tab, v).expect("time"), ops),
                    "start" => t.start(ops),
                    "stop" => t.stop(ops),
                    "done" => t.done(ops),
                    "delete" => t.delete(ops),
                    "add_tag" | "remove_tag" => {
                        let tag: Tag = tab.key(k)["tag_".len()..].parse().expect("harness: tag");
                        if f == "add_tag" { t.add_tag(&tag, ops) } else { t.remove_tag(&tag, ops) }
                    }
                    "add_annotation" => t.add_annotation(
                        Annotation { entry: ann_time(tab, k), description: tab.val(v) },
                        ops,
                    ),
                    "remove_annotation" => t.remove_annotation(ann_time(tab, k), ops),
                    "add_dependency" => t.add_dependency(dep_uuid(k), ops),
                    "remove_dependency" => t.remove_dependency(dep_uuid(k), ops),
                    "set_uda" => {
                        let (ns, key) = split_uda(&tab.key(k));
                        t.set_uda(ns, key, tab.val(v), ops)
                    }
                    "remove_uda" => {
                        let (ns, key) = split_uda(&tab.key(k));
                        t.remove_uda(ns, key, ops)
                    }
                    "set_legacy_uda" => t.set_legacy_uda(tab.key(k), tab.val(v), ops),
                    "remove_legacy_uda" => t.remove_legacy_uda(tab.key(k), ops),
                    "set_user_defined_attribute" => {
                        t.set_user_defined_attribute(tab.key(k), tab.val(v), ops)
                    }
                    "remove_user_defined_attribute" => t.remove_user_defined_attribute(tab.key(k), ops),
                    "set_value" => t.set_value(tab.key(k), optval(tab, v), ops),
                    "set_timestamp" => t.set_timestamp(&tab.key(k), time_of(tab, v), ops),
                    other => panic!("harness: unknown task mutator {other}"),
                }
            });
            res_tok(r)
        }
        Obj::Data(d) => {
            let r = guard(|| -> Result<(), taskchampion::Error> {
                match f {
                    "data.update" => d.update(tab.key(k), optval(tab, v), ops),
                    "data.delete" => d.delete(ops),
                    other => panic!("harness: unknown data mutator {other}"),
                }
                Ok(())
            });
            res_tok(r)
        }
        Obj::None => ("no-object".into(), None),
    }
}

async fn stored_state<S: Storage>(rep: &mut Replica<S>, tab: &Tab) -> (String, Vec<(String, String)>, String) {
    let d = rep.get_task_data(tid(1)).await.expect("get_task_data");
    let ws = rep.working_set().await.expect("working_set");
    let inws = ws.by_uuid(tid(1)).is_some();
    match d {
        Some(d) => ("true".into(), map_pairs(tab, d.iter()), b(inws)),
        None => ("false".into(), vec![], b(inws)),
    }
}

/// the fixed context: t2 pending, t3 completed, t4 pending and depending on t1
async fn install_context<S: Storage>(rep: &mut Replica<S>) {
    let mut ops = Operations::new();
    let mut t2 = TaskData::create(tid(2), &mut ops);
    t2.update("status", Some("pending".into()), &mut ops);
    t2.update("description", Some("context t2".into()), &mut ops);
    let mut t3 = TaskData::create(tid(3), &mut ops);
    t3.update("status", Some("completed".into()), &mut ops);
    let mut t4 = TaskData::create(tid(4), &mut ops);
    t4.update("status", Some("pending".into()), &mut ops);
    t4.update(format!("dep_{}", tid(1)), Some("".into()), &mut ops);
    rep.commit_operations(ops).await.expect("context commit");
}

async fn run_behaviour<S: Storage>(rep: &mut Replica<S>, bh: &Value, lo: i64, out: &mut Vec<Value>) {
    let kv = bh["kv"].as_u64().unwrap_or(0) as usize;
    let vv = bh["vv"].as_u64().unwrap_or(0) as usize;
    let canon = bh["canon"].as_bool().unwrap_or(false);
    let mut tab = Tab::new(kv, vv, canon, lo);
    out.push(json!({"a":"Reset","id":bh["id"],"kv":kv,"vv":vv}));
    install_context(rep).await;
    let mut obj = Obj::None;
    let mut ops = Operations::new();
    for st in bh["steps"].as_array().expect("steps") {
        let a = st["a"].as_str().unwrap();
        match a {
            "Install" | "InstallRaw" => {
                // a task as some application wrote it
                let mut entries: Vec<(String, String, String, String)> = vec![]; // ktok, vtok, ck, cv
                if a == "Install" {
                    for e in st["e"].as_array().unwrap() {
                        let (k, v) = (e[0].as_str().unwrap(), e[1].as_str().unwrap());
                        entries.push((k.into(), v.into(), tab.key(k), tab.val(v)));
                    }
                } else {
                    tab.random = true;
                    for e in st["raw"].as_array().unwrap() {
                        let (ck, cv) = (e[0].as_str().unwrap(), e[1].as_str().unwrap());
                        let kt = classify_key(ck);
                        if kt == "skip" || entries.iter().any(|x| x.0 == kt) {
                            continue; // one key per class and task
                        }
                        tab.krev.insert(ck.to_string(), kt.clone());
                        entries.push((kt, classify_value(cv, tab.lo, tab.hi()).into(), ck.into(), cv.into()));
                    }
                }
                let mut o = Operations::new();
                let mut d = TaskData::create(tid(1), &mut o);
                for (_, _, ck, cv) in &entries {
                    d.update(ck.clone(), Some(cv.clone()), &mut o);
                }
                rep.commit_operations(o).await.expect("install commit");
                let (ex, m, ws) = stored_state(rep, &tab).await;
                let e: Vec<(String, String)> = entries.iter().map(|x| (x.0.clone(), x.1.clone())).collect();
                let mut ev = json!({"a":"Install","e":e,"ex":ex,"m":m,"ws":ws});
                if a == "InstallRaw" {
                    ev["raw"] = st["raw"].clone();
                }
                out.push(ev);
            }
            "Load" => {
                let how = st["f"].as_str().unwrap();
                let r: Result<Obj, String> = match how {
                    "get_task" => flat(aguard(rep.get_task(tid(1))).await)
                        .map(|t| t.map(Obj::Task).unwrap_or(Obj::None)),
                    "create_task" => flat(aguard(rep.create_task(tid(1), &mut ops)).await).map(Obj::Task),
                    "get_task_data" => flat(aguard(rep.get_task_data(tid(1))).await)
                        .map(|t| t.map(Obj::Data).unwrap_or(Obj::None)),
                    other => panic!("harness: Load {other}"),
                };
                let (res, pm) = match r {
                    Ok(o) => {
                        obj = o;
                        (obj.kind().to_string(), None)
                    }
                    Err(m) => ("panic".to_string(), Some(m)),
                };
                let (blk, blkg) = match &obj {
                    Obj::Task(t) => (b(t.is_blocked()), b(t.is_blocking())),
                    _ => (b(false), b(false)),
                };
                let mut ev = json!({"a":"Load","f":how,"res":res,"m":obj.map(&tab),
                                    "ops":ops_json(&tab, &ops),"blk":blk,"blkg":blkg});
                if let Some(m) = pm {
                    ev["panic"] = json!(m);
                }
                out.push(ev);
            }
            "Mut" => {
                let (f, k, v) = (
                    st["f"].as_str().unwrap(),
                    st["k"].as_str().unwrap(),
                    st["v"].as_str().unwrap(),
                );
                let (res, pm) = mutate(&tab, &mut obj, &mut ops, f, k, v);
                let mut ev = json!({"a":"Mut","f":f,"k":k,"v":v,"res":res,"m":obj.map(&tab),
                                    "ops":ops_json(&tab, &ops)});
                if let Some(m) = pm {
                    ev["panic"] = json!(m);
                }
                out.push(ev);
            }
            "Commit" => {
                let o = std::mem::take(&mut ops);
                obj = Obj::None;
                let r = flat(aguard(rep.commit_operations(o)).await);
                let res = match &r {
                    Ok(()) => "ok".to_string(),
                    Err(m) if m.starts_with("error:") => "error".to_string(),
                    Err(_) => "panic".to_string(),
                };
                let (ex, m, ws) = stored_state(rep, &tab).await;
                let mut ev = json!({"a":"Commit","res":res,"ex":ex,"m":m,"ws":ws});
                if let Err(m) = r {
                    ev["panic"] = json!(m);
                }
                out.push(ev);
            }
            "Read" => {
                let expire = st["expire"].as_bool().unwrap_or(false);
                let (ex, m, ws) = stored_state(rep, &tab).await;
                let mut sw = Sweep::new();
                // the task as handed out by the replica
                match flat(aguard(rep.get_task(tid(1))).await) {
                    Ok(Some(t)) => sweep_task(&t, &tab, &mut sw),
                    Ok(None) => {}
                    Err(msg) => sw.panics.push(format!("get_task: {msg}")),
                }
                sweep_replica(rep, &mut sw, expire).await;
                let mut ev = json!({"a":"Read","ex":ex,"m":m,"ws":ws,"s":sw.s,"l":sw.l,"p":sw.p,
                                    "rs":sw.rs,"rl":sw.rl});
                if !sw.panics.is_empty() {
                    ev["panics"] = json!(sw.panics);
                }
                out.push(ev);
            }
            "ReadObj" => {
                if let Obj::Task(t) = &obj {
                    let mut sw = Sweep::new();
                    sweep_task(t, &tab, &mut sw);
                    let mut ev = json!({"a":"ReadObj","m":obj.map(&tab),"s":sw.s,"l":sw.l,"p":sw.p});
                    if !sw.panics.is_empty() {
                        ev["panics"] = json!(sw.panics);
                    }
                    out.push(ev);
                }
            }
            other => panic!("harness: unknown step {other}"),
        }
    }
}

// ---------------------------------------------------------------------------------------------
// seeded random tasks (thorough tier)

struct Rng(u64);
impl Rng {
    fn next(&mut self) -> u64 {
        // splitmix64
        self.0 = self.0.wrapping_add(0x9E37_79B9_7F4A_7C15);
        let mut z = self.0;
        z = (z ^ (z >> 30)).wrapping_mul(0xBF58_476D_1CE4_E5B9);
        z = (z ^ (z >> 27)).wrapping_mul(0x94D0_49BB_1331_11EB);
        z ^ (z >> 31)
    }
    fn below(&mut self, n: u64) -> u64 {
        self.next() % n
    }
    fn pick<'a>(&mut self, v: &[&'a str]) -> &'a str {
        v[self.below(v.len() as u64) as usize]
    }
}

fn random_number(r: &mut Rng) -> String {
    let anchors: [i128; 12] = [
        0,
        1,
        -1,
        CAL_MAX,
        CAL_MIN,
        i64::MAX as i128,
        i64::MIN as i128,
        -62_167_219_200,
        253_402_300_800,
        4_102_444_800,
        1_000_000_000,
        i32::MAX as i128,
    ];
    let base = anchors[r.below(12) as usize];
    let delta: i128 = match r.below(6) {
        0 => 0,
        1 => 1,
        2 => -1,
        3 => r.below(1000) as i128,
        4 => -(r.below(100_000_000_000) as i128),
        _ => r.below(100_000_000_000_000) as i128,
    };
    let v = base + delta;
    let mut s = match r.below(8) {
        0 => format!("+{v}"),
        1 => {
            if v < 0 {
                format!("-00{}", -v)
            } else {
                format!("00{v}")
            }
        }
        _ => v.to_string(),
    };
    match r.below(20) {
        0 => s.push(' '),
        1 => s.insert(0, ' '),
        2 => s.push_str("0000000000000000"),
        3 => s.push_str(".0"),
        4 => s = s.replace('1', "\u{ff11}"),
        5 => s.push('e'),
        _ => {}
    }
    s
}

fn random_text(r: &mut Rng) -> String {
    let pieces = [
        "a", "Z", "9", " ", ":", "_", ".", "-", "+", "\t", "\n", "\u{1f980}", "\u{fc}", "\u{ff11}",
        "\u{661}", "\u{0}", "tag_", "dep_", "annotation_", "pending", "WAITING", "\"", "\\", "%",
    ];
    let n = r.below(6);
    let mut s = String::new();
    for _ in 0..n {
        s.push_str(r.pick(&pieces));
    }
    s
}

fn random_value(r: &mut Rng) -> String {
    match r.below(10) {
        0..=5 => random_number(r),
        6 => r.pick(&["pending", "completed", "deleted", "recurring", "Pending", "", "R"]).to_string(),
        _ => random_text(r),
    }
}

fn random_key(r: &mut Rng) -> String {
    let props = ["status", "description", "modified", "start", "end", "priority", "wait", "entry", "due"];
    match r.below(10) {
        0..=3 => r.pick(&props).to_string(),
        4 => format!("tag_{}", random_text(r)),
        5 => format!("annotation_{}", if r.below(4) == 0 { random_text(r) } else { random_number(r) }),
        6 => {
            let u = tid([1u128, 2, 3, 9][r.below(4) as usize]);
            match r.below(7) {
                0 => format!("dep_{}", u.hyphenated()),
                1 => format!("dep_{}", u.simple()),
                2 => format!("dep_{}", u.urn()),
                3 => format!("dep_{}", u.braced()),
                4 => format!("dep_{}", u.hyphenated().to_string().to_uppercase()),
                5 => format!("dep_{}x", u.hyphenated()),
                _ => format!("dep_{}", random_text(r)),
            }
        }
        7 => r.pick(&["tag_WAITING", "tag_", "annotation_", "dep_", ""]).to_string(),
        _ => {
            let t = random_text(r);
            // a leading '.' is split as ("", rest) by the deprecated namespaced API and cannot
            // be told from the key without the dot; not part of what is claimed
            t.trim_start_matches('.').to_string()
        }
    }
}

fn random_behaviours(n: usize, seed: u64) -> Vec<Value> {
    let mut r = Rng(seed ^ 0x7a5c_7a5c);
    let mut out = vec![];
    for id in 0..n {
        let cnt = 1 + r.below(5);
        let mut raw: Vec<(String, String)> = vec![];
        for _ in 0..cnt {
            let k = random_key(&mut r);
            if raw.iter().any(|(kk, _)| *kk == k) {
                continue;
            }
            raw.push((k, random_value(&mut r)));
        }
        out.push(json!({"id":id,"kv":0,"vv":0,"storage":"mem",
            "steps":[{"a":"InstallRaw","raw":raw},{"a":"Read","expire":true}]}));
    }
    out
}

// ---------------------------------------------------------------------------------------------

async fn run_line(bh: &Value, dir: &Option<PathBuf>, n: usize, lo: i64, out: &mut Vec<Value>) {
    if bh["storage"].as_str() == Some("sqlite") {
        let d = dir.clone().expect("--dir for sqlite").join(format!("t{n}"));
        let _ = std::fs::remove_dir_all(&d);
        std::fs::create_dir_all(&d).unwrap();
        {
            let st = SqliteStorage::new(&d, AccessMode::ReadWrite, true).await.expect("sqlite");
            let mut rep = Replica::new(st);
            run_behaviour(&mut rep, bh, lo, out).await;
        }
        let _ = std::fs::remove_dir_all(&d);
    } else {
        let mut rep = Replica::new(InMemoryStorage::new());
        run_behaviour(&mut rep, bh, lo, out).await;
    }
}

pub fn main(args: &[String]) {
    let cmd = args[1].as_str();
    std::panic::set_hook(Box::new(|info| {
        let msg = info.to_string();
        if msg.contains("harness:") {
            eprintln!("{msg}");
        }
        *LAST_PANIC.lock().unwrap() = msg;
    }));
    match cmd {
        "task-read" | "task-mutate" => {
            let out = arg(args, "--out").expect("--out");
            let dir = arg(args, "--dir").map(PathBuf::from);
            let lo = Utc::now().timestamp() - 5;
            let behaviours: Vec<Value> = if let Some(n) = arg(args, "--random") {
                let seed: u64 = arg(args, "--seed").and_then(|s| s.parse().ok()).unwrap_or(1);
                random_behaviours(n.parse().expect("--random N"), seed)
            } else {
                let inp = arg(args, "--in").expect("--in");
                let f = std::io::BufReader::new(std::fs::File::open(inp).unwrap());
                f.lines()
                    .map(|l| l.unwrap())
                    .filter(|l| !l.trim().is_empty())
                    .map(|l| serde_json::from_str(&l).expect("stimulus json"))
                    .collect()
            };
            let mut o = std::io::BufWriter::new(std::fs::File::create(out).unwrap());
            let mut n = 0usize;
            let mut panics = 0usize;
            local_block_on(async {
                for bh in &behaviours {
                    let mut lines = vec![];
                    run_line(bh, &dir, n, lo, &mut lines).await;
                    for l in lines {
                        if l.get("panics").is_some() || l.get("panic").is_some() {
                            panics += 1;
                        }
                        writeln!(o, "{}", serde_json::to_string(&l).unwrap()).unwrap();
                    }
                    n += 1;
                }
            });
            o.flush().unwrap();
            eprintln!("ran {n} behaviours, {panics} events with a panic in the code under test");
        }
        "task-classify" => {
            // development aid: the class of each remaining argument
            let now = Utc::now().timestamp();
            for s in &args[2..] {
                println!("{:?} value:{} key:{}", s, classify_value(s, now - 5, now + 5), classify_key(s));
            }
        }
        _ => {
            eprintln!("usage: tcverif task-read|task-mutate --in F --out F [--dir D] | task-read --random N --seed S --out F");
            std::process::exit(2);
        }
    }
}
