//! A harness-side `Server` implementing the abstract version-chain protocol literally
//! (ChainServer.tla), shared by all replicas, each request passing a gate owned by a
//! deterministic scheduler; every request and reply is logged as a trace event.
use crate::model::{tasks_to_json, ver_index, Model};
use async_trait::async_trait;
use serde_json::{json, Value};
use std::cell::RefCell;
use std::collections::BTreeMap;
use std::io::Read;
use std::rc::Rc;
use taskchampion::server::{
    AddVersionResult, GetVersionResult, HistorySegment, Server, Snapshot, SnapshotUrgency,
    VersionId,
};
use taskchampion::{Error, Uuid};
use tokio::sync::mpsc::{UnboundedReceiver as Rx, UnboundedSender as Tx};

pub struct Ctx {
    pub model: Model,
    pub ids: Vec<Uuid>,
    pub bodies: Vec<Vec<u8>>,
    pub snapshot: Option<(Uuid, Vec<u8>)>,
    pub lines: Vec<Value>,
    /// number of versions the server has discarded from the front of the chain
    pub trimmed: usize,
    /// 0: versions are served byte for byte; 1..3: served re-written in another rendering of
    /// the documented format (as a different implementation might have written them)
    pub restyle: u8,
}

impl Ctx {
    pub fn new(model: Model) -> Self {
        Ctx {
            model,
            ids: vec![],
            bodies: vec![],
            snapshot: None,
            lines: vec![],
            trimmed: 0,
            restyle: 0,
        }
    }
    pub fn latest(&self) -> Uuid {
        self.ids.last().copied().unwrap_or(Uuid::nil())
    }
    pub fn emit(&mut self, v: Value) {
        self.lines.push(v);
    }
}

pub type SharedCtx = Rc<RefCell<Ctx>>;

#[derive(Debug, Clone)]
pub enum Decision {
    Proceed { urg: String },
    FailBefore,
    LostReply,
}

#[derive(Debug)]
pub enum Ev {
    Arrived(&'static str),
    Finished(Result<(), String>),
}

pub struct Gated {
    pub rid: String,
    pub idx: usize,
    pub ctx: SharedCtx,
    pub ev: Tx<(usize, Ev)>,
    pub grant: Rx<Decision>,
    /// when false the server does not gate (sequential use)
    pub gated: bool,
}

fn urgency(s: &str) -> SnapshotUrgency {
    match s {
        "high" => SnapshotUrgency::High,
        "low" => SnapshotUrgency::Low,
        _ => SnapshotUrgency::None,
    }
}

/// Parse a version body as generic JSON and project it to the trace form.
pub fn parse_version(m: &mut Model, hs: &[u8]) -> (Value, bool, String) {
    let text = match std::str::from_utf8(hs) {
        Ok(t) => t,
        Err(e) => return (json!([]), false, format!("not UTF-8: {e}")),
    };
    let doc: Value = match serde_json::from_str(text) {
        Ok(d) => d,
        Err(e) => return (json!([]), false, format!("not JSON: {e}")),
    };
    let obj = match doc.as_object() {
        Some(o) => o,
        None => return (json!([]), false, "version is not an object".into()),
    };
    if obj.len() != 1 || !obj.contains_key("operations") {
        return (
            json!([]),
            false,
            format!("version has keys {:?}", obj.keys().collect::<Vec<_>>()),
        );
    }
    let arr = match obj["operations"].as_array() {
        Some(a) => a,
        None => return (json!([]), false, "operations is not an array".into()),
    };
    let mut out = vec![];
    for w in arr {
        match m.wire_op_to_json(w) {
            Ok(j) => out.push(j),
            Err(e) => return (Value::Array(out), false, e),
        }
    }
    (Value::Array(out), true, String::new())
}

/// Decode a snapshot independently of the crate: zlib + JSON object uuid -> {prop: value}.
pub fn decode_snapshot(
    snap: &[u8],
) -> Result<BTreeMap<Uuid, BTreeMap<String, String>>, String> {
    let mut d = flate2::read::ZlibDecoder::new(snap);
    let mut s = String::new();
    d.read_to_string(&mut s).map_err(|e| e.to_string())?;
    let doc: Value = serde_json::from_str(&s).map_err(|e| e.to_string())?;
    let obj = doc.as_object().ok_or("snapshot is not an object")?;
    let mut out = BTreeMap::new();
    for (k, v) in obj {
        let u = Uuid::parse_str(k).map_err(|e| e.to_string())?;
        let mut t = BTreeMap::new();
        for (p, val) in v.as_object().ok_or("task is not an object")? {
            t.insert(p.clone(), val.as_str().ok_or("value not a string")?.to_string());
        }
        out.insert(u, t);
    }
    Ok(out)
}

impl Gated {
    async fn gate(&mut self, what: &'static str) -> Decision {
        if !self.gated {
            return Decision::Proceed { urg: "none".into() };
        }
        self.ev.send((self.idx, Ev::Arrived(what))).unwrap();
        self.grant.recv().await.expect("scheduler gone")
    }
    fn fault(&self, kind: &str, req: &str) {
        let mut c = self.ctx.borrow_mut();
        let rid = self.rid.clone();
        c.emit(json!({"a":"Fault","r":rid,"kind":kind,"req":req}));
    }
}

#[async_trait(?Send)]
impl Server for Gated {
    async fn add_version(
        &mut self,
        parent: VersionId,
        hs: HistorySegment,
    ) -> Result<(AddVersionResult, SnapshotUrgency), Error> {
        let d = self.gate("add_version").await;
        if let Decision::FailBefore = d {
            self.fault("before", "add_version");
            return Err(Error::Server("injected failure before add_version".into()));
        }
        let mut c = self.ctx.borrow_mut();
        let c = &mut *c;
        let (ops, wire_ok, wire_err) = parse_version(&mut c.model, &hs);
        let parent_idx = ver_index(&c.ids, parent);
        let accepted = c.ids.is_empty() || parent == c.latest();
        let rid = self.rid.clone();
        let (urg, lost) = match &d {
            Decision::Proceed { urg } => (urg.clone(), false),
            _ => ("none".to_string(), true),
        };
        if accepted {
            let id = Uuid::new_v4();
            c.ids.push(id);
            c.bodies.push(hs);
            let n = c.ids.len();
            c.emit(json!({"a":"Push","r":rid,"parent":parent_idx,"ops":ops,"wire_ok":wire_ok,
                "wire_err":wire_err,"res":"ok","ver":n,"urg":urg,"lost":lost}));
            if lost {
                return Err(Error::Server("injected: reply to add_version lost".into()));
            }
            Ok((AddVersionResult::Ok(id), urgency(&urg)))
        } else {
            let latest = c.latest();
            let n = c.ids.len();
            c.emit(json!({"a":"Push","r":rid,"parent":parent_idx,"ops":ops,"wire_ok":wire_ok,
                "wire_err":wire_err,"res":"expected","ver":n,"urg":"none","lost":lost}));
            if lost {
                return Err(Error::Server("injected: reply to add_version lost".into()));
            }
            Ok((
                AddVersionResult::ExpectedParentVersion(latest),
                SnapshotUrgency::None,
            ))
        }
    }

    async fn get_child_version(&mut self, parent: VersionId) -> Result<GetVersionResult, Error> {
        let d = self.gate("get_child_version").await;
        if !matches!(d, Decision::Proceed { .. }) {
            self.fault("before", "get_child_version");
            return Err(Error::Server("injected failure of get_child_version".into()));
        }
        let mut c = self.ctx.borrow_mut();
        let parent_idx = ver_index(&c.ids, parent);
        let rid = self.rid.clone();
        // child of position p is position p+1 (if stored and not discarded)
        if parent_idx >= 0
            && (parent_idx as usize) < c.ids.len()
            && (parent_idx as usize) >= c.trimmed
        {
            let i = parent_idx as usize;
            let id = c.ids[i];
            let body = if c.restyle == 0 {
                c.bodies[i].clone()
            } else {
                restyle(&c.bodies[i], c.restyle + (i % 3) as u8)
            };
            c.emit(json!({"a":"Pull","r":rid,"parent":parent_idx,"res":"version","ver":i+1}));
            Ok(GetVersionResult::Version {
                version_id: id,
                parent_version_id: parent,
                history_segment: body,
            })
        } else {
            c.emit(json!({"a":"Pull","r":rid,"parent":parent_idx,"res":"none","ver":0}));
            Ok(GetVersionResult::NoSuchVersion)
        }
    }

    async fn add_snapshot(&mut self, version_id: VersionId, snapshot: Snapshot) -> Result<(), Error> {
        let d = self.gate("add_snapshot").await;
        if let Decision::FailBefore = d {
            self.fault("before", "add_snapshot");
            return Err(Error::Server("injected failure before add_snapshot".into()));
        }
        let lost = matches!(d, Decision::LostReply);
        let mut c = self.ctx.borrow_mut();
        let c = &mut *c;
        let ver = ver_index(&c.ids, version_id);
        let rid = self.rid.clone();
        let (tasks, ok, e) = match decode_snapshot(&snapshot) {
            Ok(t) => (tasks_to_json(&mut c.model, &t), true, String::new()),
            Err(e) => (json!([]), false, e),
        };
        let newer = match &c.snapshot {
            None => true,
            Some((v, _)) => ver_index(&c.ids, *v) < ver,
        };
        if ver > 0 && newer {
            c.snapshot = Some((version_id, snapshot));
        }
        c.emit(json!({"a":"Snapshot","r":rid,"ver":ver,"tasks":tasks,"decode_ok":ok,
            "decode_err":e,"lost":lost}));
        if lost {
            return Err(Error::Server("injected: reply to add_snapshot lost".into()));
        }
        Ok(())
    }

    async fn get_snapshot(&mut self) -> Result<Option<(VersionId, Snapshot)>, Error> {
        let d = self.gate("get_snapshot").await;
        if !matches!(d, Decision::Proceed { .. }) {
            self.fault("before", "get_snapshot");
            return Err(Error::Server("injected failure of get_snapshot".into()));
        }
        let mut c = self.ctx.borrow_mut();
        let rid = self.rid.clone();
        match c.snapshot.clone() {
            Some((v, s)) => {
                let ver = ver_index(&c.ids, v);
                c.emit(json!({"a":"GetSnapshot","r":rid,"some":true,"ver":ver}));
                Ok(Some((v, s)))
            }
            None => {
                c.emit(json!({"a":"GetSnapshot","r":rid,"some":false,"ver":0}));
                Ok(None)
            }
        }
    }
}

fn json_str(s: &str, escape_non_ascii: bool) -> String {
    let mut o = String::from("\"");
    for ch in s.chars() {
        match ch {
            '"' => o.push_str("\\\""),
            '\\' => o.push_str("\\\\"),
            '\n' => o.push_str("\\n"),
            '\r' => o.push_str("\\r"),
            '\t' => o.push_str("\\t"),
            c if (c as u32) < 0x20 => o.push_str(&format!("\\u{:04x}", c as u32)),
            c if escape_non_ascii && !c.is_ascii() => {
                let mut buf = [0u16; 2];
                for u in c.encode_utf16(&mut buf) {
                    o.push_str(&format!("\\u{:04x}", u));
                }
            }
            c => o.push(c),
        }
    }
    o.push('"');
    o
}

/// Re-render a version document in another form of the documented format: other key order,
/// other (still RFC 3339, `Z`-suffixed) timestamp precision, insignificant whitespace,
/// \u escapes.  The meaning is unchanged.
pub fn restyle(body: &[u8], style: u8) -> Vec<u8> {
    let doc: Value = match serde_json::from_slice(body) {
        Ok(d) => d,
        Err(_) => return body.to_vec(),
    };
    let ops = match doc.get("operations").and_then(|o| o.as_array()) {
        Some(o) => o,
        None => return body.to_vec(),
    };
    let esc = style % 2 == 0;
    let (sp, nl) = match style % 3 {
        0 => ("", ""),
        1 => (" ", "\n  "),
        _ => ("\t", " "),
    };
    let mut out = format!("{{{nl}\"operations\"{sp}:{sp}[");
    for (i, op) in ops.iter().enumerate() {
        if i > 0 {
            out.push(',');
        }
        out.push_str(nl);
        let (kind, b) = op.as_object().unwrap().iter().next().unwrap();
        let uuid = json_str(b["uuid"].as_str().unwrap(), false);
        if kind == "Update" {
            // a property name may be written with escapes too - JSON lets any character be
            // written as \uXXXX, and encoders that escape non-ASCII (or "/") are common: the
            // first character of the name is escaped in the even styles
            let pname = b["property"].as_str().unwrap();
            let prop = match (esc, pname.chars().next()) {
                (true, Some(c0)) if (c0 as u32) < 0x10000 => {
                    let rest = json_str(&pname[c0.len_utf8()..], esc);
                    format!("\"\\u{:04x}{}", c0 as u32, &rest[1..])
                }
                _ => json_str(pname, esc),
            };
            let val = match &b["value"] {
                Value::String(s) => json_str(s, esc),
                _ => "null".to_string(),
            };
            let ts = b["timestamp"].as_str().unwrap();
            let dt = chrono::DateTime::parse_from_rfc3339(ts)
                .unwrap()
                .with_timezone(&chrono::Utc);
            // another precision that denotes exactly the same instant
            let ns = dt.timestamp_subsec_nanos();
            let ts2 = if ns == 0 && style % 4 == 2 {
                dt.format("%Y-%m-%dT%H:%M:%SZ").to_string()
            } else if ns % 1_000_000 == 0 && style % 4 == 0 {
                dt.format("%Y-%m-%dT%H:%M:%S%.3fZ").to_string()
            } else if ns % 1_000 == 0 && style % 4 == 1 {
                dt.format("%Y-%m-%dT%H:%M:%S%.6fZ").to_string()
            } else {
                dt.format("%Y-%m-%dT%H:%M:%S%.9fZ").to_string()
            };
            // documented fields, in an order this implementation does not emit
            out.push_str(&format!(
                "{{{sp}\"Update\"{sp}:{sp}{{\"timestamp\":{sp}\"{ts2}\",{sp}\"value\":{sp}{val},{sp}\"property\":{sp}{prop},{sp}\"uuid\":{sp}{uuid}}}{sp}}}"
            ));
        } else {
            out.push_str(&format!("{{{sp}\"{kind}\"{sp}:{sp}{{{sp}\"uuid\"{sp}:{sp}{uuid}{sp}}}}}"));
        }
    }
    out.push_str(&format!("{nl}]{nl}}}"));
    out.into_bytes()
}
