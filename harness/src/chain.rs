//! A harness-side `Server` implementing the abstract version-chain protocol literally
//! (ChainServer.tla), shared by all replicas, each request passing a gate owned by a
//! deterministic scheduler; every request and reply is logged as a trace event.
use crate::model::{tasks_to_json, ver_index, Model};
use async_trait::async_trait;
use serde_json::{json, Value};
use std::cell::RefCell;
use std::collections::BTreeMap;
use std::io::Read;
use std::rc::Rc;
use taskchampion::server::{
    AddVersionResult, GetVersionResult, HistorySegment, Server, Snapshot, SnapshotUrgency,
    VersionId,
};
use taskchampion::{Error, Uuid};
use tokio::sync::mpsc::{UnboundedReceiver as Rx, UnboundedSender as Tx};

pub struct Ctx {
    pub model: Model,
    pub ids: Vec<Uuid>,
    pub bodies: Vec<Vec<u8>>,
    pub snapshot: Option<(Uuid, Vec<u8>)>,
    pub lines: Vec<Value>,
    /// number of versions the server has discarded from the front of the chain
    pub trimmed: usize,
}

impl Ctx {
    pub fn new(model: Model) -> Self {
        Ctx {
            model,
            ids: vec![],
            bodies: vec![],
            snapshot: None,
            lines: vec![],
            trimmed: 0,
        }
    }
    pub fn latest(&self) -> Uuid {
        self.ids.last().copied().unwrap_or(Uuid::nil())
    }
    pub fn emit(&mut self, v: Value) {
        self.lines.push(v);
    }
}

pub type SharedCtx = Rc<RefCell<Ctx>>;

#[derive(Debug, Clone)]
pub enum Decision {
    Proceed { urg: String },
    FailBefore,
    LostReply,
}

#[derive(Debug)]
pub enum Ev {
    Arrived(&'static str),
    Finished(Result<(), String>),
}

pub struct Gated {
    pub rid: String,
    pub idx: usize,
    pub ctx: SharedCtx,
    pub ev: Tx<(usize, Ev)>,
    pub grant: Rx<Decision>,
    /// when false the server does not gate (sequential use)
    pub gated: bool,
}

fn urgency(s: &str) -> SnapshotUrgency {
    match s {
        "high" => SnapshotUrgency::High,
        "low" => SnapshotUrgency::Low,
        _ => SnapshotUrgency::None,
    }
}

/// Parse a version body as generic JSON and project it to the trace form.
pub fn parse_version(m: &mut Model, hs: &[u8]) -> (Value, bool, String) {
    let text = match std::str::from_utf8(hs) {
        Ok(t) => t,
        Err(e) => return (json!([]), false, format!("not UTF-8: {e}")),
    };
    let doc: Value = match serde_json::from_str(text) {
        Ok(d) => d,
        Err(e) => return (json!([]), false, format!("not JSON: {e}")),
    };
    let obj = match doc.as_object() {
        Some(o) => o,
        None => return (json!([]), false, "version is not an object".into()),
    };
    if obj.len() != 1 || !obj.contains_key("operations") {
        return (
            json!([]),
            false,
            format!("version has keys {:?}", obj.keys().collect::<Vec<_>>()),
        );
    }
    let arr = match obj["operations"].as_array() {
        Some(a) => a,
        None => return (json!([]), false, "operations is not an array".into()),
    };
    let mut out = vec![];
    for w in arr {
        match m.wire_op_to_json(w) {
            Ok(j) => out.push(j),
            Err(e) => return (Value::Array(out), false, e),
        }
    }
    (Value::Array(out), true, String::new())
}

/// Decode a snapshot independently of the crate: zlib + JSON object uuid -> {prop: value}.
pub fn decode_snapshot(
    snap: &[u8],
) -> Result<BTreeMap<Uuid, BTreeMap<String, String>>, String> {
    let mut d = flate2::read::ZlibDecoder::new(snap);
    let mut s = String::new();
    d.read_to_string(&mut s).map_err(|e| e.to_string())?;
    let doc: Value = serde_json::from_str(&s).map_err(|e| e.to_string())?;
    let obj = doc.as_object().ok_or("snapshot is not an object")?;
    let mut out = BTreeMap::new();
    for (k, v) in obj {
        let u = Uuid::parse_str(k).map_err(|e| e.to_string())?;
        let mut t = BTreeMap::new();
        for (p, val) in v.as_object().ok_or("task is not an object")? {
            t.insert(p.clone(), val.as_str().ok_or("value not a string")?.to_string());
        }
        out.insert(u, t);
    }
    Ok(out)
}

impl Gated {
    async fn gate(&mut self, what: &'static str) -> Decision {
        if !self.gated {
            return Decision::Proceed { urg: "none".into() };
        }
        self.ev.send((self.idx, Ev::Arrived(what))).unwrap();
        self.grant.recv().await.expect("scheduler gone")
    }
    fn fault(&self, kind: &str, req: &str) {
        let mut c = self.ctx.borrow_mut();
        let rid = self.rid.clone();
        c.emit(json!({"a":"Fault","r":rid,"kind":kind,"req":req}));
    }
}

#[async_trait(?Send)]
impl Server for Gated {
    async fn add_version(
        &mut self,
        parent: VersionId,
        hs: HistorySegment,
    ) -> Result<(AddVersionResult, SnapshotUrgency), Error> {
        let d = self.gate("add_version").await;
        if let Decision::FailBefore = d {
            self.fault("before", "add_version");
            return Err(Error::Server("injected failure before add_version".into()));
        }
        let mut c = self.ctx.borrow_mut();
        let c = &mut *c;
        let (ops, wire_ok, wire_err) = parse_version(&mut c.model, &hs);
        let parent_idx = ver_index(&c.ids, parent);
        let accepted = c.ids.is_empty() || parent == c.latest();
        let rid = self.rid.clone();
        let (urg, lost) = match &d {
            Decision::Proceed { urg } => (urg.clone(), false),
            _ => ("none".to_string(), true),
        };
        if accepted {
            let id = Uuid::new_v4();
            c.ids.push(id);
            c.bodies.push(hs);
            let n = c.ids.len();
            c.emit(json!({"a":"Push","r":rid,"parent":parent_idx,"ops":ops,"wire_ok":wire_ok,
                "wire_err":wire_err,"res":"ok","ver":n,"urg":urg,"lost":lost}));
            if lost {
                return Err(Error::Server("injected: reply to add_version lost".into()));
            }
            Ok((AddVersionResult::Ok(id), urgency(&urg)))
        } else {
            let latest = c.latest();
            let n = c.ids.len();
            c.emit(json!({"a":"Push","r":rid,"parent":parent_idx,"ops":ops,"wire_ok":wire_ok,
                "wire_err":wire_err,"res":"expected","ver":n,"urg":"none","lost":lost}));
            if lost {
                return Err(Error::Server("injected: reply to add_version lost".into()));
            }
            Ok((
                AddVersionResult::ExpectedParentVersion(latest),
                SnapshotUrgency::None,
            ))
        }
    }

    async fn get_child_version(&mut self, parent: VersionId) -> Result<GetVersionResult, Error> {
        let d = self.gate("get_child_version").await;
        if !matches!(d, Decision::Proceed { .. }) {
            self.fault("before", "get_child_version");
            return Err(Error::Server("injected failure of get_child_version".into()));
        }
        let mut c = self.ctx.borrow_mut();
        let parent_idx = ver_index(&c.ids, parent);
        let rid = self.rid.clone();
        // child of position p is position p+1 (if stored and not discarded)
        if parent_idx >= 0
            && (parent_idx as usize) < c.ids.len()
            && (parent_idx as usize) >= c.trimmed
        {
            let i = parent_idx as usize;
            let id = c.ids[i];
            let body = c.bodies[i].clone();
            c.emit(json!({"a":"Pull","r":rid,"parent":parent_idx,"res":"version","ver":i+1}));
            Ok(GetVersionResult::Version {
                version_id: id,
                parent_version_id: parent,
                history_segment: body,
            })
        } else {
            c.emit(json!({"a":"Pull","r":rid,"parent":parent_idx,"res":"none","ver":0}));
            Ok(GetVersionResult::NoSuchVersion)
        }
    }

    async fn add_snapshot(&mut self, version_id: VersionId, snapshot: Snapshot) -> Result<(), Error> {
        let d = self.gate("add_snapshot").await;
        if let Decision::FailBefore = d {
            self.fault("before", "add_snapshot");
            return Err(Error::Server("injected failure before add_snapshot".into()));
        }
        let lost = matches!(d, Decision::LostReply);
        let mut c = self.ctx.borrow_mut();
        let c = &mut *c;
        let ver = ver_index(&c.ids, version_id);
        let rid = self.rid.clone();
        let (tasks, ok, e) = match decode_snapshot(&snapshot) {
            Ok(t) => (tasks_to_json(&mut c.model, &t), true, String::new()),
            Err(e) => (json!([]), false, e),
        };
        let newer = match &c.snapshot {
            None => true,
            Some((v, _)) => ver_index(&c.ids, *v) < ver,
        };
        if ver > 0 && newer {
            c.snapshot = Some((version_id, snapshot));
        }
        c.emit(json!({"a":"Snapshot","r":rid,"ver":ver,"tasks":tasks,"decode_ok":ok,
            "decode_err":e,"lost":lost}));
        if lost {
            return Err(Error::Server("injected: reply to add_snapshot lost".into()));
        }
        Ok(())
    }

    async fn get_snapshot(&mut self) -> Result<Option<(VersionId, Snapshot)>, Error> {
        let d = self.gate("get_snapshot").await;
        if !matches!(d, Decision::Proceed { .. }) {
            self.fault("before", "get_snapshot");
            return Err(Error::Server("injected failure of get_snapshot".into()));
        }
        let mut c = self.ctx.borrow_mut();
        let rid = self.rid.clone();
        match c.snapshot.clone() {
            Some((v, s)) => {
                let ver = ver_index(&c.ids, v);
                c.emit(json!({"a":"GetSnapshot","r":rid,"some":true,"ver":ver}));
                Ok(Some((v, s)))
            }
            None => {
                c.emit(json!({"a":"GetSnapshot","r":rid,"some":false,"ver":0}));
                Ok(None)
            }
        }
    }
}
