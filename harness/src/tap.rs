//! A storage tap: wraps any `Storage` through the public trait, publishes the abstract state
//! seen at the beginning of every transaction and at every successful commit, counts the calls
//! the code under test makes, and can fail or stop the process at the k-th call.
use crate::model::DbState;
use async_trait::async_trait;
use std::collections::BTreeMap;
use std::sync::{Arc, Mutex};
use taskchampion::storage::inmemory::InMemoryStorage;
use taskchampion::storage::{Storage, StorageTxn, TaskMap};
use taskchampion::{Error, Operation, SqliteStorage, Uuid};

type Res<T> = std::result::Result<T, Error>;

#[derive(Clone, Copy, Debug, PartialEq)]
pub enum FailKind {
    /// the k-th call returns an error (before its effect)
    Error,
    /// the process is killed (SIGKILL to self) before the k-th call
    Kill,
    /// the process is killed right after the k-th call returned
    KillAfter,
}

#[derive(Default)]
pub struct TapShared {
    /// state seen at the start of the most recent transaction
    pub begin: Option<DbState>,
    /// states published by successful commits since last drained
    pub commits: Vec<DbState>,
    /// number of StorageTxn calls made by the code under test since `arm`
    pub calls: u64,
    /// names of those calls (kept only when `record` is set)
    pub names: Vec<&'static str>,
    pub record: bool,
    pub fail_at: Option<(u64, FailKind)>,
    pub txns: u64,
    /// when set, the tap does no extra reads (used for timing-sensitive concurrency runs)
    pub quiet: bool,
    /// a working set to be written directly through the storage API at the next transaction
    pub install_ws: Option<Vec<Option<Uuid>>>,
}

pub type Shared = Arc<Mutex<TapShared>>;

pub enum AnyStorage {
    Mem(InMemoryStorage),
    Sql(SqliteStorage),
}

pub struct Tap {
    inner: AnyStorage,
    pub shared: Shared,
}

impl Tap {
    pub fn new(inner: AnyStorage) -> (Tap, Shared) {
        let shared: Shared = Arc::new(Mutex::new(TapShared::default()));
        (
            Tap {
                inner,
                shared: shared.clone(),
            },
            shared,
        )
    }
}

pub async fn read_state(txn: &mut dyn StorageTxn) -> Res<DbState> {
    let mut tasks = BTreeMap::new();
    for (u, t) in txn.all_tasks().await? {
        tasks.insert(u, t.into_iter().collect::<BTreeMap<_, _>>());
    }
    Ok(DbState {
        tasks,
        ops: txn.unsynced_operations().await?,
        base: txn.base_version().await?,
        ws: txn.get_working_set().await?,
    })
}

struct TapTxn<'a> {
    inner: Box<dyn StorageTxn + Send + 'a>,
    shared: Shared,
}

impl TapTxn<'_> {
    fn enter(&self, name: &'static str) -> Res<()> {
        let mut s = self.shared.lock().unwrap();
        s.calls += 1;
        if s.record {
            s.names.push(name);
        }
        if let Some((k, kind)) = s.fail_at {
            if s.calls == k {
                match kind {
                    FailKind::Error => {
                        s.fail_at = None;
                        return Err(Error::Database(format!(
                            "injected storage failure at call {k} ({name})"
                        )));
                    }
                    FailKind::Kill => kill_self(),
                    FailKind::KillAfter => {}
                }
            }
        }
        Ok(())
    }
    fn leave(&self) {
        let s = self.shared.lock().unwrap();
        if let Some((k, FailKind::KillAfter)) = s.fail_at {
            if s.calls == k {
                kill_self();
            }
        }
    }
}

pub fn kill_self() -> ! {
    unsafe {
        libc::kill(libc::getpid(), libc::SIGKILL);
    }
    loop {
        std::thread::sleep(std::time::Duration::from_secs(1));
    }
}

macro_rules! tapped {
    ($self:ident, $name:literal, $call:expr) => {{
        $self.enter($name)?;
        let r = $call;
        $self.leave();
        r
    }};
}

#[async_trait]
impl StorageTxn for TapTxn<'_> {
    async fn get_task(&mut self, uuid: Uuid) -> Res<Option<TaskMap>> {
        tapped!(self, "get_task", self.inner.get_task(uuid).await)
    }
    async fn get_pending_tasks(&mut self) -> Res<Vec<(Uuid, TaskMap)>> {
        tapped!(self, "get_pending_tasks", self.inner.get_pending_tasks().await)
    }
    async fn create_task(&mut self, uuid: Uuid) -> Res<bool> {
        tapped!(self, "create_task", self.inner.create_task(uuid).await)
    }
    async fn set_task(&mut self, uuid: Uuid, task: TaskMap) -> Res<()> {
        tapped!(self, "set_task", self.inner.set_task(uuid, task).await)
    }
    async fn delete_task(&mut self, uuid: Uuid) -> Res<bool> {
        tapped!(self, "delete_task", self.inner.delete_task(uuid).await)
    }
    async fn all_tasks(&mut self) -> Res<Vec<(Uuid, TaskMap)>> {
        tapped!(self, "all_tasks", self.inner.all_tasks().await)
    }
    async fn all_task_uuids(&mut self) -> Res<Vec<Uuid>> {
        tapped!(self, "all_task_uuids", self.inner.all_task_uuids().await)
    }
    async fn base_version(&mut self) -> Res<Uuid> {
        tapped!(self, "base_version", self.inner.base_version().await)
    }
    async fn set_base_version(&mut self, version: Uuid) -> Res<()> {
        tapped!(self, "set_base_version", self.inner.set_base_version(version).await)
    }
    async fn get_task_operations(&mut self, uuid: Uuid) -> Res<Vec<Operation>> {
        tapped!(self, "get_task_operations", self.inner.get_task_operations(uuid).await)
    }
    async fn unsynced_operations(&mut self) -> Res<Vec<Operation>> {
        tapped!(self, "unsynced_operations", self.inner.unsynced_operations().await)
    }
    async fn num_unsynced_operations(&mut self) -> Res<usize> {
        tapped!(self, "num_unsynced_operations", self.inner.num_unsynced_operations().await)
    }
    async fn add_operation(&mut self, op: Operation) -> Res<()> {
        tapped!(self, "add_operation", self.inner.add_operation(op).await)
    }
    async fn remove_operation(&mut self, op: Operation) -> Res<()> {
        tapped!(self, "remove_operation", self.inner.remove_operation(op).await)
    }
    async fn sync_complete(&mut self) -> Res<()> {
        tapped!(self, "sync_complete", self.inner.sync_complete().await)
    }
    async fn get_working_set(&mut self) -> Res<Vec<Option<Uuid>>> {
        tapped!(self, "get_working_set", self.inner.get_working_set().await)
    }
    async fn add_to_working_set(&mut self, uuid: Uuid) -> Res<usize> {
        tapped!(self, "add_to_working_set", self.inner.add_to_working_set(uuid).await)
    }
    async fn set_working_set_item(&mut self, index: usize, uuid: Option<Uuid>) -> Res<()> {
        tapped!(self, "set_working_set_item", self.inner.set_working_set_item(index, uuid).await)
    }
    async fn clear_working_set(&mut self) -> Res<()> {
        tapped!(self, "clear_working_set", self.inner.clear_working_set().await)
    }
    async fn is_empty(&mut self) -> Res<bool> {
        tapped!(self, "is_empty", self.inner.is_empty().await)
    }
    async fn commit(&mut self) -> Res<()> {
        self.enter("commit")?;
        let quiet = self.shared.lock().unwrap().quiet;
        let st = if quiet { None } else { Some(read_state(self.inner.as_mut()).await?) };
        let r = self.inner.commit().await;
        if r.is_ok() {
            if let Some(st) = st {
                self.shared.lock().unwrap().commits.push(st);
            }
        }
        self.leave();
        r
    }
}

#[async_trait]
impl Storage for Tap {
    async fn txn<'a>(&'a mut self) -> Res<Box<dyn StorageTxn + Send + 'a>> {
        let install = self.shared.lock().unwrap().install_ws.take();
        if let Some(ws) = install {
            // positions 1.. of the wanted working set; gaps are made by adding a placeholder
            // and blanking it afterwards
            let mut t = match &mut self.inner {
                AnyStorage::Mem(s) => s.txn().await?,
                AnyStorage::Sql(s) => s.txn().await?,
            };
            t.clear_working_set().await?;
            let dummy = Uuid::from_u128(0xdead);
            for e in ws.iter().skip(1) {
                t.add_to_working_set(e.unwrap_or(dummy)).await?;
            }
            for (i, e) in ws.iter().enumerate().skip(1) {
                if e.is_none() {
                    t.set_working_set_item(i, None).await?;
                }
            }
            t.commit().await?;
        }
        let mut inner = match &mut self.inner {
            AnyStorage::Mem(s) => s.txn().await?,
            AnyStorage::Sql(s) => s.txn().await?,
        };
        let quiet = self.shared.lock().unwrap().quiet;
        if !quiet {
            let st = read_state(inner.as_mut()).await?;
            let mut s = self.shared.lock().unwrap();
            s.begin = Some(st);
            s.txns += 1;
        }
        Ok(Box::new(TapTxn {
            inner,
            shared: self.shared.clone(),
        }))
    }
}
