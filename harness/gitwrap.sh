#!/bin/bash
# git wrapper used as ServerConfig::Git::git_path by the verification harness: fails the n-th
# invocation of a chosen git sub-command, before or after running it.
# Control file ($GITFAULT_CTL): "<subcommand> <n> <before|after>"; it is consumed when it fires.
ctl="${GITFAULT_CTL:-/nonexistent}"
if [ -f "$ctl" ]; then
  read -r sub n when < "$ctl"
  if [ "$1" = "$sub" ]; then
    cnt_file="$ctl.count"
    c=$(( $(cat "$cnt_file" 2>/dev/null || echo 0) + 1 ))
    echo "$c" > "$cnt_file"
    if [ "$c" = "$n" ]; then
      rm -f "$ctl" "$cnt_file"
      if [ "$when" = "after" ]; then git "$@" >/dev/null 2>&1; fi
      echo "injected failure of git $1" >&2
      exit 1
    fi
  fi
fi
exec git "$@"
