#!/bin/bash
# git wrapper used as ServerConfig::Git::git_path by the verification harness: fails the n-th
# invocation of chosen git sub-commands, before or after running them.
# Control file ($GITFAULT_CTL): one rule per line "<subcommand> <n> <before|after|stop|stopafter>";
# a rule is consumed when it fires.  "stop" / "stopafter" emulate a process that stops at that
# command (before / after it ran): from then on EVERY git command fails until the harness, which
# then discards the server object as a restart would, removes $GITFAULT_CTL.dead.
ctl="${GITFAULT_CTL:-/nonexistent}"
if [ -f "$ctl.dead" ]; then
  echo "injected stop: the process is gone (git $1)" >&2
  exit 1
fi
# Backdating: while the file $GITFAULT_CTL.backdate exists, commits are made with the committer
# and author date it holds (seconds since the epoch), so that the backend's retention rule
# (age of the commit that last touched a version file) can be exercised without waiting 180 days.
if [ "$1" = "commit" ] && [ -f "$ctl.backdate" ]; then
  d=$(cat "$ctl.backdate")
  export GIT_COMMITTER_DATE="@$d +0000" GIT_AUTHOR_DATE="@$d +0000"
fi
if [ -f "$ctl" ]; then
  i=0
  while read -r sub n when; do
    i=$((i+1))
    [ -z "$sub" ] && continue
    if [ "$1" = "$sub" ]; then
      cnt_file="$ctl.count.$sub.$n.$when"
      c=$(( $(cat "$cnt_file" 2>/dev/null || echo 0) + 1 ))
      echo "$c" > "$cnt_file"
      if [ "$c" = "$n" ]; then
        # consume this rule
        grep -v -x "$sub $n $when" "$ctl" > "$ctl.tmp"; mv "$ctl.tmp" "$ctl"
        rm -f "$cnt_file"
        [ -s "$ctl" ] || rm -f "$ctl"
        if [ "$when" = "after" ] || [ "$when" = "stopafter" ]; then git "$@" >/dev/null 2>&1; fi
        if [ "$when" = "stop" ] || [ "$when" = "stopafter" ]; then : > "$ctl.dead"; fi
        echo "injected failure of git $1" >&2
        exit 1
      fi
    fi
  done < "$ctl"
fi
exec git "$@"
