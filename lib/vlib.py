"""Common machinery for the /verif checks: building the harness, running TLC (model checking,
simulation, trace validation), extracting schedules from TLC, evidence and verdict files."""
import json
import os
import re
import shutil
import subprocess
import sys
import time

VERIF = os.path.dirname(os.path.dirname(os.path.abspath(__file__)))
SPEC = os.path.join(VERIF, "spec")
HARNESS = os.path.join(VERIF, "harness")
WORK = os.path.join(VERIF, "work")
EVID = os.path.join(VERIF, "evidence")
REPLAY = os.path.join(WORK, "replay")
BIN = os.path.join(HARNESS, "target", "debug", "tcverif")
GUARD = "gothenburgbitfactory_taskchampion_verif"

TLC_WORKERS = int(os.environ.get("VERIF_TLC_WORKERS", "8"))


class ToolError(Exception):
    pass


def log(*a):
    print(*a, flush=True)


def seed():
    try:
        return int(os.environ.get("VERIF_SEED", "1"))
    except ValueError:
        return 1


def workdir(name):
    d = os.path.join(WORK, name)
    if os.path.isdir(d):
        shutil.rmtree(d)
    os.makedirs(d)
    os.makedirs(REPLAY, exist_ok=True)
    return d


def build_harness():
    """(Re)build the harness against /repo's current working tree, hooks enabled."""
    t0 = time.time()
    lock_src = "/repo/Cargo.lock"
    lock_dst = os.path.join(HARNESS, "Cargo.lock")
    if not os.path.exists(lock_dst):
        shutil.copy(lock_src, lock_dst)
    env = dict(os.environ)
    env["CARGO_NET_OFFLINE"] = "true"
    p = subprocess.run(
        ["cargo", "build", "--offline", "-q"],
        cwd=HARNESS, env=env, stdout=subprocess.PIPE, stderr=subprocess.STDOUT, text=True,
    )
    if p.returncode != 0:
        log(p.stdout[-4000:])
        raise ToolError("harness build failed (the tree under /repo does not compile with the "
                        "harness; this is a tool error, not a verdict)")
    log(f"[build] harness built in {time.time() - t0:.1f}s")
    return BIN


def run_harness(args, timeout=7200, cwd=None):
    p = subprocess.run([BIN] + args, stdout=subprocess.PIPE, stderr=subprocess.PIPE, text=True,
                       timeout=timeout, cwd=cwd)
    if p.returncode != 0:
        log(p.stdout[-2000:])
        log(p.stderr[-4000:])
        raise ToolError(f"harness {' '.join(args[:1])} exited {p.returncode}")
    return p


# ---------------------------------------------------------------------------------------------
# cfg generation

def tla_val(v):
    if isinstance(v, bool):
        return "TRUE" if v else "FALSE"
    if isinstance(v, int):
        return str(v)
    if isinstance(v, str):
        return json.dumps(v)
    if isinstance(v, (set, frozenset, list, tuple)):
        items = sorted(v, key=lambda x: (str(type(x)), x))
        return "{" + ", ".join(tla_val(x) for x in items) + "}"
    raise ValueError(v)


def write_cfg(path, constants, init=None, next_=None, spec=None, invariants=(), view=None,
              postcondition=None, constraint=None, properties=(), subst=None):
    lines = ["CONSTANTS"]
    for k, v in constants.items():
        lines.append(f"  {k} = {tla_val(v)}")
    for k, v in (subst or {}).items():
        lines.append(f"  {k} <- {v}")
    if spec:
        lines.append(f"SPECIFICATION {spec}")
    else:
        lines.append(f"INIT {init}")
        lines.append(f"NEXT {next_}")
    if view:
        lines.append(f"VIEW {view}")
    if constraint:
        lines.append(f"CONSTRAINT {constraint}")
    for i in invariants:
        lines.append(f"INVARIANT {i}")
    for p in properties:
        lines.append(f"PROPERTY {p}")
    if postcondition:
        lines.append(f"POSTCONDITION {postcondition}")
    lines.append("CHECK_DEADLOCK FALSE")
    with open(path, "w") as f:
        f.write("\n".join(lines) + "\n")
    return path


# ---------------------------------------------------------------------------------------------
# TLC

def _tlc_cmd(module, cfg, metadir, workers, extra):
    return ["tlc", "-workers", str(workers), "-metadir", metadir, "-cleanup", "-noGenerateSpecTE",
            "-config", cfg] + extra + [os.path.join(SPEC, module)]


def parse_tlc(out):
    r = {"states": 0, "distinct": 0, "depth": 0, "violated": None, "error": None,
         "completed": False}
    m = re.findall(r"(\d[\d,]*) states generated, (\d[\d,]*) distinct states found", out)
    if m:
        r["states"] = int(m[-1][0].replace(",", ""))
        r["distinct"] = int(m[-1][1].replace(",", ""))
    m = re.search(r"The number of states generated: (\d[\d,]*)", out)
    if m:
        r["states"] = int(m.group(1).replace(",", ""))
        r["distinct"] = r["states"]
    m = re.search(r"depth of the complete state graph search is (\d+)", out)
    if m:
        r["depth"] = int(m.group(1))
    m = re.search(r"Error: Invariant (\S+) is violated", out)
    if m:
        r["violated"] = m.group(1)
    m = re.search(r"Error: Action property (\S+)", out)
    if m and not r["violated"]:
        r["violated"] = m.group(1)
    if "Model checking completed. No error has been found." in out:
        r["completed"] = True
    if re.search(r"Finished in", out) and "-simulate" in out:
        r["completed"] = True
    if r["violated"] is None and not r["completed"]:
        m = re.search(r"Error: (.*)", out)
        if m:
            r["error"] = m.group(1)[:500]
    return r


def tlc_check(wd, name, module, cfg, timeout=600, workers=None, simulate=None, depth=None,
              seed_=None, coverage=False):
    """Run TLC (exhaustive, or simulation when `simulate` = number of behaviours)."""
    metadir = os.path.join(wd, "tlc_" + name)
    outp = os.path.join(wd, name + ".out")
    extra = []
    if simulate:
        extra += ["-simulate", f"num={simulate}", "-depth", str(depth or 50)]
        if seed_ is not None:
            extra += ["-seed", str(seed_)]
        workers = 1 if workers is None else workers
    if coverage:
        extra += ["-coverage", "1"]
    workers = workers or TLC_WORKERS
    cmd = ["timeout", str(timeout)] + _tlc_cmd(module, cfg, metadir, workers, extra)
    t0 = time.time()
    env = dict(os.environ)
    env.setdefault("JAVA_TOOL_OPTIONS", "-Xss512m")
    with open(outp, "w") as f:
        p = subprocess.run(cmd, stdout=f, stderr=subprocess.STDOUT, env=env, cwd=wd)
    # statistics and errors are outside the (possibly very many) REPLAY lines
    out = "".join(l for l in open(outp, errors="replace") if not l.startswith('<<"REPLAY"'))
    r = parse_tlc(out)
    r["simulate"] = bool(simulate)
    if coverage:
        # per-action counts "distinct:generated" of the last coverage report
        cov = {}
        for m in re.finditer(r"^<(\w+) line \d+, col \d+ to line \d+, col \d+ of module (\w+)>: (\d+):(\d+)",
                             out, flags=re.M):
            cov[m.group(2) + "." + m.group(1)] = (int(m.group(3)), int(m.group(4)))
        r["coverage"] = cov
    if simulate and p.returncode == 0:
        r["completed"] = True
    r["timed_out"] = p.returncode == 124
    r["rc"] = p.returncode
    r["wall_s"] = round(time.time() - t0, 1)
    r["out"] = outp
    r["name"] = name
    shutil.rmtree(metadir, ignore_errors=True)
    return r


def replay_lines(outp):
    """The REPLAY lines (one JSON schedule per finished behaviour) printed by a TLC run."""
    res = []
    seen = set()
    with open(outp, errors="replace") as f:
        for line in f:
            if line.startswith('<<"REPLAY"'):
                m = re.match(r'<<"REPLAY", (".*")>>\s*$', line)
                if not m:
                    continue
                s = json.loads(m.group(1))
                if s in seen:
                    continue
                seen.add(s)
                res.append(json.loads(s))
    return res


def drop_prefixes(schedules):
    """Remove schedules that are a strict prefix of another one."""
    keyed = sorted((json.dumps(s) for s in schedules))
    out = []
    strs = [k[:-1] for k in keyed]  # without the closing bracket
    for i, k in enumerate(strs):
        if i + 1 < len(strs) and strs[i + 1].startswith(k + ","):
            continue
        out.append(json.loads(keyed[i]))
    return out


def tlc_trace(wd, name, module, cfg, trace, timeout=900):
    """Validate an ndjson trace against a Trace*.tla specification."""
    metadir = os.path.join(wd, "tlc_" + name)
    outp = os.path.join(wd, name + ".out")
    env = dict(os.environ)
    env["TRACE"] = trace
    env["JAVA_TOOL_OPTIONS"] = "-Xss1g -Dtlc2.tool.queue.IStateQueue=StateDeque"
    cmd = ["timeout", str(timeout)] + _tlc_cmd(module, cfg, metadir, 1, [])
    t0 = time.time()
    with open(outp, "w") as f:
        p = subprocess.run(cmd, stdout=f, stderr=subprocess.STDOUT, env=env, cwd=wd)
    out = open(outp, errors="replace").read()
    r = parse_tlc(out)
    r["rc"] = p.returncode
    r["timed_out"] = p.returncode == 124
    r["wall_s"] = round(time.time() - t0, 1)
    r["out"] = outp
    r["rejected_at"] = None
    r["event"] = None
    m = re.search(r'<<"TRACE-REJECTED-AT", (\d+), (".*")>>', out)
    if m:
        r["rejected_at"] = int(m.group(1))
        try:
            r["event"] = json.loads(json.loads(m.group(2)))
        except Exception:
            r["event"] = m.group(2)
    r["accepted"] = (r["completed"] and r["violated"] is None and r["rejected_at"] is None
                     and p.returncode == 0)
    # an invariant violated while following the trace: TLC reports the state number through
    # the length of the printed behaviour
    if r["violated"]:
        m = re.findall(r"^State (\d+):", out, flags=re.M)
        if m:
            r["violated_at_state"] = int(m[-1])
            mm = re.findall(r"/\\ l = (\d+)", out)
            if mm:
                r["violated_at_line"] = int(mm[-1]) - 1
    shutil.rmtree(metadir, ignore_errors=True)
    return r


def split_behaviours(trace_path):
    """Split a concatenated trace into behaviours at Reset events: list of (first_line_no, lines)"""
    res = []
    cur = None
    with open(trace_path) as f:
        for i, line in enumerate(f, 1):
            if '"a":"Reset"' in line:
                cur = (i, [])
                res.append(cur)
            if cur is None:
                cur = (i, [])
                res.append(cur)
            cur[1].append(line)
    return res


def behaviour_at(trace_path, line_no):
    """The behaviour (id, lines, offset in behaviour) containing the given 1-based line."""
    bs = split_behaviours(trace_path)
    for k, (start, lines) in enumerate(bs):
        if start <= line_no < start + len(lines):
            return k, lines, line_no - start
    return None, [], 0


# ---------------------------------------------------------------------------------------------
# verdicts and evidence

def write_replay(pid, name, payload):
    os.makedirs(REPLAY, exist_ok=True)
    p = os.path.join(REPLAY, f"{pid}-{name}.json")
    with open(p, "w") as f:
        json.dump(payload, f, indent=1)
    return p


def load_known():
    p = os.path.join(VERIF, "known-findings.json")
    if not os.path.exists(p):
        return []
    return json.load(open(p)).get("findings", [])


def write_evidence(pid, tier, level, coverage, wall_s, violations=0, assumptions=()):
    os.makedirs(EVID, exist_ok=True)
    ev = {
        "property_id": pid,
        "tier": tier,
        "seed": seed(),
        "level": level,
        "coverage": coverage,
        "assumptions": list(assumptions),
        "wall_s": round(wall_s, 1),
        "violations": violations,
    }
    with open(os.path.join(EVID, f"{pid}.json"), "w") as f:
        json.dump(ev, f, indent=1)
    return ev


class Verdict:
    """Collects the outcome of the steps of one check."""

    def __init__(self, pid, tier):
        self.pid = pid
        self.tier = tier
        self.t0 = time.time()
        self.violations = []   # (what, replay_path)
        self.known = []
        self.drift = []
        self.steps = []
        self.states = 0
        self.transitions = 0
        self.traces = 0
        self.events = 0
        self.samples = []
        self.evaluations = 0
        self.distinct = 0
        self.extra = {}
        self.tool_errors = []

    def mc(self, r, expect_violation=None):
        """Account for a model-checking run.  `expect_violation`: name of the invariant that
        MUST be violated (anti-vacuity runs of a named deviation)."""
        step = {"step": r["name"], "kind": "tlc-simulate" if r.get("simulate") else "tlc-exhaustive",
                "states_generated": r["states"], "distinct_states": r["distinct"],
                "depth": r["depth"], "wall_s": r["wall_s"], "timed_out": r["timed_out"],
                "violated": r["violated"]}
        self.steps.append(step)
        if expect_violation:
            step["expected_violation"] = expect_violation
            if r["violated"] is None:
                self.tool_errors.append(
                    f"anti-vacuity run {r['name']} did not violate {expect_violation}")
            return
        self.states += r["distinct"]
        self.transitions += r["states"]
        if r.get("coverage"):
            never = sorted(a for a, (d, g) in r["coverage"].items() if g == 0)
            step["actions_fired"] = {a: g for a, (d, g) in sorted(r["coverage"].items())}
            step["actions_never_fired"] = never
            if never:
                self.tool_errors.append(f"{r['name']}: actions never taken (vacuity): {never}")
        if r["violated"]:
            p = write_replay(self.pid, r["name"], {"kind": "tlc-counterexample",
                                                  "invariant": r["violated"], "tlc_output": r["out"]})
            self.violations.append((f"specification violates {r['violated']} in {r['name']}", p))
        elif r["error"] or (not r["completed"] and not r["timed_out"]):
            self.tool_errors.append(f"TLC run {r['name']} failed: {r['error']} (see {r['out']})")
        elif r["timed_out"]:
            step["note"] = "stopped by timeout; counts are those reached"

    def finish(self, level, rule, assumptions=(), exhaustive=False, extra=None):
        wall = time.time() - self.t0
        cov = {
            "states": max(self.states, 0),
            "transitions": max(self.transitions, 0),
            "traces_validated_against_impl": self.traces,
            "events_validated": self.events,
            "samples": self.samples[:5] if self.samples else ["(none)"],
            "evaluations": self.evaluations,
            "distinct_nontrivial": self.distinct,
            "rule": rule,
            "exhaustive": exhaustive,
            "steps": self.steps,
            "spec_drift": self.drift,
            "known_findings_reported": self.known,
        }
        cov.update(self.extra)
        if extra:
            cov.update(extra)
        if self.tool_errors:
            cov["tool_errors"] = self.tool_errors
        write_evidence(self.pid, self.tier, level, cov, wall, len(self.violations), assumptions)
        for k in self.known:
            log(f"KNOWN-FINDING: property={self.pid} {k}")
        for d in self.drift:
            log(f"SPEC-DRIFT property={self.pid} {d}")
        if self.violations:
            for e in self.tool_errors:
                log(f"TOOL-ERROR {e}")
            for what, path in self.violations:
                log(f"  violation: {what}")
                log(f"VIOLATION property={self.pid} replay={path}")
            sys.exit(1)
        if self.tool_errors:
            for e in self.tool_errors:
                log(f"TOOL-ERROR {e}")
            sys.exit(2)
        log(f"OK property={self.pid} tier={self.tier} states={self.states} "
            f"traces={self.traces} events={self.events} wall={wall:.0f}s")
        sys.exit(0)
