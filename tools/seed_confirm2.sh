#!/bin/bash
# like seed_confirm.sh but keeps extra wiring hunks in the worktree (demo is a unit test)
wt=$1; cd $wt || exit 2
out=$wt/confirm.txt; : > $out
demo=$(python3 -c "import json;print(json.load(open('meta.json'))['demo_cmd'])")
echo "== suite with change (+ demo wiring)" >> $out
cargo nextest run --workspace --no-fail-fast --offline --test-threads 6 --build-jobs 8 2>&1 | grep -E "Summary|^\s+FAIL" | sort -u >> $out
echo "== demo with change: $demo" >> $out
( eval "$demo" ) 2>&1 | grep -E "Summary|test result" >> $out
git apply -R patch.diff
echo "== demo without change" >> $out
( eval "$demo" ) 2>&1 | grep -E "Summary|test result" >> $out
git apply patch.diff
echo "== done" >> $out
