#!/bin/bash
# usage: run_all.sh [quick|thorough]   runs every registered check in turn in /verif against /repo,
# rewriting evidence/<id>.json; prints one line per check with its exit code and wall time
tier=${1:-quick}
cd "$(dirname "$0")/.." || exit 2
mkdir -p work
for id in $(jq -r '.checks[].property_id' MANIFEST.json); do
  t0=$(date +%s)
  bin/check $id --tier $tier > work/all-$id.log 2>&1; rc=$?
  echo "$id rc=$rc $(( $(date +%s) - t0 ))s $(grep -c '^VIOLATION' work/all-$id.log) violations $(grep -c '^SPEC-DRIFT' work/all-$id.log) drift"
done
