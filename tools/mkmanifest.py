#!/usr/bin/env python3
"""Regenerates /verif/MANIFEST.json from the table below (single source of truth)."""
import json, os
V = os.path.dirname(os.path.dirname(os.path.abspath(__file__)))
ids = [json.loads(l)["id"] for l in open(os.path.join(V, "properties.jsonl"))]

MC = "model_checking"
CHECKS = {}
D = os.path.join(V, "checks", "manifest.d")
for f in sorted(os.listdir(D)):
    if f.endswith(".json"):
        CHECKS[f[:-5]] = json.load(open(os.path.join(D, f)))

def check(pid, c):
    return {
        "property_id": pid,
        "quick_cmd": f"bin/check {pid} --tier quick",
        "thorough_cmd": f"bin/check {pid} --tier thorough",
        "evidence_file": f"evidence/{pid}.json",
        "replay_cmd_template": "bin/check --replay {path}",
        "engine": "tla-tlc-conformance",
        "level_claimed": {"category": c.get("level", MC), "text": c["text"], "design_ref": "DESIGN.md section " + c["sec"]},
        "level_note": c["note"],
        "technique": c["tech"],
    }

NA = {}
man = {
 "version": 1,
 "setup_cmd": "cd harness && cp -n /repo/Cargo.lock Cargo.lock; CARGO_NET_OFFLINE=true cargo build --offline -q",
 "hooks": {
   "guard": "gothenburgbitfactory_taskchampion_verif",
   "enable": "harness/.cargo/config.toml passes --cfg gothenburgbitfactory_taskchampion_verif to rustc for the harness build (which compiles /repo as a path dependency)",
   "baseline_off_cmd": "cd /repo && cargo nextest run --workspace --no-fail-fast --offline --test-threads 8 || cargo test --workspace --no-fail-fast --offline",
   "source_commits": ["e7a49da", "2dbacfd", "59506c6", "a7aa84d"],
   "add_only": True,
 },
 "engines": [{"name": "tla-tlc-conformance", "path": "bin/check", "serves_properties": sorted(CHECKS),
              "kind_free_text": "TLA+ specifications under spec/ checked by TLC (exhaustive / simulation); TLC-generated schedules replayed on the real crate by the Rust harness under harness/; recorded ndjson traces validated against Trace*.tla by TLC"}],
 "checks": [check(p, CHECKS[p]) for p in ids if p in CHECKS],
 "notes": "Checks are registered one by one once they pass on the tree as it stands. Genuine defects repaired in /repo are listed in known-findings.json (fixed).",
 "not_applicable": [{"property_id": p, "reason": NA.get(p, "check not built yet (work in progress; see DESIGN.md section 6 for the plan)")} for p in ids if p not in CHECKS],
}
json.dump(man, open(os.path.join(V, "MANIFEST.json"), "w"), indent=1)
print("checks:", [c["property_id"] for c in man["checks"]])
