#!/usr/bin/env python3
"""Regenerates /verif/MANIFEST.json from the table below (single source of truth)."""
import json, os
V = os.path.dirname(os.path.dirname(os.path.abspath(__file__)))
ids = [json.loads(l)["id"] for l in open(os.path.join(V, "properties.jsonl"))]

MC = "model_checking"
CHECKS = {
 "C01": dict(sec="6 C01", tech="TLA+ spec TCSync model-checked with TLC (exhaustive + simulation); TLC-generated histories replayed on real replicas; traces validated against the spec by TLC (TraceSync)",
   text="TLC checks ReplicaInvariant and Converged (tasks = replay of the server chain + pending ops) on every state of the TCSync specification for sequential histories incl. multi-version syncs; the code is bound to the spec by replaying TLC-generated histories on real replicas (in-memory and SQLite) and validating every recorded request, reply and committed state against the spec with the invariants evaluated at every step.",
   note="Bounded: exhaustive for 2-3 replicas, 1 task, <=5 edits; simulation beyond. Trusts the harness chain server (the abstract protocol), TLC, and the tap's read-back of storage."),
 "C02": dict(sec="6 C02", tech="TLC over all request-level interleavings of concurrent syncs (phased initial states); schedules replayed by granting one server request at a time to real Replica::sync futures; TLC trace validation",
   text="Every interleaving at single-request grain of 2 (thorough: 3) concurrent syncs over all prior local histories of <=2 operations is visited by TLC with ReplicaInvariant, Converged, NoOutOfSync and NoDuplicateSend; TLC schedules are replayed deterministically on the real code through a gated server and each request's content is compared with the specification's rebased list.",
   note="Bounded prior histories; requests are atomic at the abstract server; a SPEC mismatch in request shape is reported as a rejection."),
 "C04": dict(sec="6 C04", tech="TLC with abort / lost-reply actions at every program counter of the sync; fault injection on real replicas at every server request and every storage call index; TLC trace validation",
   text="The specification enables an abort at every pc and a lost reply for add_version/add_snapshot; TLC checks ReplicaInvariant, Converged, NoOutOfSync after every fault. On the code, TLC-chosen fault schedules are injected at the gated server and every storage call index 1..45 of a sync transaction is failed; the replica is re-read through a fresh transaction and all replicas are synced to quiescence, validated by TLC against the spec.",
   note="Process stop inside the sync transaction is covered as an abandoned transaction (SQLite kill runs are C06)."),
 "C12": dict(sec="6 C12", tech="TLC on TCSync with all urgency replies and avoid_snapshots; every uploaded snapshot decoded independently (zlib+JSON) and validated against the spec state by TLC trace validation",
   text="SnapshotFaithful (snapshot = replay of the chain up to its version) and convergence of fresh replicas starting from snapshots are invariants checked by TLC over all urgency/threshold combinations and multi-version syncs; on the code every add_snapshot body is decoded by the harness and compared with the specification's task set for that version, with Unicode-heavy values in one family.",
   note="Snapshot compression/JSON decoding by the harness (flate2 + serde_json generic Value) is trusted."),
 "C03": dict(sec="6 C03", tech="TLC over all combinations of concurrent operation families x timestamp orders x sync orders against an oracle written from the documented conflict rules (MCConflict); rounds replayed on real replicas; TLC trace validation",
   text="MCConflict enumerates every pair (thorough: triple) of replicas x operation family x timestamp order x sync order (and a causally later change with arbitrary timestamp) and compares the quiescent state with an oracle that mentions neither the transformation table nor the sync order; the same rounds are executed on real replicas and validated step by step against the specification, so the final state of the code equals the specification state that TLC has shown equal to the oracle.",
   note="For equal timestamps with different values the documentation leaves the winner open and the oracle admits either; families are bounded to <=3 operations on one shared task plus one other task."),
 "C14": dict(sec="6 C14", tech="TLC invariant WireClean on TCSync with undo points and populated deletes; every add_version body parsed as generic JSON with exact field sets and compared with the spec's outgoing list by TLC trace validation; versions served back re-rendered in other documented forms",
   text="The specification states what may be sent (ToSync: only stripped Create/Delete/Update) and TLC checks it on every stored version; on the code each version body is parsed independently of the crate's types (UTF-8, exact field sets, RFC 3339 Z timestamps) and compared with the specification's list; for the converse every pulled version is served in a different rendering of the documented format (key order, whitespace, \\u escapes, timestamp precision) and the replica's resulting state is validated.",
   note="Documented top-level shape per docs/src/sync-protocol.md as corrected by fix a71c422; renderings are value-preserving re-encodings, not arbitrary third-party documents."),
 "C05": dict(sec="6 C05", tech="TLA+ spec TCReplica (documented operation model) + TLC enumeration of all short batches; every batch committed through Replica::commit_operations on both storages; TLC trace validation of the committed state; storage-call fault sweep",
   text="The specification's Commit action is the documented operation model applied one operation at a time; TLC enumerates every batch of length <=2-3 over {create, delete, set, remove, undo point} x 2 tasks, valid or not, on every prior state, and each batch is committed on the real code (in-memory and SQLite); the committed tasks, recorded operations, working set and base version are validated against the specification, with ReplicaInvariant evaluated on every state; every storage call index of a commit is failed to check all-or-nothing.",
   note="Batches bounded in length; with syncs in the history only valid batches are used (operational transformation presupposes valid operations, docs/src/storage.md)."),
 "C07": dict(sec="6 C07", tech="TLC on TCReplica/TCSync undo actions with the property's clauses checked at every undo (MCReplica); behaviours incl. stale lists and syncs replayed on both storages; TLC trace validation incl. the next version sent",
   text="TLC explores commits after undo points, fetching and committing reversals (fresh and stale lists), repeated undo and syncs; at every undo it checks: exact earlier content, exactly those operations withdrawn, success reported; stale list -> unchanged + false; nothing to undo after sync. The behaviours are replayed on the real code; results, states and the contents of later add_version requests are validated against the specification.",
   note="Reversal of operations that were invalid when committed, and the boolean for a lone undo point, are modelled as implemented and not claimed."),
 "C15": dict(sec="6 C15", tech="TLC over all task sets x status mixes x prior working sets x rebuild sequences with the property's clauses as a checked history predicate (MCReplica WInit); same cases replayed on both storages with prior working sets written through the StorageTxn API; TLC trace validation",
   text="The specification models working_set::rebuild including the write-back through set_working_set_item/add_to_working_set; TLC checks the clauses (exactly the pending/recurring tasks once, position 0 empty, numbers stable without renumbering and newcomers after all numbers in use, 1..n in order with renumbering, commit appends) from every prior state; the cases are executed on the real code on both storages and each resulting working set is validated against the specification.",
   note="Tasks <= 3, prior working sets <= 3 (thorough 4) entries in the exhaustive family; longer histories by simulation."),
}

def check(pid, c):
    return {
        "property_id": pid,
        "quick_cmd": f"bin/check {pid} --tier quick",
        "thorough_cmd": f"bin/check {pid} --tier thorough",
        "evidence_file": f"evidence/{pid}.json",
        "replay_cmd_template": "bin/check --replay {path}",
        "engine": "tla-tlc-conformance",
        "level_claimed": {"category": c.get("level", MC), "text": c["text"], "design_ref": "DESIGN.md section " + c["sec"]},
        "level_note": c["note"],
        "technique": c["tech"],
    }

NA = {}
man = {
 "version": 1,
 "setup_cmd": "cd harness && cp -n /repo/Cargo.lock Cargo.lock; CARGO_NET_OFFLINE=true cargo build --offline -q",
 "hooks": {
   "guard": "gothenburgbitfactory_taskchampion_verif",
   "enable": "harness/.cargo/config.toml passes --cfg gothenburgbitfactory_taskchampion_verif to rustc for the harness build (which compiles /repo as a path dependency)",
   "baseline_off_cmd": "cd /repo && cargo nextest run --workspace --no-fail-fast --offline --test-threads 8 || cargo test --workspace --no-fail-fast --offline",
   "source_commits": [],
   "add_only": True,
 },
 "engines": [{"name": "tla-tlc-conformance", "path": "bin/check", "serves_properties": sorted(CHECKS),
              "kind_free_text": "TLA+ specifications under spec/ checked by TLC (exhaustive / simulation); TLC-generated schedules replayed on the real crate by the Rust harness under harness/; recorded ndjson traces validated against Trace*.tla by TLC"}],
 "checks": [check(p, CHECKS[p]) for p in ids if p in CHECKS],
 "notes": "Checks are registered one by one once they pass on the tree as it stands. Genuine defects repaired in /repo are listed in known-findings.json (fixed).",
 "not_applicable": [{"property_id": p, "reason": NA.get(p, "check not built yet (work in progress; see DESIGN.md section 6 for the plan)")} for p in ids if p not in CHECKS],
}
json.dump(man, open(os.path.join(V, "MANIFEST.json"), "w"), indent=1)
print("checks:", [c["property_id"] for c in man["checks"]])
