#!/bin/bash
# usage: seed_confirm.sh <worktree> : confirms a seeded change (suite passes, demo fails with / passes without)
wt=$1; cd $wt || exit 2
out=$wt/confirm.txt; : > $out
git diff -- src > /tmp/confirm-$$.diff
if ! cmp -s <(git diff -- src) patch.diff; then echo "NOTE patch.diff differs from current diff; using patch.diff" >> $out; git checkout -- src; git apply patch.diff || { echo "patch does not apply" >> $out; exit 1; }; fi
demo=$(python3 -c "import json;print(json.load(open('meta.json'))['demo_cmd'])")
echo "== suite with change" >> $out
cargo nextest run --workspace --no-fail-fast --offline --test-threads 6 --build-jobs 8 2>&1 | grep -E "Summary|^\s+FAIL" | sort -u >> $out
echo "== demo with change: $demo" >> $out
( eval "$demo" ) 2>&1 | grep -E "Summary|test result" >> $out
git apply -R patch.diff
echo "== demo without change" >> $out
( eval "$demo" ) 2>&1 | grep -E "Summary|test result" >> $out
git apply patch.diff
echo "== done" >> $out
