#!/bin/bash
# usage: seed_run.sh <seed-id> <check-id>...   applies seeded/<seed-id>/patch.diff to /repo, runs the quick checks, reverts
sid=$1; shift
cd /repo || exit 2
if [ -n "$(git status --porcelain --untracked-files=no)" ]; then echo "/repo not clean"; exit 2; fi
git apply /verif/seeded/$sid/patch.diff || { echo "patch does not apply"; exit 2; }
res=""
for c in "$@"; do
  ( cd /verif && bin/check $c --tier quick > /verif/work/seedrun-$sid-$c.log 2>&1 ); rc=$?
  v=$(grep -c "^VIOLATION" /verif/work/seedrun-$sid-$c.log)
  res="$res $c:rc=$rc,violations=$v"
done
git -C /repo checkout -- .
echo "SEED $sid ->$res"
