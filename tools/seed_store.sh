#!/bin/bash
# usage: seed_store.sh <id>...  : copy a confirmed seeded change from /tmp/seed/<id> to
# /verif/seeded/<id> and remove its scratch worktree
for s in "$@"; do
  src=/tmp/seed/$s
  grep -q "== done" $src/confirm.txt || { echo "$s: not confirmed"; continue; }
  mkdir -p /verif/seeded/$s
  cp $src/patch.diff /verif/seeded/$s/
  cp $src/tests/seeded_demo.rs /verif/seeded/$s/ 2>/dev/null
  cp $src/demo_hook.diff /verif/seeded/$s/ 2>/dev/null
  python3 - $s <<'EOF'
import json,sys,os
s=sys.argv[1]
m=json.load(open(f'/tmp/seed/{s}/meta.json'))
conf=open(f'/tmp/seed/{s}/confirm.txt').read()
head=os.popen('git -C /repo rev-parse --short HEAD').read().strip()
out={"seed":s,"property":m.get("property"),"summary":m.get("summary"),"needs":m.get("needs"),"files":m.get("files"),
     "demo":"seeded_demo.rs (place in /repo/tests/)" if os.path.exists(f'/tmp/seed/{s}/tests/seeded_demo.rs') else "demo_hook.diff (unit test wired into the crate)",
     "demo_cmd":m.get("demo_cmd"),
     "confirmed":{"by":f"tools/seed_confirm.sh in the agent's scratch worktree (commit {head}: all fixes and hooks)",
                  "suite_with_change":"the 361 baseline tests pass (sync_server_tls fails as on the unchanged tree)",
                  "demo_with_change":"fails","demo_without_change":"passes","log":conf},
     "detected_by":"(filled in after running the checks against it)"}
json.dump(out,open(f'/verif/seeded/{s}/meta.json','w'),indent=1)
EOF
  git -C /repo worktree remove --force $src && echo "$s stored"
done
git -C /repo worktree prune
