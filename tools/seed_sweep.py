#!/usr/bin/env python3
"""seed_sweep.py [--slots N] [--tier quick] [--checks C01,C05] [--out FILE] <seed-id>...|all

Runs the registered checks against seeded changes WITHOUT touching /repo: every slot is a scratch
git worktree of /repo (under /tmp/sv/slot<k>/repo) plus a copy of /verif whose harness points at
that worktree.  For each seed: apply seeded/<id>/patch.diff, run the quick check of the property
it breaks (or --checks), record exit code and VIOLATION lines, undo the patch.  Results are
merged into seeded/RESULTS.json (committed; the table in DESIGN.md 11.5 is written from it).
The slots are removed at the end (worktree + build output)."""
import json
import os
import queue
import re
import shutil
import subprocess
import sys
import threading
import time

VERIF = os.path.dirname(os.path.dirname(os.path.abspath(__file__)))
ROOT = "/tmp/sv"


def sh(cmd, **kw):
    return subprocess.run(cmd, shell=True, stdout=subprocess.PIPE, stderr=subprocess.STDOUT, text=True, **kw)


def make_slot(k):
    d = f"{ROOT}/slot{k}"
    if os.path.exists(d):
        sh(f"git -C /repo worktree remove --force {d}/repo")
        shutil.rmtree(d, ignore_errors=True)
    os.makedirs(d)
    r = sh(f"git -C /repo worktree add --detach {d}/repo HEAD")
    if r.returncode:
        raise SystemExit("worktree: " + r.stdout)
    sh(f"rsync -a --exclude .git --exclude work --exclude scratch --exclude __pycache__ {VERIF}/ {d}/verif/")
    sh(f"sed -i 's#path = \"/repo\"#path = \"{d}/repo\"#' {d}/verif/harness/Cargo.toml")
    sh(f"sed -i 's#\"/repo/Cargo.lock\"#\"{d}/repo/Cargo.lock\"#' {d}/verif/lib/vlib.py")
    return d


def drop_slot(k):
    d = f"{ROOT}/slot{k}"
    sh(f"git -C /repo worktree remove --force {d}/repo")
    shutil.rmtree(d, ignore_errors=True)
    sh("git -C /repo worktree prune")


BENIGN_CHECKS = {
    "benign/B7-agent": ["C01", "C02", "C04", "C05", "C12", "C14"],
    "benign/B8-agent": ["C09", "C10", "C08", "C11"],
    "benign/B9-agent": ["C08", "C11", "C13"],
    "benign/B10-agent": ["C05", "C07", "C15", "C16", "C06", "C17"],
    "benign/B1-batch-limit": ["C01", "C04"],
    "benign/B2-cloud-read-latest-first": ["C09", "C10"],
    "benign/B6-commit-ops-first": ["C05", "C07"],
}


def seed_checks(sid, override):
    if override:
        return override
    if sid in BENIGN_CHECKS:
        return BENIGN_CHECKS[sid]
    meta = json.load(open(f"{VERIF}/seeded/{sid}/meta.json"))
    p = meta.get("property") or meta.get("breaks") or ""
    return [c.strip() for c in re.split(r"[,\s]+", p) if re.fullmatch(r"C\d\d", c.strip())]


def worker(k, q, results, tier, lock, logdir):
    d = make_slot(k)
    env = dict(os.environ)
    env["VERIF_TLC_WORKERS"] = env.get("SWEEP_TLC_WORKERS", "5")
    while True:
        try:
            sid, checks = q.get_nowait()
        except queue.Empty:
            break
        patch = f"{VERIF}/seeded/{sid}/patch.diff" if sid != "BASE" else None
        if sid.startswith("benign/"):      # behaviour-preserving change: every check must stay silent
            patch = f"{VERIF}/{sid}/patch.diff"
        rec = {"seed": sid, "checks": {}, "at_verif": sh(f"git -C {VERIF} rev-parse --short HEAD").stdout.strip()}
        if patch:
            r = sh(f"git -C {d}/repo apply {patch}")
            if r.returncode:
                rec["error"] = "patch does not apply: " + r.stdout[-300:]
                with lock:
                    results[sid] = rec
                continue
        for c in checks:
            t0 = time.time()
            log = f"{logdir}/{sid.replace('/', '_')}-{c}.log"
            with open(log, "w") as f:
                p = subprocess.run(["bin/check", c, "--tier", tier], cwd=f"{d}/verif", env=env,
                                   stdout=f, stderr=subprocess.STDOUT)
            out = open(log).read()
            viol = [l for l in out.splitlines() if l.startswith("VIOLATION")]
            drift = [l for l in out.splitlines() if l.startswith("SPEC-DRIFT")]
            terr = [l for l in out.splitlines() if l.startswith("TOOL-ERROR")]
            rec["checks"][c] = {"rc": p.returncode, "violations": len(viol),
                                "first": (viol[0][:300] if viol else None),
                                "spec_drift": len(drift), "tool_error": (terr[0][:300] if terr else None),
                                "wall_s": round(time.time() - t0)}
            print(f"[slot{k}] {sid} {c}: rc={p.returncode} violations={len(viol)} drift={len(drift)} "
                  f"{round(time.time() - t0)}s", flush=True)
        if patch:
            sh(f"git -C {d}/repo checkout -- . && git -C {d}/repo clean -fdq")
        with lock:
            results[sid] = rec
    drop_slot(k)


def main():
    a = sys.argv[1:]
    slots, tier, override, out, base = 3, "quick", None, f"{VERIF}/seeded/RESULTS.json", 0
    ids = []
    i = 0
    while i < len(a):
        if a[i] == "--slots":
            slots = int(a[i + 1]); i += 2
        elif a[i] == "--base":      # first slot number (to run two sweeps side by side)
            base = int(a[i + 1]); i += 2
        elif a[i] == "--tier":
            tier = a[i + 1]; i += 2
        elif a[i] == "--checks":
            override = a[i + 1].split(","); i += 2
        elif a[i] == "--out":
            out = a[i + 1]; i += 2
        else:
            ids.append(a[i]); i += 1
    if ids == ["all"]:
        ids = sorted(x for x in os.listdir(f"{VERIF}/seeded") if os.path.isdir(f"{VERIF}/seeded/{x}"))
    q = queue.Queue()
    for sid in ids:
        q.put((sid, seed_checks(sid, override)))
    logdir = f"{VERIF}/work/sweep"
    os.makedirs(logdir, exist_ok=True)
    results, lock = {}, threading.Lock()
    ths = [threading.Thread(target=worker, args=(base + k, q, results, tier, lock, logdir)) for k in range(min(slots, len(ids)))]
    for t in ths:
        t.start()
    for t in ths:
        t.join()
    old = json.load(open(out)) if os.path.exists(out) else {}
    old.update(results)
    json.dump(old, open(out, "w"), indent=1, sort_keys=True)
    alarms = [s for s, r in results.items() if s.startswith("benign/") and any(c["rc"] != 0 for c in r["checks"].values())]
    print("ALARMS-ON-BENIGN:", " ".join(sorted(alarms)) or "none")
    missed = [s for s, r in results.items() if s != "BASE" and not s.startswith("benign/") and not any(c["rc"] == 1 and c["violations"] for c in r["checks"].values())]
    print("MISSED:", " ".join(sorted(missed)) or "none")


if __name__ == "__main__":
    main()
