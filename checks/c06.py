"""C06 The SQLite replica store is crash-atomic and durable.

SqliteTxn.tla models handles on one SQLite directory (BEGIN IMMEDIATE, atomic COMMIT, drop, process
stop at any point and inside COMMIT) running the replica actions of TCReplica; TLC checks
NoPartialTxn / Serializable / KillAtomic exhaustively for small configurations.  The harness
(stordrv.rs sqlite-kill) re-executes itself as a child process that performs one replica action on
a real SQLite directory and is stopped with SIGKILL before / after every storage call (or gets an
error from that call, or is killed at a random instant); the parent reopens the directory with a
fresh SqliteStorage; TraceSqliteTxn.tla accepts a run only if every committed transaction is a
complete replica action and the recovered state is the before-state of the interrupted
transaction -- or its after-state once COMMIT had returned."""
import json
import os
import random
import re
import shutil
import subprocess
import time
from concurrent.futures import ThreadPoolExecutor

import vlib
from vlib import (Verdict, build_harness, tlc_check, write_cfg, replay_lines, workdir, log, seed,
                  write_replay)

JVM_LIGHT = "-XX:TieredStopAtLevel=1 -XX:ParallelGCThreads=2"
MODEL = {
    "Tasks": {"u0", "u11", "u12", "u21", "u22"}, "Props": {"status", "tag"},
    "Vals": {"pending", "completed", "w1", "w2"}, "Times": {1}, "Cap": 1, "BigVals": set(),
    "BigSize": 1, "Replicas": {"disk"}, "Dev": set(), "Handles": {"h1", "h2"}, "TDev": set(),
    "ActKinds": {"Edit", "Undo", "Rebuild"}, "MaxTxnH": 2, "MaxKills": 1, "Faults": True,
    "MaxLen": 99, "Emit": False,
}
INVS = ["LockOK", "NoPartialTxn", "Serializable", "DiskReplicaInvariant", "KillAtomic"]


def consts(**kw):
    c = dict(MODEL)
    c.update(kw)
    return c


def scratch(name):
    shm = "/dev/shm"
    if os.path.isdir(shm) and os.access(shm, os.W_OK):
        return os.path.join(shm, f"verif-{name}-{os.getpid()}")
    return os.path.join(vlib.WORK, f"scratch-{name}-{os.getpid()}")


def mc(v, wd, name, c, timeout=900, expect=None, invs=INVS):
    cfg = write_cfg(os.path.join(wd, name + ".cfg"), c, init="MInit", next_="MNext",
                    invariants=invs, view="MView")
    r = tlc_check(wd, name, "MCSqliteTxn.tla", cfg, timeout=timeout)
    log(f"[mc] {name}: {r['distinct']} distinct / {r['states']} generated, depth {r['depth']}, "
        f"{r['wall_s']}s, violated={r['violated']}, timed_out={r['timed_out']}")
    v.mc(r, expect_violation=expect)
    return r


def gen_histories(wd, name, c, timeout=300):
    """Transaction histories of one handle from TLC: list of step lists [{kind, ops, rn}]."""
    c = dict(c, Emit=True, Faults=False, MaxKills=0)
    cfg = write_cfg(os.path.join(wd, name + ".cfg"), c, init="MInit", next_="MNext",
                    invariants=["MEmit"], constraint="HBound")
    r = tlc_check(wd, name, "MCSqliteTxn.tla", cfg, timeout=timeout, workers=4)
    if r["error"] or (not r["completed"] and not r["timed_out"]):
        raise vlib.ToolError(f"{name}: TLC failed: {r['error']} (see {r['out']})")
    out = []
    seen = set()
    for h in replay_lines(r["out"]):
        steps = []
        cur = None
        for e in h:
            if e["a"] == "Begin":
                cur = e["act"]
            elif e["a"] in ("Commit", "Drop") and cur is not None:
                steps.append({"kind": cur["kind"], "ops": cur["ops"], "rn": cur["rn"],
                              "stale": e["a"] == "Drop"})
                cur = None
        key = json.dumps(steps, sort_keys=True)
        if steps and key not in seen:
            seen.add(key)
            out.append(steps)
    log(f"[gen] {name}: {len(out)} transaction histories from TLC ({r['wall_s']}s)")
    os.remove(r["out"])
    return out


P = {"k": "P", "u": "-", "p": "-", "v": "-", "t": 0, "o": []}


def C(u):
    return {"k": "C", "u": u, "p": "-", "v": "-", "t": 0, "o": []}


def U(u, p, val, old=None):
    return {"k": "U", "u": u, "p": p, "v": val, "t": 1, "o": [[p, old]] if old else []}


def edit(ops, r="A"):
    return {"kind": "Edit", "ops": ops, "rn": False, "r": r}


def sync_scenarios():
    """(prior, action) pairs whose action is a sync against a local server: first sync, sync with
    something to push, with something to pull (a second replica B pushed), with both, and with a
    task deleted remotely (so that the rebuild after the sync changes the working set)."""
    a1 = edit([P, C("u11"), U("u11", "status", "pending"), U("u11", "tag", "w1")])
    a2 = edit([P, U("u11", "tag", "w2", "w1")])
    b1 = edit([P, C("u21"), U("u21", "status", "pending")], r="B")
    sy = {"kind": "Sync", "ops": [], "rn": False}
    syb = dict(sy, r="B")
    bdel = edit([P, {"k": "D", "u": "u11", "p": "-", "v": "-", "t": 0,
                     "o": [["status", "pending"], ["tag", "w1"]]}], r="B")
    return [
        ([a1], sy),
        ([a1, dict(sy, r="A"), a2], sy),
        ([a1, dict(sy, r="A"), b1, syb], sy),
        ([a1, dict(sy, r="A"), b1, syb, a2], sy),
        ([a1, dict(sy, r="A"), syb, bdel, syb], sy),
        ([], sy),
    ]


def tokens(obj, acc):
    if isinstance(obj, dict):
        if obj.get("k") in ("C", "D", "U") and isinstance(obj.get("u"), str):
            acc["tasks"].add(obj["u"])
        if obj.get("k") == "U":
            acc["props"].add(obj["p"])
            if obj["v"] != "~":
                acc["vals"].add(obj["v"])
        o = obj.get("o")
        if isinstance(o, dict):
            for p, x in o.items():
                acc["props"].add(p)
                if x != "~":
                    acc["vals"].add(x)
        elif isinstance(o, list):
            for p, x in o:
                acc["props"].add(p)
                acc["vals"].add(x)
        for x in obj.values():
            tokens(x, acc)
    elif isinstance(obj, list):
        for x in obj:
            tokens(x, acc)


def trace_consts(stimuli, handles=("h1",), tdev=()):
    acc = {"tasks": set(), "props": {"status", "tag"}, "vals": {"pending", "completed"}}
    tokens(stimuli, acc)
    return {"Tasks": acc["tasks"] or {"u0"}, "Props": acc["props"], "Vals": acc["vals"],
            "Times": {1}, "Cap": 1, "BigVals": set(), "BigSize": 1, "Replicas": {"disk"},
            "Dev": set(), "Handles": set(handles), "TDev": set(tdev)}


def tlc_trace(wd, name, cfg, trace, timeout=900):
    metadir = os.path.join(wd, "tlc_" + name)
    outp = os.path.join(wd, name + ".out")
    env = dict(os.environ)
    env["TRACE"] = trace
    env["JAVA_TOOL_OPTIONS"] = "-Xss1g -Dtlc2.tool.queue.IStateQueue=StateDeque " + JVM_LIGHT
    cmd = ["timeout", str(timeout)] + vlib._tlc_cmd("TraceSqliteTxn.tla", cfg, metadir, 1, [])
    t0 = time.time()
    with open(outp, "w") as f:
        p = subprocess.run(cmd, stdout=f, stderr=subprocess.STDOUT, env=env, cwd=wd)
    out = open(outp, errors="replace").read()
    r = vlib.parse_tlc(out)
    r.update(rc=p.returncode, timed_out=p.returncode == 124, out=outp,
             wall_s=round(time.time() - t0, 1), rejected_at=None, event=None)
    m = re.search(r'<<"TRACE-REJECTED-AT", (\d+), (".*")>>', out)
    if m:
        r["rejected_at"] = int(m.group(1))
        try:
            r["event"] = json.loads(json.loads(m.group(2)))
        except Exception:
            r["event"] = m.group(2)
    r["accepted"] = (r["completed"] and r["violated"] is None and r["rejected_at"] is None
                     and p.returncode == 0)
    if r["violated"]:
        mm = re.findall(r"/\\ l = (\d+)", out)
        if mm:
            r["violated_at_line"] = int(mm[-1]) - 1
    shutil.rmtree(metadir, ignore_errors=True)
    return r


TRACE_INVS = ["LockOK", "NoPartialTxn", "Serializable"]


def validate(v, wd, label, trace, tconsts, stimuli=None, driver="sqlite-kill", expect_reject=False,
             chunk=30000, max_rounds=4, invs=TRACE_INVS):
    """Validate a recorded trace against TraceSqliteTxn.tla; one behaviour = one run (Reset ..
    next Reset).  A rejected run is reported and the rest validated again without it."""
    behs = []
    cur = None
    for line in open(trace):
        if line.startswith('{"a":"Reset"'):
            cur = []
            behs.append(cur)
        if cur is None:
            cur = []
            behs.append(cur)
        cur.append(line)
    chunks, cur, n = [], [], 0
    for b in behs:
        if cur and n + len(b) > chunk:
            chunks.append(cur)
            cur, n = [], 0
        cur.append(b)
        n += len(b)
    if cur:
        chunks.append(cur)
    cfg = write_cfg(os.path.join(wd, label + ".trace.cfg"), tconsts, spec="TSpec",
                    invariants=invs, postcondition="Accepted")

    def one(k):
        bs = chunks[k]
        failures = []
        for rnd in range(max_rounds):
            if not bs:
                break
            p = os.path.join(wd, f"{label}.c{k}.r{rnd}.ndjson")
            with open(p, "w") as f:
                for b in bs:
                    f.writelines(b)
            r = tlc_trace(wd, f"{label}.tv{k}r{rnd}", cfg, p)
            if r["accepted"]:
                return failures, len(bs), sum(map(len, bs)), None
            if r["timed_out"] or (r["rejected_at"] is None and not r["violated"]):
                return failures, 0, 0, (f"{label}: trace validation did not finish: "
                                        f"{r.get('error')} (see {r['out']})")
            line = r["rejected_at"] if r["rejected_at"] else r.get("violated_at_line", 1)
            acc = 0
            for j, b in enumerate(bs):
                if acc < line <= acc + len(b):
                    failures.append((b, line - acc - 1, r["event"], r["violated"]))
                    bs = bs[:j] + bs[j + 1:]
                    break
                acc += len(b)
            else:
                return failures, 0, 0, f"{label}: cannot locate rejected line {line}"
            if expect_reject:
                break
        return failures, 0, 0, None

    t_ok = e_ok = nfail = 0
    t0 = time.time()
    with ThreadPoolExecutor(max_workers=3) as ex:
        for failures, nb, ne, err in ex.map(one, range(len(chunks))):
            if err:
                v.tool_errors.append(err)
            t_ok += nb
            e_ok += ne
            for lines, off, ev, inv in failures:
                nfail += 1
                if expect_reject:
                    continue
                hdr = json.loads(lines[0])
                sid = hdr.get("id")
                what = (f"invariant {inv} violated while following the recorded run" if inv else
                        "recorded run is not a behaviour of the SQLite transaction specification "
                        f"(run {hdr.get('run')}): {json.dumps(ev)[:300]}")
                st = None
                if stimuli is not None and isinstance(sid, int) and sid < len(stimuli):
                    st = stimuli[sid]
                payload = {"kind": "trace-rejection", "driver": driver, "storage": "sqlite",
                           "trace_module": "TraceSqliteTxn.tla", "invariants": invs,
                           "check": label, "run": hdr, "stimulus": st,
                           "rejected_event_index": off, "rejected_event": ev, "invariant": inv,
                           "trace": [json.loads(x) for x in lines], "what": what,
                           "constants": {k: sorted(x) if isinstance(x, (set, frozenset)) else x
                                         for k, x in tconsts.items()}}
                pth = write_replay(v.pid, f"{label}-s{sid}-{nfail}", payload)
                v.violations.append((what, pth))
    if not expect_reject:
        v.traces += t_ok
        v.events += e_ok
    log(f"[validate] {label}: {len(behs)} recorded runs in {len(chunks)} TLC runs: {t_ok} accepted "
        f"({e_ok} events), {nfail} rejected, {time.time() - t0:.1f}s")
    return nfail


def run_kill(wd, name, stimuli, jobs=6):
    stim = os.path.join(wd, name + ".stim.ndjson")
    trace = os.path.join(wd, name + ".trace.ndjson")
    with open(stim, "w") as f:
        for s in stimuli:
            f.write(json.dumps(s) + "\n")
    d = scratch("C06-" + name)
    t0 = time.time()
    try:
        p = vlib.run_harness(["sqlite-kill", "--in", stim, "--out", trace, "--dir", d,
                              "--jobs", str(jobs)])
    finally:
        shutil.rmtree(d, ignore_errors=True)
    stats = json.loads(p.stdout.strip().splitlines()[-1])
    log(f"[kill] {name}: {len(stimuli)} (history, action) pairs, {stats}, {time.time() - t0:.1f}s")
    return trace, stats


def run(tier):
    v = Verdict("C06", tier)
    wd = workdir("C06-" + tier)
    build_harness()
    os.environ.setdefault("JAVA_TOOL_OPTIONS", "-Xss512m " + JVM_LIGHT)
    thorough = tier == "thorough"
    rnd = random.Random(seed())

    # 1. the specification: stops at every point of every transaction, also inside COMMIT
    mc(v, wd, "one-handle-3-txn-kills", consts(Handles={"h1"}, MaxTxnH=3, MaxKills=2,
                                               Tasks={"u0", "u11", "u12", "u13"}))
    mc(v, wd, "two-handles-2-txn-kills", consts(MaxKills=2 if thorough else 1))
    # anti-vacuity: a commit made of two transactions must be caught
    mc(v, wd, "dev-two-transaction-commit", consts(Handles={"h1"}, MaxTxnH=2, TDev={"TWOTXN"},
                                                   Tasks={"u0", "u11", "u12"}),
       expect="NoPartialTxn")

    # 2. histories of replica transactions from TLC; every prefix gives a (prior history, action)
    g = consts(Handles={"h1"}, MaxTxnH=4 if thorough else 3,
               Tasks={"u0", "u11", "u12", "u13", "u14"}, Vals={"pending", "completed", "w1"})
    hist = gen_histories(wd, "gen-histories", g)
    pairs = {}
    for steps in hist:
        for i in range(len(steps)):
            key = json.dumps(steps[:i + 1], sort_keys=True)
            pairs.setdefault(key, (steps[:i], steps[i]))
    pairs = list(pairs.values())
    v.distinct += len(pairs)
    by_kind = {}
    for pr, act in pairs:
        by_kind.setdefault(act["kind"], []).append((pr, act))
    per = {"Edit": 6, "Undo": 9, "Rebuild": 6} if not thorough else {"Edit": 60, "Undo": 60,
                                                                    "Rebuild": 50}
    chosen = []

    def interesting(pr, act):
        # a rebuild has work to do when a listed task was completed; an undo is either of the
        # current tail of the operations or of a list that has become stale
        txt = json.dumps(pr)
        return (act["kind"] != "Rebuild") or ('"completed"' in txt)
    for kind, lst in sorted(by_kind.items()):
        lst = sorted(lst, key=lambda x: json.dumps(x, sort_keys=True))
        rnd.shuffle(lst)
        # prefer the longest prior histories: more in the directory to be half-written
        lst.sort(key=lambda x: (not interesting(*x), -len(x[0])))
        n = per.get(kind, 4)
        chosen += lst[:n - n // 3]
        # ... and some short ones
        chosen += [x for x in lst[n:] if len(x[0]) <= 1 and not x[1].get("stale")][:n // 3]
        # ... and undos of a list that is no longer the tail of the operations (refused)
        chosen += [x for x in lst[n:] if x[1].get("stale")][:2]
    chosen += sync_scenarios()
    # transactions that outgrow SQLite's page cache (values of 1.2 MB): dirty pages reach the
    # database file before COMMIT, so only the journal can take them back after a stop
    h1 = edit([P, C("u13"), U("u13", "status", "pending"), U("u13", "tag", "huge1")])
    h2 = edit([P, U("u13", "tag", "huge2", "huge1"), C("u14"), U("u14", "tag", "huge3")])
    chosen += [([], h1), ([h1], h2)]
    stimuli = []
    for i, (prior, act) in enumerate(chosen):
        stimuli.append({"id": i, "prior": prior, "action": act, "seed": seed(),
                        "kinds": ["kill", "killafter", "error"],
                        "async": (12 if thorough else 2)})
    trace, stats = run_kill(wd, "kill-sweep", stimuli)
    v.evaluations += sum(stats.get(k, 0) for k in ("kills_at_call", "error_returns",
                                                   "async_kills_before_return",
                                                   "async_kills_after_return"))
    v.extra["interruptions"] = stats
    tc = trace_consts(stimuli)
    bad = [json.loads(x) for x in open(trace) if '"a":"ToolError"' in x or '"a":"Unexpected"' in x
           or '"a":"Unreadable"' in x]
    for b in bad[:5]:
        if b["a"] == "ToolError":
            v.tool_errors.append(f"kill driver: {b.get('msg')}")
    validate(v, wd, "kill-sweep", trace, tc, stimuli)
    lines = open(trace).readlines()
    v.samples.append({"first_run": [json.loads(x) for x in lines[:1]],
                      "actions": sorted({s["action"]["kind"] for s in stimuli}),
                      "note": "each run: Open(prior state) (Begin Commit)* [Begin] Kill|Drop "
                              "Recover(state read by a fresh SqliteStorage)"})

    # 3. binding demonstrations (must be rejected)
    #    (a) a recorded field is corrupted: the state recovered after a stop inside the first
    #        transaction is replaced by that transaction's after-state
    runs, cur = [], None
    for x in lines:
        if x.startswith('{"a":"Reset"'):
            cur = []
            runs.append(cur)
        cur.append(x)
    corrupted = None
    for b in runs:
        evs = [json.loads(x) for x in b]
        names = [e["a"] for e in evs]
        if names[:4] == ["Reset", "Open", "Begin", "Kill"] and names[4] == "Recover":
            ref = next((r for r in runs if json.loads(r[0]).get("id") == evs[0]["id"]
                        and json.loads(r[0]).get("run") == "reference"), None)
            if ref:
                post = json.loads(ref[3])["post"]
                if post != evs[4]["obs"]:
                    evs[4]["obs"] = post
                    corrupted = [json.dumps(e) + "\n" for e in evs]
                    break
    if corrupted:
        p = os.path.join(wd, "corrupted.trace.ndjson")
        open(p, "w").writelines(corrupted)
        nf = validate(v, wd, "selftest-corrupted-recovery", p, tc, expect_reject=True)
        v.extra["selftest_corrupted_recovered_state_rejected"] = nf > 0
        if nf == 0:
            v.tool_errors.append("self-test: a corrupted recovered state was accepted")
    else:
        v.tool_errors.append("self-test: no run to corrupt")
    #    (b) the code under test broken: the same batch committed in two storage transactions
    split = [{"id": 0, "prior": stimuli[0]["prior"],
              "action": {"kind": "EditSplit", "rn": False,
                         "ops": [P, C("u13"), U("u13", "status", "pending"), U("u13", "tag", "w1")]},
              "kinds": ["kill"], "async": 0, "seed": seed()}]
    tr2, st2 = run_kill(wd, "selftest-two-transaction-commit", split, jobs=1)
    nf = validate(v, wd, "selftest-two-transaction-commit", tr2, trace_consts(split + stimuli),
                  expect_reject=True)
    v.extra["selftest_two_transaction_commit_rejected"] = nf > 0
    if nf == 0:
        v.tool_errors.append("self-test: a commit split into two transactions was accepted")

    v.finish("model_checking",
             rule="TLC checks NoPartialTxn, Serializable, KillAtomic and the replica invariant on "
                  "the committed state for every interleaving of 1-2 handles x 2-3 replica "
                  "transactions with drops and process stops at every point including inside "
                  "COMMIT (exhaustive); the real SqliteStorage is driven through TLC-generated "
                  "transaction histories in a child process that is stopped with SIGKILL before "
                  "and after every storage call of commit / undo / rebuild / sync (and at random "
                  "instants), or gets an error from that call; the directory is then read by a "
                  "fresh SqliteStorage and the run validated by TLC: every committed transaction "
                  "a complete replica action, the recovered state the before-state of the "
                  "interrupted transaction, or its after-state once COMMIT had returned; "
                  "evaluations = interruptions",
             exhaustive=True,
             assumptions=["process stop (SIGKILL), not power loss: fsync behaviour is SQLite's "
                          "and is not observable here; scratch directories on tmpfs if present",
                          "an action = one storage transaction of the replica: undo and sync are "
                          "followed by a separate working-set rebuild transaction, so a stop "
                          "between the two leaves the after-state of the first",
                          "OS schedules of the random-instant kills are sampled",
                          "sync transactions are checked for atomicity only (their content is "
                          "C01-C04's subject): all local operations marked as sent, base version "
                          "not going back, working set untouched"])
