"""C15 The working set lists exactly the pending tasks, with stable numbering."""
from sync_family import *

TR_INVS = ["TypeOK", "ReplicaInvariant", "Converged", "NoOutOfSync"]


def run(tier):
    v = Verdict("C15", tier)
    wd = workdir("C15-" + tier)
    build_harness()
    thorough = tier == "thorough"
    st = {"pending", "completed"} if not thorough else {"pending", "recurring", "completed"}

    # 1. all task sets x status mixes x all prior working sets x rebuild sequences in both modes
    c = rconsts(Replicas={"r1"}, Tasks={"u1", "u2", "u3"}, Props={"status"}, Vals=st | {"a"},
                Times={1}, Statuses=st, Alphabet={"S", "D"}, MaxBatch=1, MaxEdits=1, MaxPending=9,
                MaxChain=1, MaxWS=3 if not thorough else 4, LocalKinds={"Rebuild", "Batch"})
    rmc(v, wd, "ws-all-priors", c, init="WInit", invs=("WSOK",), timeout=1700)
    # reached through real histories incl. tasks removed by a sync
    c2 = rconsts(Replicas={"r1", "r2"}, Tasks={"u1", "u2"}, Props={"status"}, Vals=st | {"a"},
                 Times={1}, Statuses={"pending", "completed"}, Alphabet={"C", "S", "D"},
                 MaxBatch=1, MaxEdits=4 if thorough else 3, MaxPending=6, MaxChain=4,
                 LocalKinds={"Rebuild", "Batch", "Sync"}, OnlyValid=True)
    rmc(v, wd, "ws-histories-with-sync", c2, invs=("ReplicaInvariant", "WSOK"),
        timeout=1700 if thorough else 400)
    # anti-vacuity: the pinned rebuild (WS1: vanished task shifts later numbers; WS2: renumbering
    # keeps gaps) must violate the clauses
    rmc(v, wd, "ws-pinned-ws1", dict(c, Dev={"WS1"}), init="WInit", invs=("WSOK",), expect="WSOK")
    rmc(v, wd, "ws-pinned-ws2", dict(c, Dev={"WS2"}), init="WInit", invs=("WSOK",), expect="WSOK")

    # 2. the same on the real code, both storages; prior working sets are written through the
    #    public StorageTxn API, or arise from commits / syncs / rebuilds
    g = dict(c, MaxLen=8)
    sch, _ = rgen(wd, "gen-ws-priors", g, init="WInit", timeout=900,
                  limit=6000 if thorough else 1200)
    v.distinct += distinct_count(sch)
    conform(v, wd, "ws-priors-mem", g, sch, invs=TR_INVS, flush=0)
    conform(v, wd, "ws-priors-sqlite", g, sch if thorough else sch[:300], invs=TR_INVS,
            storage="sqlite", flush=0)
    g2 = dict(c2, MaxEdits=8, MaxPending=12, MaxChain=30, MaxLen=45, Tasks={"u1", "u2", "u3"},
              MaxBatch=2, Times={1, 2})
    sch2, _ = rgen(wd, "gen-ws-histories", g2, simulate=1500 if thorough else 200, depth=46)
    v.distinct += distinct_count(sch2)
    conform(v, wd, "ws-histories-mem", g2, sch2, invs=TR_INVS)
    conform(v, wd, "ws-histories-sqlite", g2, sch2[:400] if thorough else sch2[:60], invs=TR_INVS,
            storage="sqlite")

    v.finish("model_checking",
             rule="TLC enumerates every task set over {pending, completed, (recurring,) none, "
                  "absent} x every prior working set of length <= 3 (thorough 4; gaps, entries "
                  "of completed and absent tasks) x rebuild sequences in both modes and commits, "
                  "checking the property's clauses at every rebuild/commit; the same cases run "
                  "on the real code on both storages and each resulting working set is validated "
                  "against the specification; distinct = distinct (prior state, action sequence)",
             exhaustive=True,
             assumptions=["newcomers may reuse a trailing number freed by the same rebuild "
                          "(the property says 'after all numbers in use')"])
