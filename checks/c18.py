"""C18 Reading tasks never panics, whatever the stored data.

spec/TaskModel.tla defines every read accessor of Task, TaskData, WorkingSet, DependencyMap and
Replica as a TOTAL function of a task map over key and value classes.  TLC (spec/MCTask.tla, mode
"read") enumerates every map of <= 3 entries over (key class x value class); the Rust harness
(harness/src/taskdrv.rs) stores each map with three concrete representatives per class through
TaskData::update, reloads it through the replica and calls every reader under catch_unwind; TLC
validates every recorded result against the specification's functions (spec/TraceTask.tla).  A
panic is the result token "panic", which no definition of the specification produces.

Also the machinery shared with c19.py (the same specification, driver and trace specification)."""
import json
import os
import random
import re
import subprocess

from vlib import (BIN, Verdict, ToolError, build_harness, tlc_check, tlc_trace, write_cfg,
                  replay_lines, workdir, log, seed, write_replay, split_behaviours, behaviour_at)

PROP_KEYS = ["status", "description", "modified", "start", "end", "priority", "wait", "entry", "due"]
ALL_KEYS = PROP_KEYS + [
    "tag:valid", "tag:valid2", "tag:synth", "tag:empty", "tag:malformed", "tag:sep",
    "ann:valid", "ann:valid2", "ann:neg", "ann:plus", "ann:empty", "ann:nonnum", "ann:far",
    "ann:huge", "ann:negfar", "ann:fw", "ann:sep",
    "dep:t2", "dep:t2alt", "dep:t3", "dep:self", "dep:missing", "dep:empty", "dep:malformed", "dep:sep",
    "uda:plain", "uda:ns", "uda:near", "uda:empty"]
ALL_PRIORS = ["absent", "empty", "fresh", "done", "deleted", "pendend", "donenoend", "rich",
              "garbage", "recurring"]

CORE_KEYS = ["status", "wait", "start", "modified", "dep:t2", "dep:t2alt", "dep:self", "tag:valid", "tag:synth",
             "ann:far", "uda:plain"]
BASE = {"Dev": set(), "Mode": "read", "EnumKeys": set(ALL_KEYS), "MaxEntries": 2, "CoreOnly": True,
        "CoreKeys": set(CORE_KEYS),
        "Priors": set(), "AlphaName": "core", "MaxMut": 0, "MaxCommits": 0, "Emit": False}


def tconsts(**kw):
    c = dict(BASE)
    c.update(kw)
    return c


def task_mc(v, wd, name, c, inv, expect=None, emit=False, timeout=600):
    """One TLC run of MCTask: invariant `inv` on every state; with emit, also the stimuli."""
    c = dict(c, Emit=emit)
    cfg = write_cfg(os.path.join(wd, name + ".cfg"), c, init="MCInit", next_="MCNext",
                    invariants=[inv] + (["EmitReplay"] if emit else []),
                    view=None if emit else "View")
    r = tlc_check(wd, name, "MCTask.tla", cfg, timeout=timeout, seed_=seed())
    log(f"[mc] {name}: {r['distinct']} distinct / {r['states']} generated, depth {r['depth']}, "
        f"{r['wall_s']}s, violated={r['violated']}, timed_out={r['timed_out']}")
    v.mc(r, expect_violation=expect)
    sch = []
    if emit:
        sch = replay_lines(r["out"])
        log(f"[gen] {name}: {len(sch)} stimuli from TLC")
        if r["violated"] is None and not r["error"]:
            try:
                os.remove(r["out"])      # tens of MB of REPLAY lines
            except OSError:
                pass
    return r, sch


def run_task_harness(cmd, args, timeout=1700):
    p = subprocess.run([BIN, cmd] + args, stdout=subprocess.PIPE, stderr=subprocess.PIPE,
                       text=True, timeout=timeout)
    if p.returncode != 0:
        log(p.stdout[-2000:])
        log(p.stderr[-4000:])
        raise ToolError(f"harness {cmd} exited {p.returncode}")
    m = re.search(r"ran (\d+) behaviours, (\d+) events with a panic", p.stderr)
    return {"behaviours": int(m.group(1)) if m else 0, "panic_events": int(m.group(2)) if m else 0}


def trace_cfg(wd, name, dev=(), diag=False):
    return write_cfg(os.path.join(wd, name + (".diag.cfg" if diag else ".trace.cfg")),
                     {"Dev": set(dev)}, spec="TSpec",
                     invariants=["Diag"] if diag else ["TraceInv"],
                     postcondition=None if diag else "Accepted")


def diagnose(wd, name, lines):
    """Run the diagnostic configuration on one rejected behaviour; the STUCK-AT block says which
    reader results differ from the specification."""
    p = os.path.join(wd, name + ".rejected.ndjson")
    with open(p, "w") as f:
        f.writelines(lines)
    r = tlc_trace(wd, name + ".diag", "TraceTask.tla", trace_cfg(wd, name, diag=True), p)
    out = open(r["out"], errors="replace").read()
    m = re.search(r'<< "STUCK-AT.*?FALSE', out, flags=re.S)
    return re.sub(r"\s+", " ", m.group(0))[:3000] if m else "(no diagnosis)"


def validate(v, wd, name, trace, stimuli, driver, storage="mem", max_failures=3, dev=()):
    """TLC trace validation of one recorded trace; rejections become violations with a replay
    file holding the stimulus, the recorded behaviour and the diagnosis."""
    tcfg = trace_cfg(wd, name, dev=dev)
    failures = 0
    cur = trace
    while True:
        r = tlc_trace(wd, name + ".tv", "TraceTask.tla", tcfg, cur, timeout=1700)
        nev = sum(1 for _ in open(cur))
        if r["accepted"]:
            v.traces += len(split_behaviours(cur))
            v.events += nev
            break
        if r["timed_out"] or (r["rejected_at"] is None and not r["violated"]):
            v.tool_errors.append(f"{name}: trace validation did not finish: {r.get('error')} "
                                 f"(see {r['out']})")
            break
        line = r["rejected_at"] if r["rejected_at"] else r.get("violated_at_line", 1)
        k, lines, off = behaviour_at(cur, line)
        head = json.loads(lines[0]) if lines else {}
        bid = head.get("id")
        ev = r["event"] if isinstance(r["event"], dict) else {}
        panics = ev.get("panics") or ([ev["panic"]] if ev.get("panic") else [])
        diag = diagnose(wd, name, lines)
        if r["violated"]:
            what = f"invariant {r['violated']} violated while following the recorded execution"
        elif panics:
            what = "the code under test panicked: " + "; ".join(panics)[:600]
        else:
            what = ("recorded result is not the specification's: " + diag[:600])
        if any("harness:" in x for x in panics):
            v.tool_errors.append(f"{name}: the harness itself failed in behaviour {bid}: {panics}")
            break
        stim = stimuli.get(bid) if stimuli else None
        if stim is None:
            # behaviours generated inside the harness (random mode) are rebuilt from the trace
            raw = [json.loads(x) for x in lines if '"raw"' in x]
            if raw:
                stim = {"id": bid, "kv": 0, "vv": 0, "storage": storage,
                        "steps": [{"a": "InstallRaw", "raw": raw[0]["raw"]},
                                  {"a": "Read", "expire": True}]}
        payload = {"kind": "trace-rejection", "check": name, "behaviour": bid, "stimulus": stim,
                   "driver": driver, "trace_module": "TraceTask.tla", "invariants": ["TraceInv"],
                   "constants": {"Dev": sorted(dev)}, "storage": storage,
                   "rejected_event_index": off, "rejected_event": r["event"],
                   "invariant": r["violated"], "diagnosis": diag, "what": what,
                   "trace": [json.loads(x) for x in lines]}
        p = write_replay(v.pid, f"{name}-b{bid}", payload)
        v.violations.append((what, p))
        failures += 1
        bs = split_behaviours(cur)
        nxt = os.path.join(wd, f"{name}.trace.{failures}.ndjson")
        with open(nxt, "w") as f:
            for j, (_, ls) in enumerate(bs):
                if j != k:
                    f.writelines(ls)
        cur = nxt
        if failures >= max_failures or len(bs) <= 1:
            break
    log(f"[conform] {name}: validation {r['wall_s']}s for {nev} events, failures in this step: "
        f"{failures}")
    return failures == 0


def conform(v, wd, name, behaviours, driver, storage="mem", chunk=10000):
    """Run behaviours on the real code and validate the traces (in chunks: TLC reads a whole
    trace into memory)."""
    ok = True
    for c0 in range(0, len(behaviours), chunk):
        part = behaviours[c0:c0 + chunk]
        nm = f"{name}.{c0 // chunk}" if len(behaviours) > chunk else name
        stim = os.path.join(wd, nm + ".stim.ndjson")
        trace = os.path.join(wd, nm + ".trace.ndjson")
        with open(stim, "w") as f:
            for b in part:
                f.write(json.dumps(b) + "\n")
        args = ["--in", stim, "--out", trace]
        if storage == "sqlite":
            d = os.path.join(wd, nm + ".sqlite")
            os.makedirs(d, exist_ok=True)
            args += ["--dir", d]
        st = run_task_harness(driver, args)
        log(f"[run] {nm}: {st['behaviours']} behaviours on {storage}, "
            f"{st['panic_events']} events with a panic")
        v.extra["panic_events"] = v.extra.get("panic_events", 0) + st["panic_events"]
        ok = validate(v, wd, nm, trace, {b["id"]: b for b in part}, driver, storage=storage) and ok
        v.evaluations += reader_calls(trace)
        if ok:
            os.remove(trace)
            os.remove(stim)
    return ok


def reader_calls(trace):
    """number of reader / mutator calls recorded in a trace"""
    n = 0
    with open(trace) as f:
        for line in f:
            if line.startswith('{"a":"Read'):
                n += line.count('],[') + 5
            elif line.startswith('{"a":"Mut"'):
                n += 1
    return n


def expect_rejection(v, wd, name, trace, what, dev=()):
    """self-test: this trace must NOT be accepted"""
    r = tlc_trace(wd, name, "TraceTask.tla", trace_cfg(wd, name, dev=dev), trace)
    rejected = (not r["accepted"]) and (r["rejected_at"] is not None or r["violated"])
    v.extra.setdefault("self_tests", []).append(
        {"test": what, "rejected_at_event": r["rejected_at"], "passed": bool(rejected)})
    log(f"[self-test] {what}: rejected_at={r['rejected_at']} -> {'ok' if rejected else 'NOT REJECTED'}")
    if not rejected:
        v.tool_errors.append(f"self-test failed: {what} was accepted")


def read_behaviours(maps, variants_for, storage="mem", start=0):
    out = []
    i = start
    for n, h in enumerate(maps):
        e = h[0]["e"]
        for var in variants_for(n, e):
            out.append({"id": i, "kv": var, "vv": var, "storage": storage,
                        "steps": [{"a": "Install", "e": e}, {"a": "Read", "expire": True}]})
            i += 1
    return out


def run(tier):
    v = Verdict("C18", tier)
    wd = workdir("C18-" + tier)
    build_harness()
    thorough = tier == "thorough"

    # 1. the specification: every map of <= 3 entries (quick: 3-entry maps over the core keys
    #    only), readers total and consistent with the model rules on each; the same run prints
    #    the maps as stimuli
    c = tconsts(MaxEntries=3, CoreOnly=not thorough)
    _, maps = task_mc(v, wd, "maps-le3", c, "ReadInv", emit=True, timeout=1500)
    if not maps:
        v.tool_errors.append("TLC produced no task maps")
    # anti-vacuity: a reader that is partial on the beyond-calendar class (the pinned
    # utc_timestamp) must violate the invariant
    task_mc(v, wd, "dev-ts1-partial-reader", tconsts(MaxEntries=1, Dev={"TS1"}), "ReadInv",
            expect="ReadInv")

    # 2. every map on the real code: three representatives per class for maps of <= 2 entries
    #    (thorough: for all), one (rotating) for the 3-entry maps
    def variants(n, e):
        return (0, 1, 2) if (thorough or len(e) <= 2) else (n % 3,)
    behaviours = read_behaviours(maps, variants)
    v.distinct += len(behaviours)
    if behaviours:
        b0 = behaviours[len(behaviours) // 2]
        v.samples.append({"stimulus": b0, "meaning": "class map stored with representative "
                          f"#{b0['kv']} of every class, reloaded, every reader called"})
    conform(v, wd, "maps-mem", behaviours, "task-read")
    rnd = random.Random(seed())
    sq = rnd.sample(behaviours, min(len(behaviours), 3000 if thorough else 300))
    conform(v, wd, "maps-sqlite", sq, "task-read", storage="sqlite")

    # 3. seeded random keys and values, classified in the driver with i128 arithmetic
    nrand = 100000 if thorough else 6000
    for c0 in range(0, nrand, 10000):
        n = min(10000, nrand - c0)
        trace = os.path.join(wd, f"random.{c0 // 10000}.trace.ndjson")
        st = run_task_harness("task-read", ["--random", str(n), "--seed", str(seed() * 1000 + c0),
                                            "--out", trace])
        log(f"[run] random.{c0 // 10000}: {st['behaviours']} random tasks, "
            f"{st['panic_events']} events with a panic")
        v.extra["panic_events"] = v.extra.get("panic_events", 0) + st["panic_events"]
        v.distinct += n
        if validate(v, wd, f"random.{c0 // 10000}", trace, None, "task-read"):
            v.evaluations += reader_calls(trace)
            if c0 == 0:
                with open(trace) as f:
                    for line in f:
                        if '"raw"' in line:
                            e = json.loads(line)
                            v.samples.append({"random_task": e["raw"], "classified_as": e["e"]})
                            break
            os.remove(trace)

    # 4. self-tests of the binding on a small real trace
    small = [b for b in behaviours if any(x[1] == "far" for x in b["steps"][0]["e"])][:40]
    if small:
        stim = os.path.join(wd, "selftest.stim.ndjson")
        trace = os.path.join(wd, "selftest.trace.ndjson")
        with open(stim, "w") as f:
            for b in small:
                f.write(json.dumps(b) + "\n")
        run_task_harness("task-read", ["--in", stim, "--out", trace])
        # (a) one recorded reader result changed
        bad = os.path.join(wd, "selftest.corrupt.ndjson")
        done = False
        with open(trace) as f, open(bad, "w") as g:
            for line in f:
                if not done and '["is_active","-","false"]' in line:
                    line = line.replace('["is_active","-","false"]', '["is_active","-","true"]', 1)
                    done = True
                g.write(line)
        expect_rejection(v, wd, "selftest-corrupt", bad, "one recorded reader result altered")
        # (b) one reader call dropped from a sweep
        bad2 = os.path.join(wd, "selftest.dropped.ndjson")
        done = False
        with open(trace) as f, open(bad2, "w") as g:
            for line in f:
                if not done and '["get_due","-","none"],' in line:
                    line = line.replace('["get_due","-","none"],', '', 1)
                    done = True
                g.write(line)
        expect_rejection(v, wd, "selftest-dropped", bad2, "one reader call missing from a sweep")
        # (c) the real trace against the specification of the pinned (panicking) reader
        expect_rejection(v, wd, "selftest-dev-ts1", trace,
                         "real trace of beyond-calendar values against the deviating "
                         "specification TS1", dev={"TS1"})

    v.finish("model_checking",
             rule="TLC enumerates every task map of <= 3 entries over 37 key classes x their "
                  "value classes" + ("" if thorough else " (3-entry maps over 10 core keys)") +
                  "; each is stored with 3 concrete representatives per class, reloaded and "
                  "every read accessor is called under catch_unwind; every result is compared "
                  "by TLC with the specification's total reader functions; plus seeded random "
                  "keys/values classified with i128 arithmetic; distinct = (map, representative) "
                  "cases; evaluations = reader calls",
             exhaustive=True,
             assumptions=["bounded by key and value classes: a model-based test generator, not "
                          "a proof over all strings",
                          "'now'-relative classes use representatives years away from the "
                          "wall clock"])
