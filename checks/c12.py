"""C12 Snapshots reproduce exactly the state of their version."""
from sync_family import *


def run(tier):
    v = Verdict("C12", tier)
    wd = workdir("C12-" + tier)
    build_harness()
    thorough = tier == "thorough"
    allurg = {"none", "low", "high"}

    c = consts(Props={"p"}, MaxPending=2, MaxEdits=3, MaxChain=4, Urg=allurg, AvoidSet={"r2"})
    mc_run(v, wd, "snap-seq-2r", c, timeout=900)
    cb = consts(Props={"p", "q"}, Racing=True, MaxPending=2, MaxLong=2, MaxEdits=0, MaxChain=6,
                Cap=1, Urg=allurg, AvoidSet={"r2"})
    mc_run(v, wd, "snap-race-2r-batches", cb, init="PInit", timeout=900)
    if thorough:
        c3 = consts(Replicas={"r1", "r2", "r3"}, Props={"p"}, MaxPending=2, MaxEdits=3,
                    MaxChain=4, Urg={"none", "high"}, AvoidSet={"r2"})
        mc_run(v, wd, "snap-seq-3r", c3, timeout=1700)
    # the server discards the versions covered by its snapshot: fresh replicas must still end in
    # the replay of the whole chain; only replicas older than the discarded part may fail
    ct = consts(Replicas={"r1", "r2", "r3"}, Props={"p"}, MaxPending=2, MaxEdits=3, MaxChain=4,
                Urg={"none", "high"}, WithTrim=True)
    mc_run(v, wd, "snap-trim-3r", ct, timeout=1500 if thorough else 600)
    # anti-vacuity: snapshot after a non-final batch (D4) must violate SnapshotFaithful
    mc_run(v, wd, "snap-pinned-d4", dict(cb, Dev={"D4"}), init="PInit", timeout=600,
           expect="SnapshotFaithful")

    g = consts(Replicas={"r1", "r2", "r3"}, Tasks={"u1", "u2"}, Props={"p", "q"},
               Vals={"a", "b", "c"}, BigVals={"b"}, MaxPending=4, MaxEdits=10, MaxChain=40,
               MaxLen=50, Urg=allurg, AvoidSet={"r2"})
    sch, _ = gen_schedules(wd, "gen-snap", g, simulate=1500 if thorough else 150, depth=51)
    v.distinct += distinct_count(sch)
    conform(v, wd, "snap-sim", g, sch)
    conform(v, wd, "snap-sim-unicode", g, sch[:400 if thorough else 60], valclass="unicode")
    gt = dict(g, WithTrim=True, Urg={"none", "high"})
    scht, _ = gen_schedules(wd, "gen-snap-trim", gt, simulate=1500 if thorough else 150, depth=51)
    v.distinct += distinct_count(scht)
    conform(v, wd, "snap-trim-sim", gt, scht)
    # situation witness: a snapshot is due for a version while another replica has already added
    # the next one (racing syncs) - the snapshot must still hold the state of ITS version (a
    # snapshot taken after one more pull would carry the later version's effects: seed C12j)
    gsr = consts(Replicas={"r1", "r2"}, Props={"p", "q"}, Racing=True, MaxPending=1, MaxLong=0,
                 MaxEdits=0, MaxChain=8, Urg={"none", "high"})
    w = gen_situations(wd, "sit-snaprace", gsr, "snaprace", limit=60 if thorough else 12, timeout=600)
    v.distinct += distinct_count(w)
    conform(v, wd, "sit-snaprace", gsr, w)
    if thorough:
        conform(v, wd, "snap-sim-sqlite", g, sch[:300], storage="sqlite")

    v.finish("model_checking",
             rule="TLC explores all urgency replies x avoid_snapshots x histories incl. "
                  "multi-version syncs; on the real code every uploaded snapshot is decoded "
                  "independently (zlib+JSON) and compared with the specification's task set for "
                  "that version; fresh replicas start from stored snapshots; distinct = distinct "
                  "schedules",
             assumptions=["zlib/JSON decoding in the harness is independent of the crate's "
                          "snapshot code"])
