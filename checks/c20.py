"""C20 Expiration purges exactly the long-deleted tasks, everywhere."""
from sync_family import *

EINVS = ["ReplicaInvariant", "Converged", "NoOutOfSync", "ExpireExact", "PurgedEverywhere"]
STATUS = {"deleted", "pending", "completed"}
MODS = {"mold", "medge_old", "medge_new", "mrecent", "mfuture", "mbad", "mempty", "mhuge", "mneg",
        "mfloat", "~"}


def econsts(**kw):
    c = consts(Props={"status", "modified", "p"}, Vals=STATUS | MODS | {"x", "recurring"},
               Times={1, 2}, EditKinds=set(), MaxEdits=2, MaxChain=6, MaxPending=3,
               StatusVals=STATUS, ModVals=MODS, Concurrent=True)
    c.update(kw)
    return c


def emc(v, wd, name, c, timeout=900, expect=None):
    return mc_run(v, wd, name, c, init="EInit", invs=EINVS, timeout=timeout, expect=expect,
                  module="MCExpire.tla", next_="ENext", view="EView")


def egen(wd, name, c, simulate, depth):
    return gen_schedules(wd, name, c, init="EInit", simulate=simulate, depth=depth,
                         module="MCExpire.tla", next_="ENext", emit="EEmit")


def run(tier):
    v = Verdict("C20", tier)
    wd = workdir("C20-" + tier)
    build_harness()
    thorough = tier == "thorough"

    # 1. every status x modification-time class, a concurrent edit elsewhere, every sync order
    emc(v, wd, "expire-1task-2r", econsts())
    emc(v, wd, "expire-2tasks-2r", econsts(Tasks={"u1", "u2"}, MaxEdits=1,
                                           ModVals={"mold", "medge_new", "mbad", "~"}), timeout=1500)
    if thorough:
        emc(v, wd, "expire-1task-3r", econsts(Replicas={"r1", "r2", "r3"}, MaxEdits=2,
                                              ModVals={"mold", "medge_old", "medge_new", "mhuge", "~"}),
            timeout=1700)
    emc(v, wd, "expire-completed-too", econsts(Dev={"EXP1"}), expect="ExpireExact")

    # 2. real expire_tasks (wall clock; classes built relative to the clock of the run), then syncs
    g = econsts(MaxChain=12)
    sch, _ = egen(wd, "gen-expire-1task", g, 1500 if thorough else 250, 60)
    v.distinct += distinct_count(sch)
    conform(v, wd, "expire-1task", g, sch)
    g2 = econsts(Tasks={"u1", "u2", "u3"}, MaxEdits=2, MaxChain=12)
    sch, _ = egen(wd, "gen-expire-3tasks", g2, 1500 if thorough else 150, 70)
    v.distinct += distinct_count(sch)
    conform(v, wd, "expire-3tasks", g2, sch)
    conform(v, wd, "expire-3tasks-sqlite", g2, sch[:300] if thorough else sch[:40], storage="sqlite")

    v.finish("model_checking",
             rule="TLC enumerates every task over status {deleted, pending, completed} x "
                  "modification-time class {200 d old, just older / just younger than 180 d, "
                  "recent, future, non-numeric, empty, i64::MAX, i64::MIN, fractional, missing}, "
                  "one replica expiring while another concurrently updates / re-opens / touches "
                  "the task, and every sync order, checking ExpireExact and PurgedEverywhere; the "
                  "same cases run on real replicas (expire_tasks with the wall clock) and every "
                  "committed deletion is validated against the specification; distinct = "
                  "distinct schedules",
             assumptions=["boundary classes are 300 s away from the 180-day threshold, so a run "
                          "must not take longer than that between building a task and expiring it"])
