"""C17 Concurrent handles on one SQLite replica serialise without loss.

TLC is exhaustive on the locking model (SqliteTxn.tla: BEGIN IMMEDIATE, atomic COMMIT) for 2-3
handles x 2 transactions: Serializable (the committed states are the fold of the committed
transactions in commit order), NoPartialTxn.  The implementation is SAMPLED over OS schedules:
2-8 workers (threads and child processes, each with its own SqliteStorage handle) commit tagged
batches through Replica::commit_operations, undo, rebuild and read on one directory; afterwards
the stored operations (whose stored order is the serialisation order) and tasks are audited by
TLC (TraceSqliteTxn.tla, Audit)."""
import json
import re
import os
import shutil
import time

import vlib
from vlib import Verdict, build_harness, workdir, log, seed, write_replay

import c06
from c06 import consts, mc, validate, trace_consts, scratch, JVM_LIGHT


def run_concurrent(wd, name, runs, iters, mode, wmin=2, wmax=8, sd=1):
    trace = os.path.join(wd, name + ".trace.ndjson")
    d = scratch("C17-" + name)
    os.makedirs(d, exist_ok=True)
    t0 = time.time()
    try:
        p = vlib.run_harness(["sqlite-concurrent", "--dir", d, "--out", trace, "--runs", str(runs),
                              "--iters", str(iters), "--wmin", str(wmin), "--wmax", str(wmax),
                              "--mode", mode, "--seed", str(sd)])
    finally:
        shutil.rmtree(d, ignore_errors=True)
    stats = json.loads(p.stdout.strip().splitlines()[-1])
    log(f"[concurrent] {name}: {runs} runs ({mode}), {stats}, {time.time() - t0:.1f}s")
    return trace, stats


def run(tier):
    v = Verdict("C17", tier)
    wd = workdir("C17-" + tier)
    build_harness()
    os.environ.setdefault("JAVA_TOOL_OPTIONS", "-Xss512m " + JVM_LIGHT)
    thorough = tier == "thorough"
    invs = ["LockOK", "NoPartialTxn", "Serializable", "DiskReplicaInvariant"]

    # 1. the locking model, exhaustively
    mc(v, wd, "two-handles-2-txn", consts(Faults=False, MaxKills=0), invs=invs)
    mc(v, wd, "three-handles-2-txn-edit-undo",
       consts(Handles={"h1", "h2", "h3"}, ActKinds={"Edit", "Undo"}, Faults=False, MaxKills=0,
              Tasks={"u11", "u12", "u21", "u22", "u31", "u32"},
              Vals={"pending", "completed", "w1", "w2", "w3"}), invs=invs, timeout=1500)
    if thorough:
        mc(v, wd, "three-handles-2-txn-edit-kills",
           consts(Handles={"h1", "h2", "h3"}, ActKinds={"Edit"}, Faults=True, MaxKills=2,
                  Tasks={"u11", "u12", "u21", "u22", "u31", "u32"},
                  Vals={"pending", "completed", "w1", "w2", "w3"}),
           invs=invs + ["KillAtomic"], timeout=1500)
    # anti-vacuity: without the write lock around the whole transaction two handles overwrite
    # each other (Serializable); a commit in two transactions shows a partial state
    small = consts(Faults=False, MaxKills=0, ActKinds={"Edit"})
    mc(v, wd, "dev-deferred-begin", dict(small, TDev={"DEFERRED"}), invs=invs,
       expect="Serializable")
    mc(v, wd, "dev-two-transaction-commit", dict(small, TDev={"TWOTXN"}), invs=invs,
       expect="NoPartialTxn")

    # 2. the implementation, sampled over OS schedules
    plan = [("threads", 60, 5), ("procs", 40, 5), ("mixed", 100, 6)]
    if thorough:
        plan = [("threads", 800, 6), ("procs", 600, 6), ("mixed", 1600, 7)]
    total = {}
    traces = []
    for k, (mode, runs, iters) in enumerate(plan):
        tr, st = run_concurrent(wd, f"concurrent-{mode}", runs, iters, mode, sd=seed() * 31 + k)
        traces.append((mode, tr))
        for a, b in st.items():
            total[a] = total.get(a, 0) + b
    v.extra["os_schedules"] = {"note": "OS schedules are SAMPLED, not enumerated: each run is one "
                                       "schedule chosen by the operating system",
                               "counts": total}
    v.evaluations += total.get("runs_audited", 0)
    for mode, tr in traces:
        evs = [json.loads(x) for x in open(tr)]
        tc = trace_consts(evs, handles=("h1",))
        validate(v, wd, f"audit-{mode}", tr, tc, driver="sqlite-concurrent", chunk=400)
        # how many of the sampled schedules really interleaved the handles: the stored order
        # alternates between batches of different workers more often than a serial execution
        # of the workers one after the other would
        inter = 0
        for e in evs:
            if e["a"] != "Audit":
                continue
            owners = [int(o["u"][1:]) // 100 for o in e["db"]["ops"] if o["k"] == "C"]
            switches = sum(1 for x, y in zip(owners, owners[1:]) if x != y)
            if switches >= len(set(owners)):
                inter += 1
        v.extra.setdefault("runs_whose_stored_order_interleaves_handles", {})[mode] = inter
        if not v.samples:
            a = next(e for e in evs if e["a"] == "Audit")
            v.samples.append({"mode": mode, "commits": len(a["commits"]), "undone": len(a["undone"]),
                              "stored_operations": len(a["db"]["ops"]),
                              "first_events": a["events"][:4]})
    # an undo that returns an error leaves its run unaudited.  The only error a serialising
    # store can give here is "busy / locked"; anything else (e.g. "Last operation does not
    # match": the operations checked at the start of the undo are no longer the tail when it
    # removes them) shows a transaction that was not isolated
    anomalies = 0
    for mode, tr in traces:
        inc = tr + ".inconclusive"
        if not os.path.exists(inc):
            continue
        for line in open(inc):
            e = json.loads(line)
            bad = [m for m in e.get("undo_errors", [])
                   if not re.search(r"locked|busy", str(m), re.I)]
            if bad and anomalies < 3:
                p = write_replay(v.pid, f"concurrent-{mode}-run{e['id']}",
                                 {"kind": "concurrent-anomaly", "mode": mode, "run": e,
                                  "what": "an undo failed with an error that a serialising store "
                                          "cannot give: " + str(bad[0])[:300]})
                v.violations.append((f"concurrent handles ({mode}): an undo failed with "
                                     f"'{str(bad[0])[:200]}'", p))
            anomalies += 1 if bad else 0
    v.extra["unaudited_runs_with_non_lock_undo_errors"] = anomalies
    if not anomalies and total.get("inconclusive_runs", 0) > total.get("runs_audited", 0) // 10:
        v.tool_errors.append("too many inconclusive runs (an undo returned a busy/locked error)")

    # 3. binding demonstration: a corrupted audit must be rejected -- one stored operation of a
    #    successful commit removed (a lost update), and one duplicated
    mode, tr = traces[0]
    evs = [json.loads(x) for x in open(tr)]
    tc = trace_consts(evs, handles=("h1",))
    for what in ("lost", "duplicated", "partially-visible"):
        out = []
        done = False
        for e in evs:
            e = json.loads(json.dumps(e))
            if e["a"] == "Audit" and not done and what == "partially-visible":
                # a reader saw a batch without its last operation
                for sn in e["snaps"]:
                    idx = [i for i, o in enumerate(sn["ops"]) if o["k"] == "U" and o["p"] == "tag"]
                    if idx:
                        u = sn["ops"][idx[-1]]["u"]
                        del sn["ops"][idx[-1]]
                        for t in sn["tasks"]:
                            if t[0] == u:
                                t[1] = [pv for pv in t[1] if pv[0] != "tag"]
                        done = True
                        break
            elif e["a"] == "Audit" and not done:
                ops = e["db"]["ops"]
                idx = [i for i, o in enumerate(ops) if o["k"] == "U" and o["p"] == "tag"]
                if idx:
                    if what == "lost":
                        del ops[idx[0]]
                    else:
                        ops.insert(idx[0], ops[idx[0]])
                    e["final"]["ops"] = list(ops)
                    done = True
            out.append(e)
            if done:
                break
        out = out[-2:]
        p = os.path.join(wd, f"corrupted-{what}.trace.ndjson")
        with open(p, "w") as f:
            for e in out:
                f.write(json.dumps(e) + "\n")
        if not done:
            v.tool_errors.append(f"self-test {what}: nothing to corrupt")
            continue
        nf = validate(v, wd, f"selftest-{what}-operation", p, tc, expect_reject=True, chunk=400)
        v.extra[f"selftest_{what}_operation_rejected"] = nf > 0
        if nf == 0:
            v.tool_errors.append(f"self-test: an audit with a {what} operation was accepted")

    v.finish("model_checking",
             rule="TLC checks Serializable (committed states = fold of the committed transactions "
                  "in commit order), NoPartialTxn and the replica invariant for every "
                  "interleaving of 2-3 handles x 2 transactions of the locking model "
                  "(exhaustive); the implementation is sampled: 2-8 threads / child processes, "
                  "each with its own SqliteStorage handle on one directory, commit tagged "
                  "batches, undo, rebuild and read; TLC audits the directory afterwards: replay "
                  "of the stored operations in stored order = stored tasks, every successful "
                  "commit entirely present as one uninterrupted run unless an undo withdrew it "
                  "(then entirely absent), every failed one absent, no operation or working-set "
                  "entry lost or duplicated; evaluations = audited runs",
             exhaustive=False,
             assumptions=["OS schedules are SAMPLED (counts in os_schedules); TLC is exhaustive "
                          "only on the locking model",
                          "SQLite busy errors ('database is locked') are legitimate failures of a "
                          "commit, not violations; a run in which an undo returned an error is "
                          "inconclusive and not audited",
                          "scratch directories on tmpfs if present"])
