"""bin/check --replay <file>: re-execute a recorded violation on the current tree."""
import json
import os
import sys

from vlib import (build_harness, run_harness, tlc_trace, write_cfg, workdir, log)


def main(path):
    r = json.load(open(path))
    pid = os.path.basename(path).split("-")[0]
    kind = r.get("kind")
    if kind == "tlc-counterexample":
        log(f"specification-level counterexample for {r['invariant']}; TLC output: {r['tlc_output']}")
        log(f"VIOLATION property={pid} replay={path}")
        sys.exit(1)
    if kind == "trace-rejection" and r.get("stimulus") is not None:
        build_harness()
        wd = workdir("replay")
        stim = os.path.join(wd, "stim.ndjson")
        with open(stim, "w") as f:
            f.write(json.dumps(r["stimulus"]) + "\n")
        trace = os.path.join(wd, "trace.ndjson")
        args = [r.get("driver", "sync-replay"), "--in", stim, "--out", trace]
        if r.get("storage") == "sqlite":
            args += ["--dir", os.path.join(wd, "sqlite")]
        run_harness(args)
        consts = {k: (set(v) if isinstance(v, list) else v) for k, v in r["constants"].items()}
        if r.get("trace_module") == "TraceCloud.tla":
            consts.setdefault("PageSize", 0)
            consts["Dev"] = set()          # judge against the repaired specification
        cfg = write_cfg(os.path.join(wd, "trace.cfg"), consts, spec="TSpec",
                        invariants=r.get("invariants") or
                        ["TypeOK", "ReplicaInvariant", "Converged", "NoOutOfSync",
                         "SnapshotFaithful", "WireClean"],
                        postcondition="Accepted")
        res = tlc_trace(wd, "tv", r.get("trace_module", "TraceSync.tla"), cfg, trace)
        if res["accepted"]:
            log(f"OK: the recorded stimulus is accepted on the current tree ({path})")
            sys.exit(0)
        log(f"  rejected at event {res['rejected_at']}: {json.dumps(res['event'])[:400]} "
            f"invariant={res['violated']}")
        log(f"VIOLATION property={pid} replay={path}")
        sys.exit(1)
    if kind == "chain-rejection" and r.get("stimulus") is not None:
        from chain_family import HARNESS
        build_harness()
        wd = workdir("replay")
        stim = os.path.join(wd, "stim.ndjson")
        with open(stim, "w") as f:
            f.write(json.dumps(dict(r["stimulus"], id=0, backend=r["backend"])) + "\n")
        trace = os.path.join(wd, "trace.ndjson")
        run_harness(["backend-replay", "--in", stim, "--out", trace, "--dir", os.path.join(wd, "d"),
                     "--git", os.path.join(HARNESS, "gitwrap.sh")])
        cfg = write_cfg(os.path.join(wd, "trace.cfg"), {"WithSnapshots": r["backend"] != "local"},
                        spec="TSpec", invariants=["VersionInvariant"], postcondition="Accepted")
        res = tlc_trace(wd, "tv", "TraceChain.tla", cfg, trace)
        if res["accepted"]:
            log(f"OK: the recorded call sequence is accepted on the current tree ({path})")
            sys.exit(0)
        log(f"  rejected at event {res['rejected_at']}: {json.dumps(res['event'])[:400]}")
        log(f"VIOLATION property={pid} replay={path}")
        sys.exit(1)
    # other families: show what was recorded and re-run the property's quick check, which
    # regenerates and re-executes the same stimuli (same VERIF_SEED)
    log(f"replay file of kind {kind}: {r.get('what')}")
    log(json.dumps(r, indent=1)[:2000])
    import importlib
    mod = importlib.import_module(pid.lower())
    mod.run("quick")
