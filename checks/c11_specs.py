"""Model checking of the backends' internal steps with stops / failing commands (C11)."""
import os
from vlib import tlc_check, write_cfg, log


def _run(v, wd, name, module, consts, invs, expect=None, timeout=900):
    cfg = write_cfg(os.path.join(wd, name + ".cfg"), consts, init="Init", next_="Next",
                    invariants=invs)
    r = tlc_check(wd, name, module, cfg, timeout=timeout)
    log(f"[mc] {name}: {r['distinct']} distinct / {r['states']} generated, depth {r['depth']}, "
        f"{r['wall_s']}s, violated={r['violated']}, timed_out={r['timed_out']}")
    v.mc(r, expect_violation=expect)


def backend_specs(v, wd, thorough):
    linv = ["OneChild", "VisibleIsAccepted"]
    lc = {"Handles": {"h1", "h2"}, "MaxVer": 4, "MaxOps": 4, "TwoTxns": False}
    _run(v, wd, "local-one-transaction", "LocalStore.tla", lc, linv)
    _run(v, wd, "local-pinned-two-transactions", "LocalStore.tla", dict(lc, TwoTxns=True), linv,
         expect="OneChild")
    ginv = ["ChainWhole", "OneChild", "NoUnpushedServed", "Durable", "NoFalseRejection"]
    fixed = {"FixInitReset": True, "FixInitRemote": True, "FixErrRollback": True, "FixOwnPush": True}
    pinned = {k: False for k in fixed}
    gl = dict({"Clones": {"c1"}, "MaxVer": 3, "MaxOps": 4, "MaxFaults": 2, "RemoteMode": False}, **fixed)
    _run(v, wd, "git-local-only-repaired", "GitStore.tla", gl, ginv + ["NoPhantom"])
    _run(v, wd, "git-local-only-pinned", "GitStore.tla", dict(gl, **pinned, MaxFaults=1),
         ginv + ["NoPhantom"], expect="NoPhantom")
    gr = dict({"Clones": {"c1", "c2"}, "MaxVer": 4 if thorough else 3, "MaxOps": 4 if thorough else 3,
               "MaxFaults": 2 if thorough else 1, "RemoteMode": True}, **fixed)
    _run(v, wd, "git-remote-repaired", "GitStore.tla", gr, ginv, timeout=1500)
    _run(v, wd, "git-remote-pinned", "GitStore.tla", dict(gr, **pinned, MaxFaults=1), ginv,
         expect="NoUnpushedServed")
    # G7: a push whose reply is lost; before fix b5f755c the call answered "rejected"
    _run(v, wd, "git-remote-lost-push-reply-unrepaired", "GitStore.tla", dict(gr, FixOwnPush=False, MaxFaults=1),
         ginv, expect="NoFalseRejection")
