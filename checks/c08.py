"""C08 Every server backend implements the version-chain protocol exactly."""
from chain_family import *


def run(tier):
    v = Verdict("C08", tier)
    wd = workdir("C08-" + tier)
    build_harness()
    thorough = tier == "thorough"
    allcalls = {"AV", "GC", "AS", "GS", "Reopen"}
    bodies = {"small", "empty", "bin", "big"}

    # 1. the protocol itself
    chain_mc(v, wd, "protocol-1h", mconsts(Calls=allcalls, MaxLen=5, Bodies={"small"}))
    chain_mc(v, wd, "protocol-2h", mconsts(Handles={"h1", "h2"}, Calls={"AV", "GC", "AS"}, MaxLen=4))
    chain_mc(v, wd, "protocol-accepting-stale-parent", mconsts(MaxLen=4, DevFork=True),
             expect="VersionInvariant")
    # 1b. discarding (git: versions older than the retention age and covered by the stored
    # snapshot are removed after add_snapshot): whatever is discarded stays covered by the
    # snapshot the server holds, so a new replica can reach the latest state
    retain = dict(Calls={"AV", "GC", "AS", "GS", "Epoch"}, ParentChoices={"latest", "prev", "first", "nil"},
                  SingleSnap=True, TrimRule="covered", OlderSnaps=False)
    inv2 = ("VersionInvariant", "MReconstructible")
    chain_mc(v, wd, "discard-covered", mconsts(MaxLen=5, **retain), invariants=inv2)
    chain_mc(v, wd, "discard-every-old-version", mconsts(MaxLen=5, **dict(retain, TrimRule="allold")),
             invariants=inv2, expect="MReconstructible")
    # known hazard of a single-snapshot backend, outside the listed properties (DESIGN 11.7):
    # a snapshot for an OLDER version stored after a discard uncovers discarded versions
    chain_mc(v, wd, "discard-then-older-snapshot", mconsts(MaxLen=5, **dict(retain, OlderSnaps=True)),
             invariants=inv2, expect="MReconstructible")

    # 2. the same call sequences on every backend
    n = 4 if not thorough else 5
    seq1 = chain_gen(wd, "gen-1h", mconsts(Calls={"AV", "GC", "Reopen"}, MaxLen=n, Bodies={"small"}),
                     limit=1500 if thorough else 120)
    seqs = chain_gen(wd, "gen-1h-snap-bodies", mconsts(Calls=allcalls, MaxLen=7, Bodies=bodies),
                     simulate=1500 if thorough else 60)
    seq2 = chain_gen(wd, "gen-2h", mconsts(Handles={"h1", "h2"}, Calls={"AV", "GC", "AS", "GS"},
                                           MaxLen=7, Bodies={"small", "bin"}),
                     simulate=1500 if thorough else 60)
    v.distinct += len(seq1) + len(seqs) + len(seq2)
    nolocal = lambda ss: [[s for s in h if s["a"] != "AS"] for h in ss]
    B = lambda ss: [{"steps": h} for h in ss]
    chain_conform(v, wd, "local-1h", "local", B(nolocal(seq1 + seqs)), snapshots=False)
    chain_conform(v, wd, "local-2h", "local", B(nolocal(seq2)), snapshots=False)
    chain_conform(v, wd, "cloud-1h", "cloud", B(seq1 + seqs))
    chain_conform(v, wd, "cloud-2h", "cloud", B(seq2))
    chain_conform(v, wd, "http-1h", "http", B(seq1 + seqs))
    chain_conform(v, wd, "http-2h", "http", B(seq2))
    g = 8 if not thorough else 300      # ~2 s per sequence (git commands, key derivation)
    rnd = random.Random(seed())
    chain_conform(v, wd, "git-local-1h", "git-local", B(rnd.sample(seq1 + seqs, g)))
    chain_conform(v, wd, "git-remote-2h", "git-remote", B(rnd.sample(seq2, g)))
    # git with commits backdated beyond the retention age until an "Epoch" step: add_snapshot
    # really discards version files (the repository's tests set the private retention to zero)
    seqr = chain_gen(wd, "gen-retention", mconsts(MaxLen=8, Bodies={"small"}, **retain),
                     simulate=600 if thorough else 40)
    seqr2 = chain_gen(wd, "gen-retention-2h", mconsts(Handles={"h1", "h2"}, MaxLen=8, Bodies={"small"}, **retain),
                      simulate=600 if thorough else 40)
    v.distinct += len(seqr) + len(seqr2)
    BR = lambda ss: [{"steps": h, "old_epoch": True} for h in ss]

    def telling(h):
        """a snapshot stored after at least two versions and something read afterwards"""
        names = [s["a"] for s in h]
        if "AS" not in names:
            return False
        i = names.index("AS")
        return names[:i].count("AV") >= 2 and any(a in ("GC", "GS", "AV") for a in names[i + 1:])
    seqr = [h for h in seqr if telling(h)] or seqr
    seqr2 = [h for h in seqr2 if telling(h)] or seqr2
    gr = 6 if not thorough else 200
    chain_conform(v, wd, "git-local-retention", "git-local", BR(rnd.sample(seqr, min(gr, len(seqr)))),
                  git_wrap=True, trim=True)
    chain_conform(v, wd, "git-remote-retention", "git-remote", BR(rnd.sample(seqr2, min(gr if thorough else 4, len(seqr2)))),
                  git_wrap=True, trim=True)
    trim_selftest(v, wd, "git-local-retention")
    if not v.extra.get("discards_observed"):
        v.drift.append("git retention families: no discarded version was observed (cleanup after "
                       "add_snapshot removed nothing)")

    v.finish("model_checking",
             rule="TLC enumerates call sequences (add-version with parent latest / previous / nil "
                  "/ unknown, get-child-version, add/get-snapshot, reopen; payload classes small, "
                  "empty, all 256 byte values, 1.2 MB) from one or two handles; each sequence is "
                  "run on the local, object-store, HTTP and git (local-only; two clones of a bare "
                  "remote) backends and every reply is validated by TLC against ChainServer "
                  "(returned bytes compared exactly); distinct = distinct call sequences",
             assumptions=["the HTTP server is the harness's implementation of docs/src/http.md; "
                          "the object store is the in-memory Service of the hook; the local "
                          "backend does not support snapshots (add_snapshot is unreachable!())"])
