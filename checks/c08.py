"""C08 Every server backend implements the version-chain protocol exactly."""
from chain_family import *


def run(tier):
    v = Verdict("C08", tier)
    wd = workdir("C08-" + tier)
    build_harness()
    thorough = tier == "thorough"
    allcalls = {"AV", "GC", "AS", "GS", "Reopen"}
    bodies = {"small", "empty", "bin", "big"}

    # 1. the protocol itself
    chain_mc(v, wd, "protocol-1h", mconsts(Calls=allcalls, MaxLen=5, Bodies={"small"}))
    chain_mc(v, wd, "protocol-2h", mconsts(Handles={"h1", "h2"}, Calls={"AV", "GC", "AS"}, MaxLen=4))
    chain_mc(v, wd, "protocol-accepting-stale-parent", mconsts(MaxLen=4, DevFork=True),
             expect="VersionInvariant")

    # 2. the same call sequences on every backend
    n = 4 if not thorough else 5
    seq1 = chain_gen(wd, "gen-1h", mconsts(Calls={"AV", "GC", "Reopen"}, MaxLen=n, Bodies={"small"}),
                     limit=1500 if thorough else 120)
    seqs = chain_gen(wd, "gen-1h-snap-bodies", mconsts(Calls=allcalls, MaxLen=7, Bodies=bodies),
                     simulate=1500 if thorough else 60)
    seq2 = chain_gen(wd, "gen-2h", mconsts(Handles={"h1", "h2"}, Calls={"AV", "GC", "AS", "GS"},
                                           MaxLen=7, Bodies={"small", "bin"}),
                     simulate=1500 if thorough else 60)
    v.distinct += len(seq1) + len(seqs) + len(seq2)
    nolocal = lambda ss: [[s for s in h if s["a"] != "AS"] for h in ss]
    B = lambda ss: [{"steps": h} for h in ss]
    chain_conform(v, wd, "local-1h", "local", B(nolocal(seq1 + seqs)), snapshots=False)
    chain_conform(v, wd, "local-2h", "local", B(nolocal(seq2)), snapshots=False)
    chain_conform(v, wd, "cloud-1h", "cloud", B(seq1 + seqs))
    chain_conform(v, wd, "cloud-2h", "cloud", B(seq2))
    chain_conform(v, wd, "http-1h", "http", B(seq1 + seqs))
    chain_conform(v, wd, "http-2h", "http", B(seq2))
    g = 8 if not thorough else 300      # ~2 s per sequence (git commands, key derivation)
    rnd = random.Random(seed())
    chain_conform(v, wd, "git-local-1h", "git-local", B(rnd.sample(seq1 + seqs, g)))
    chain_conform(v, wd, "git-remote-2h", "git-remote", B(rnd.sample(seq2, g)))

    v.finish("model_checking",
             rule="TLC enumerates call sequences (add-version with parent latest / previous / nil "
                  "/ unknown, get-child-version, add/get-snapshot, reopen; payload classes small, "
                  "empty, all 256 byte values, 1.2 MB) from one or two handles; each sequence is "
                  "run on the local, object-store, HTTP and git (local-only; two clones of a bare "
                  "remote) backends and every reply is validated by TLC against ChainServer "
                  "(returned bytes compared exactly); distinct = distinct call sequences",
             assumptions=["the HTTP server is the harness's implementation of docs/src/http.md; "
                          "the object store is the in-memory Service of the hook; the local "
                          "backend does not support snapshots (add_snapshot is unreachable!())"])
