"""C02 Convergence survives racing syncs and rejected versions."""
from sync_family import *

RINVS = INVS + ["NoDuplicateSend"]


def run(tier):
    v = Verdict("C02", tier)
    wd = workdir("C02-" + tier)
    build_harness()
    thorough = tier == "thorough"

    # 1. every interleaving of the requests of concurrent syncs, over all prior local histories
    c2 = consts(Props={"p", "q"}, Racing=True, MaxPending=2, MaxLong=2, MaxEdits=0, MaxChain=8)
    mc_run(v, wd, "race-2r-phased", c2, init="PInit", invs=RINVS, timeout=600)
    # free edits racing with syncs (edits only on idle replicas)
    cf = consts(Racing=True, MaxPending=2, MaxEdits=3 if not thorough else 4, MaxChain=4)
    mc_run(v, wd, "race-2r-free-edits", cf, timeout=900)
    # batches: every operation its own version, so a sync is rejected between its versions
    cb = consts(Props={"p", "q"}, Racing=True, MaxPending=2, MaxLong=2, MaxEdits=0, MaxChain=8,
                Cap=1)
    mc_run(v, wd, "race-2r-phased-batches", cb, init="PInit", invs=RINVS, timeout=600)
    if thorough:
        c3 = consts(Replicas={"r1", "r2", "r3"}, Vals={"a", "b", "c"}, Props={"p", "q"},
                    Racing=True, MaxPending=2, MaxLong=1, MaxEdits=0, MaxChain=8)
        mc_run(v, wd, "race-3r-phased", c3, init="PInit", invs=RINVS, timeout=1700)
    # anti-vacuity: the pinned retry (D3: re-reads un-rebased operations) must be refuted
    mc_run(v, wd, "race-2r-pinned-loop", dict(cb, Dev={"PIN"}), init="PInit", invs=RINVS,
           timeout=600, expect="ReplicaInvariant")

    # 2. TLC schedules replayed request by request on real Replica::sync futures
    g2 = consts(Props={"p", "q"}, Racing=True, MaxPending=2, MaxLong=2, MaxEdits=0, MaxChain=12,
                Times={1, 2})
    if thorough:   # all interleavings of all prior histories (sampled down to 4000)
        sch, _ = gen_schedules(wd, "gen-race-2r", dict(g2, Props={"p"}), init="PInit",
                               timeout=600, limit=4000)
    else:
        sch, _ = gen_schedules(wd, "gen-race-2r", dict(g2, Props={"p"}), init="PInit",
                               simulate=300, depth=60)
    v.distinct += distinct_count(sch)
    conform(v, wd, "race-2r-exh", dict(g2, Props={"p"}), sch, invs=RINVS)
    g2b = dict(g2, BigVals=g2["Vals"])   # every update its own version
    sch, _ = gen_schedules(wd, "gen-race-2r-batches", g2b, init="PInit", simulate=2000 if thorough else 250,
                           depth=80)
    v.distinct += distinct_count(sch)
    conform(v, wd, "race-2r-batches", g2b, sch, invs=RINVS)
    g3 = consts(Replicas={"r1", "r2", "r3"}, Vals={"a", "b", "c"}, Props={"p", "q"}, Racing=True,
                MaxPending=2, MaxLong=3, MaxEdits=0, MaxChain=20)
    sch, _ = gen_schedules(wd, "gen-race-3r", g3, init="PInit", simulate=3000 if thorough else 250,
                           depth=120)
    v.distinct += distinct_count(sch)
    conform(v, wd, "race-3r-sim", g3, sch, invs=RINVS)
    # situations random schedules rarely reach: a sync whose add_version is rejected twice; one
    # rejected after one of its own versions was accepted (several versions per sync)
    gs = consts(Replicas={"r1", "r2", "r3"}, Vals={"a", "b", "c"}, Props={"p"}, Racing=True,
                MaxPending=1, MaxLong=0, MaxEdits=0, MaxChain=8)
    w = gen_situations(wd, "sit-reject2", gs, "reject2", limit=60 if thorough else 16, timeout=600)
    v.distinct += distinct_count(w)
    conform(v, wd, "sit-reject2", gs, w, invs=RINVS)
    gm = consts(Replicas={"r1", "r2"}, Props={"p", "q"}, Racing=True, MaxPending=2, MaxLong=2,
                MaxEdits=0, MaxChain=8, BigVals={"a", "b"})
    w = gen_situations(wd, "sit-rejectmid", gm, "rejectmid", limit=60 if thorough else 16, timeout=600)
    v.distinct += distinct_count(w)
    conform(v, wd, "sit-rejectmid", gm, w, invs=RINVS)
    if thorough:
        conform(v, wd, "race-3r-sqlite", g3, sch[:300], invs=RINVS, storage="sqlite")
        g3b = dict(g3, BigVals=g3["Vals"])
        sch, _ = gen_schedules(wd, "gen-race-3r-batches", g3b, init="PInit", simulate=2000, depth=150)
        conform(v, wd, "race-3r-batches", g3b, sch, invs=RINVS)

    v.finish("model_checking",
             rule="TLC visits every interleaving, at single-request grain, of concurrent syncs "
                  "over all prior local histories (phased init); schedules are replayed by "
                  "granting requests one at a time to real sync futures; distinct = distinct "
                  "schedules, all non-trivial (>= 2 syncs in flight)",
             assumptions=["requests are atomic at the server (true of the protocol; backends "
                          "are covered by C08/C09)"])
