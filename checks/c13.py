"""C13 Data leaving the host is sealed, version-bound and tamper-evident.

Seal.tla (symbolic terms) is model checked with TLC (binding / tamper logic, anti-vacuity
deviations); MCSeal emits behaviours that the harness (sealdrv.rs) replays on the hook seal/unseal
and on the three remote backends; everything stored is decoded by an independent implementation
of docs/src/encryption.md and validated, with every read outcome and the full tamper sweep,
against TraceSeal.tla; a pure-Python RFC 8439 implementation re-opens sample blobs."""
import concurrent.futures as cf
import json
import os
import random
import time

import c13_ref
from vlib import (Verdict, build_harness, run_harness, tlc_check, tlc_trace, write_cfg,
                  replay_lines, drop_prefixes, workdir, log, seed, behaviour_at, write_replay,
                  split_behaviours)

INVS = ["TypeOK", "ReturnedWasSealed", "DocumentedForm", "NoncesUnique", "NoPlaintextStored"]
BASE = {"Secrets": {"k1", "k2"}, "Salts": {"s1", "s2"}, "Vids": {"v0", "v1", "v2", "v3"},
        "Payloads": {"p1", "p100"}, "Dev": set(),
        "Backends": {"http", "cloud", "git", "raw"}, "WSecrets": {"k1"}, "MaxVers": 2,
        "MaxSnaps": 1, "MaxRaw": 2, "MaxMut": 1, "MaxReads": 1,
        "Muts": {"flip", "cut", "fmt", "relabel", "foreign"}, "Emit": False, "MaxLen": 99}
TRACE_CONSTS = {"Secrets": {"k0", "k1", "k2", "k3"}, "Salts": {"s1", "s2", "s3"},
                "Vids": {"v0", "v1", "v2", "v3", "v4", "v5", "v6"},
                "Payloads": {"p0", "p1", "p2", "p100", "p70k"}, "Dev": set()}
# deviation -> invariant that must fail under it
DEVS = [("OpenIgnoresVid", "ReturnedWasSealed"), ("NonceReuse", "NoncesUnique"),
        ("OpenIgnoresTag", "ReturnedWasSealed"), ("OpenIgnoresFmt", "ReturnedWasSealed"),
        ("HttpOwnId", "DocumentedForm"), ("CloudParentId", "DocumentedForm"),
        ("ClearText", "NoPlaintextStored")]


def consts(**kw):
    c = dict(BASE)
    c.update(kw)
    return c


def mc(wd, name, c, invs=INVS, timeout=600, workers=None):
    cfg = write_cfg(os.path.join(wd, name + ".cfg"), c, init="MInit", next_="MNext",
                    invariants=invs, view="MView")
    r = tlc_check(wd, name, "MCSeal.tla", cfg, timeout=timeout, workers=workers)
    log(f"[mc] {name}: {r['distinct']} distinct / {r['states']} generated, depth {r['depth']}, "
        f"{r['wall_s']}s, violated={r['violated']}, timed_out={r['timed_out']}")
    return r


def gen(wd, name, c, simulate=None, depth=None, timeout=300, limit=None):
    c = dict(c, Emit=True)
    cfg = write_cfg(os.path.join(wd, name + ".cfg"), c, init="MInit", next_="MNext",
                    invariants=["MEmit"], constraint=None if simulate else "HBound")
    r = tlc_check(wd, name, "MCSeal.tla", cfg, timeout=timeout, simulate=simulate, depth=depth,
                  seed_=seed(), workers=1 if simulate else 4)
    sch = drop_prefixes(replay_lines(r["out"]))
    rnd = random.Random(seed())
    by = {}
    for h in sch:
        by.setdefault(h[0]["m"], []).append(h)
    out = []
    for b, hs in sorted(by.items()):
        lim = (limit or {}).get(b)
        if lim is not None and len(hs) > lim:
            hs = rnd.sample(hs, lim)
        out += hs
    log(f"[gen] {name}: {len(sch)} behaviours ({'simulation' if simulate else 'exhaustive'}, "
        f"{r['wall_s']}s), kept " + ", ".join(f"{b}:{sum(1 for h in out if h[0]['m'] == b)}"
                                             for b in sorted(by)))
    os.remove(r["out"])
    return out


def validate(wd, name, trace, invs=INVS, timeout=900):
    tcfg = write_cfg(os.path.join(wd, name + ".trace.cfg"), TRACE_CONSTS, spec="TSpec",
                     invariants=invs, postcondition="Accepted")
    r = tlc_trace(wd, name + ".tv", "TraceSeal.tla", tcfg, trace, timeout=timeout)
    r["trace"] = trace
    r["check"] = name
    r["nev"] = sum(1 for _ in open(trace))
    return r


def account(v, r, driver, stimuli=None):
    """Account for a validated trace; a rejected event or a violated invariant is a violation
    of the property (the specification IS the property-level description)."""
    name = r["check"]
    if r["accepted"]:
        v.traces += len(split_behaviours(r["trace"]))
        v.events += r["nev"]
        log(f"[conform] {name}: {r['nev']} events accepted ({r['wall_s']}s)")
        return True
    if r["timed_out"] or (r["rejected_at"] is None and not r["violated"]):
        v.tool_errors.append(f"{name}: trace validation did not finish: {r.get('error')} "
                             f"(see {r['out']})")
        return False
    line = r["rejected_at"] if r["rejected_at"] else r.get("violated_at_line", 1)
    k, lines, off = behaviour_at(r["trace"], line)
    bid = json.loads(lines[0]).get("id") if lines else None
    what = (f"invariant {r['violated']} violated while following the recorded execution"
            if r["violated"] else
            f"recorded step is not a step of Seal.tla: {json.dumps(r['event'])[:400]}")
    payload = {"kind": "trace-rejection", "check": name, "behaviour": bid, "driver": driver,
               "stimulus": (stimuli[bid] if stimuli and isinstance(bid, int) and bid < len(stimuli)
                            else None),
               "rejected_event_index": off, "rejected_event": r["event"],
               "invariant": r["violated"], "trace": [json.loads(x) for x in lines],
               "what": what, "trace_module": "TraceSeal.tla", "invariants": INVS,
               "constants": {k2: sorted(v2) for k2, v2 in TRACE_CONSTS.items()}}
    p = write_replay(v.pid, f"{name}-b{bid}", payload)
    v.violations.append((what, p))
    return False


def expect_rejection(wd, name, trace, edit, what):
    """Binding demonstration: corrupt one recorded field; TLC must reject the trace at it."""
    lines = open(trace).read().splitlines()
    idx = None
    for i, ln in enumerate(lines):
        e = json.loads(ln)
        e2 = edit(e)
        if e2 is not None:
            lines[i] = json.dumps(e2)
            idx = i + 1
            break
    if idx is None:
        return {"what": what, "ok": False, "why": "no event to corrupt"}
    p = os.path.join(wd, name + ".ndjson")
    with open(p, "w") as f:
        f.write("\n".join(lines[:idx + 3]) + "\n")
    r = validate(wd, name, p, timeout=300)
    ok = (not r["accepted"]) and (r["rejected_at"] == idx or bool(r["violated"]))
    log(f"[selftest] {what}: corrupted event {idx}, rejected_at={r['rejected_at']}, "
        f"violated={r['violated']} -> {'ok' if ok else 'NOT DETECTED'}")
    return {"what": what, "ok": ok, "event": idx, "rejected_at": r["rejected_at"],
            "violated": r["violated"]}


def ref_check(dump):
    """Re-open dumped blobs with the pure-Python implementation."""
    c13_ref.selftest()
    n = 0
    bad = []
    for ln in open(dump):
        d = json.loads(ln)
        blob, pt = bytes.fromhex(d["blob"]), bytes.fromhex(d["pt"])
        sec, salt = bytes.fromhex(d["secret"]), bytes.fromhex(d["salt"])
        own, par = bytes.fromhex(d["vids"]["own"]), bytes.fromhex(d["vids"]["parent"])
        bound = own if d["bound"] == d["lab"][2] else par if d["bound"] == d["lab"][1] else None
        other = par if bound == own else own
        if bound is None:
            bad.append((d, "the harness decoder found no binding"))
            continue
        if c13_ref.open_envelope(sec, salt, bound, blob) != pt:
            bad.append((d, "reference implementation cannot open the blob for the bound id"))
        if other != bound and c13_ref.open_envelope(sec, salt, other, blob) is not None:
            bad.append((d, "blob also opens for the other version id"))
        flipped = bytearray(blob)
        flipped[len(flipped) // 2] ^= 1
        if c13_ref.open_envelope(sec, salt, bound, bytes(flipped)) is not None:
            bad.append((d, "reference implementation accepts a modified blob"))
        n += 1
    return n, bad


def stats(trace):
    """Figures for the evidence: sweeps, reads, re-labelled values that were returned."""
    s = {"sweep_mutations": 0, "sweeps": 0, "reads_returned": 0, "reads_refused": 0,
         "stored_values_decoded": 0, "scans": 0, "relabel_sweep_reads": 0,
         "returned_after_relabel": []}
    be = None
    prev = None
    for ln in open(trace):
        e = json.loads(ln)
        a = e["a"]
        if a == "Reset":
            be = e["backend"]
            prev = None
        elif a == "Sweep":
            s["sweeps"] += 1
            s["sweep_mutations"] += e["n"]
        elif a in ("AddVersion", "AddSnapshot", "SealRaw", "Foreign"):
            s["stored_values_decoded"] += 1
            prev = None
        elif a == "Scan":
            s["scans"] += 1
        elif a == "RelabelSweep":
            s["relabel_sweep_reads"] += len(e["results"])
            for to, res, _ in e["results"]:
                if res == "returned":
                    s["reads_returned"] += 1
                    s["returned_after_relabel"].append(
                        f"{be}: {'-'.join(e['from'])} offered as {'-'.join(to)}")
                else:
                    s["reads_refused"] += 1
        elif a in ("Relabel", "Mutate"):
            prev = e
        elif a == "Read":
            if e["res"] == "returned":
                s["reads_returned"] += 1
                if prev is not None and prev["a"] == "Relabel" and prev["lab"] == e["lab"]:
                    s["returned_after_relabel"].append(
                        f"{be}: {'-'.join(prev['from'])} offered as {'-'.join(e['lab'])}")
            else:
                s["reads_refused"] += 1
    s["returned_after_relabel"] = sorted(set(s["returned_after_relabel"]))
    return s


def concat_traces(out, traces):
    """One trace file out of several recorded runs; nonce indices (order of first appearance
    within a run) are shifted so that they stay global."""
    off = 0
    n = 0
    with open(out, "w") as f:
        for t in traces:
            top = 0
            for ln in open(t):
                e = json.loads(ln)
                if "term" in e and e["term"].get("nonce", 0) > 0:
                    top = max(top, e["term"]["nonce"])
                    e["term"]["nonce"] += off
                f.write(json.dumps(e, separators=(",", ":")) + "\n")
                n += 1
            off += top
    return n


def run(tier):
    v = Verdict("C13", tier)
    wd = workdir("C13-" + tier)
    build_harness()
    thorough = tier == "thorough"
    pool = cf.ThreadPoolExecutor(max_workers=12)
    sd = ["--seed", str(seed())] + (["--thorough"] if thorough else [])

    # ---- 1. the binding / tamper logic on symbolic terms (TLC, exhaustive) -------------------
    def main_mc():
        fs = [pool.submit(mc, wd, "seal-logic", consts(), INVS, 900, 6)]
        if thorough:
            fs.append(pool.submit(mc, wd, "seal-logic-2writers-2reads",
                                  consts(WSecrets={"k1", "k2"}, MaxReads=2, MaxRaw=1), INVS, 700, 5))
            fs.append(pool.submit(mc, wd, "seal-logic-2moves",
                                  consts(MaxMut=2, Backends={"http", "cloud"}, MaxRaw=0), INVS, 700, 5))
        return fs

    def dev_mc(dev, inv):
        c = consts(Dev={dev}, MaxRaw=1)
        if dev == "NonceReuse":
            c["Backends"] = {"raw", "cloud"}
            c["MaxRaw"] = 2
        return mc(wd, "dev-" + dev, c, timeout=300, workers=2), inv

    def witness_mc(inv):
        return mc(wd, "witness-" + inv, consts(Backends={"cloud", "raw"}, MaxRaw=1),
                  invs=[inv], timeout=300, workers=2), inv

    f_main = main_mc()
    f_devs = [pool.submit(dev_mc, d, i) for d, i in (DEVS if thorough else DEVS[:2])]
    f_wit = [pool.submit(witness_mc, i) for i in ("NeverReturned", "NeverRefused")] if thorough else []

    # ---- 2. the real code: raw hook vectors and sweep, the three backends, TLC's behaviours ---
    def harness(cmd, name, extra=()):
        t = os.path.join(wd, name + ".trace.ndjson")
        d = os.path.join(wd, name + ".dump.ndjson")
        t0 = time.time()
        run_harness([cmd, "--out", t, "--dump", d, "--dir", os.path.join(wd, name + ".dir")]
                    + sd + list(extra), timeout=1700)
        log(f"[harness] {cmd} {time.time() - t0:.0f}s, {sum(1 for _ in open(t))} events")
        return t, d

    def replayed():
        lim = ({"cloud": 4000, "http": 2500, "git": 400, "raw": 150} if thorough
               else {"cloud": 400, "http": 250, "git": 36, "raw": 16})
        sch = gen(wd, "gen", consts(WSecrets={"k1", "k2"}, MaxMut=2, MaxReads=2, MaxLen=9),
                  simulate=12000 if thorough else 1500, depth=10, limit=lim, timeout=600)
        if thorough:
            sch += gen(wd, "gen-long", consts(WSecrets={"k1", "k2"}, MaxMut=4, MaxReads=5, MaxLen=14),
                       simulate=4000, depth=15, limit={k: x // 3 for k, x in lim.items()})
        stim = os.path.join(wd, "replay.stim.ndjson")
        with open(stim, "w") as f:
            for i, h in enumerate(sch):
                f.write(json.dumps({"id": i, "backend": h[0]["m"], "steps": h[1:]}) + "\n")
        t, _ = harness("seal-replay", "replay", ["--in", stim])
        return t, sch

    f_vec = pool.submit(harness, "seal-vectors", "vectors")
    f_be = pool.submit(harness, "seal-backends", "backends")
    f_rep = pool.submit(replayed)

    # binding demonstrations: one corrupted field each must be rejected
    def e_bind(e):
        # an HTTP version claimed to be bound to its own id instead of its parent
        if e["a"] == "AddVersion" and e["term"]["aad"][1] == e["lab"][1] != e["lab"][2]:
            e["term"]["aad"][1] = e["lab"][2]
            return e

    def e_sweep(e):
        if e["a"] == "Sweep":
            e["returned"], e["errors"] = 1, e["errors"] - 1
            return e

    def e_read(e):
        if e["a"] == "Read" and e["res"] == "error":
            e["res"], e["pt"] = "returned", "p100"
            return e

    def e_nonce(e):
        if e["a"] in ("SealRaw", "AddVersion") and e["term"]["nonce"] >= 2:
            e["term"]["nonce"] -= 1
            return e

    def e_fmt(e):
        if e["a"] == "SealRaw":
            e["diag"]["fmt_byte"], e["term"]["fmt"] = 2, "2"
            return e

    def e_relabel(e):
        # what the seeded git change does: a version's bytes accepted as a child of itself
        if e["a"] == "RelabelSweep":
            for r in e["results"]:
                if r[1] == "error":
                    r[1], r[2] = "returned", "p100"
                    return e

    def e_clear(e):
        if e["a"] == "Scan":
            e["hits"] = 1
            return e

    tvec, dump_v = f_vec.result()
    f_self = [pool.submit(expect_rejection, wd, "st-sweep", tvec, e_sweep,
                          "one tampered value returned in a sweep")]
    if thorough:
        f_self += [pool.submit(expect_rejection, wd, "st-nonce", tvec, e_nonce, "a nonce used twice"),
                   pool.submit(expect_rejection, wd, "st-fmt", tvec, e_fmt, "format byte 2")]
    tbe, dump_b = f_be.result()
    f_self.append(pool.submit(expect_rejection, wd, "st-bind", tbe, e_bind,
                              "HTTP version bound to its own id"))
    f_self.append(pool.submit(expect_rejection, wd, "st-relabel", tbe, e_relabel,
                              "a re-labelled value reported as returned"))
    if thorough:
        f_self += [pool.submit(expect_rejection, wd, "st-read", tbe, e_read,
                               "a refused read reported as returned"),
                   pool.submit(expect_rejection, wd, "st-clear", tbe, e_clear,
                               "plaintext marker found in storage")]
    trep, sch = f_rep.result()

    # one TLC run validates the three recorded runs
    allt = os.path.join(wd, "all.trace.ndjson")
    concat_traces(allt, [tvec, tbe, trep])
    f_val = pool.submit(validate, wd, "all", allt)

    # pure-Python RFC 8439 / hashlib PBKDF2 cross-check of dumped blobs
    nref = 0
    for d in (dump_v, dump_b):
        n, bad = ref_check(d)
        nref += n
        for blob, why in bad[:3]:
            p = write_replay(v.pid, "ref-" + os.path.basename(d), {"kind": "reference-mismatch",
                                                                   "why": why, "blob": blob})
            v.violations.append((f"pure-Python reference implementation: {why}", p))
    log(f"[ref] {nref} dumped blobs re-opened with the pure-Python implementation")

    # ---- collect ---------------------------------------------------------------------------
    for f in f_main:
        v.mc(f.result())
    for f in f_devs + f_wit:
        r, inv = f.result()
        v.mc(r, expect_violation=inv)
    rv = f_val.result()
    stimuli = {i: {"backend": h[0]["m"], "steps": h[1:]} for i, h in enumerate(sch)}
    ok = account(v, rv, "seal-vectors / seal-backends / seal-replay")
    if not ok and v.violations:
        # name the run the rejected behaviour belongs to
        log("[conform] rejected; validating the three runs separately")
        v.violations.clear()
        for name, t, drv in (("vectors", tvec, "seal-vectors"), ("backends", tbe, "seal-backends"),
                             ("replay", trep, "seal-replay")):
            account(v, validate(wd, name, t), drv,
                    stimuli=[stimuli[i] for i in sorted(stimuli)] if name == "replay" else None)
    v.evaluations += len(sch)
    v.distinct += len({json.dumps(h) for h in sch})
    selftests = []
    for f in f_self:
        s = f.result()
        selftests.append(s)
        if not s["ok"]:
            v.tool_errors.append(f"binding self-test not detected: {s['what']}")
    pool.shutdown()

    sv, sb, sr = stats(tvec), stats(tbe), stats(trep)
    first = next((json.loads(ln) for ln in open(tbe) if '"a":"AddVersion"' in ln), None)
    if first:
        v.samples.append({"backend": "cloud", "event": first})
    v.samples.append({"sweeps_raw_hook": sv["sweeps"], "mutations": sv["sweep_mutations"]})
    v.samples.append({"sweeps_backends": sb["sweeps"], "mutations": sb["sweep_mutations"]})
    if sch:
        v.samples.append({"tlc_behaviour": sch[0]})
    extra = {
        "tamper_sweep": {"hook": sv, "backends": sb, "tlc_behaviours": sr},
        "reference_blobs_reopened_in_python": nref,
        "binding_selftests": selftests,
        "relabelled_values_returned": sorted(set(sb["returned_after_relabel"]
                                                 + sr["returned_after_relabel"]))[:80],
        "note_relabel": "values offered under a label that keeps the authenticated version id "
                        "(object store / git: same id under another parent or as the snapshot of "
                        "that id; HTTP: same parent with another child id, or a child version as "
                        "the snapshot of its parent) are returned: the documented AAD does not "
                        "cover those parts of the label",
    }
    v.finish("model_checking",
             rule="TLC explores every store reachable by <= 2 versions, 1 snapshot, 2 raw seals, "
                  "adversary moves (flip, cut, format byte, re-label to every label, foreign "
                  "value under every key) and reads under every key on symbolic terms; the "
                  "same behaviours, the payload classes {0,1,100,70000} and EVERY single-byte "
                  "flip (xor 0x01, 0x80) and EVERY truncation of sealed values of the small "
                  "classes (70000: sampled in quick, all through the object store in thorough) "
                  "run on the real hook / object store / HTTP client / git backend; every stored "
                  "value is decoded by an independent implementation and every outcome "
                  "validated against Seal.tla",
             exhaustive=True,
             assumptions=["ChaCha20-Poly1305, PBKDF2-HMAC-SHA256 and the random generator of "
                          "`ring` are trusted (cross-checked on samples by a pure-Python "
                          "RFC 8439 implementation and hashlib)",
                          "nonce freshness is observed over the values sealed in one run only",
                          "the label parts not covered by the documented AAD (see "
                          "note_relabel) can be changed by the storage without detection"],
             extra=extra)
