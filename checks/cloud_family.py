"""C09, C10, C11 (object store): CloudStore.tla model checked with TLC and bound to
src/server/cloud/server.rs through the gated in-memory object store (hook H1)."""
import json
import os
import random
import subprocess
import time

from vlib import SPEC
from vlib import (Verdict, build_harness, run_harness, tlc_check, tlc_trace, write_cfg,
                  replay_lines, drop_prefixes, workdir, log, seed, behaviour_at, write_replay,
                  split_behaviours, load_known)

CBASE = {"Clients": {"c1", "c2"}, "MaxVer": 4, "Dev": set(), "Faults": False, "PageSize": 0, "MaxOps": 3,
         "Ops": {"AV", "GC"}, "Draws": {255}, "WithAges": False, "MaxFaults": 0, "Emit": False,
         "MaxLen": 9999, "Sit": "-"}
CINVS = ["OneChildPerParent", "AckedOnChain", "ReadsOnChain", "RetainedComplete",
         "FreshCanReconstruct", "RetainedSuffixAll", "SnapshotRetained"]


def cconsts(**kw):
    c = dict(CBASE)
    c.update(kw)
    return c


def cmc(v, wd, name, c, invs=CINVS, timeout=900, expect=None):
    cfg = write_cfg(os.path.join(wd, name + ".cfg"), c, init="MInit", next_="MNext",
                    invariants=invs, view="MView")
    r = tlc_check(wd, name, "MCCloud.tla", cfg, timeout=timeout)
    log(f"[mc] {name}: {r['distinct']} distinct / {r['states']} generated, depth {r['depth']}, "
        f"{r['wall_s']}s, violated={r['violated']}, timed_out={r['timed_out']}")
    v.mc(r, expect_violation=expect)
    return r


def cgen(wd, name, c, simulate=None, depth=None, timeout=300, limit=None):
    c = dict(c, Emit=True)
    cfg = write_cfg(os.path.join(wd, name + ".cfg"), c, init="MInit", next_="MNext",
                    invariants=["MEmit"],
                    constraint=None if simulate else "HBound")
    r = tlc_check(wd, name, "MCCloud.tla", cfg, timeout=timeout, simulate=simulate, depth=depth,
                  seed_=seed(), workers=1 if simulate else None)
    if os.path.getsize(r["out"]) > 3_000_000_000:
        os.remove(r["out"])
        raise RuntimeError(f"{name}: schedule output too large")
    sch = drop_prefixes(replay_lines(r["out"]))
    if simulate and not limit:
        limit = simulate * 3
    if limit and len(sch) > limit:
        sch = random.Random(seed()).sample(sch, limit)
    log(f"[gen] {name}: {len(sch)} schedules ({'simulation' if simulate else 'exhaustive'}, "
        f"{r['wall_s']}s, timed_out={r['timed_out']})")
    os.remove(r["out"])
    return sch


def cconform(v, wd, name, c, schedules, invs=CINVS[:6], max_failures=3, page_size=100000,
             dev=frozenset(), obs_invs=()):
    """obs_invs: invariants that only the property-level specification can state (it carries
    the history they need, e.g. SnapshotRetained); an accepted trace is checked for them too."""
    if not schedules:
        v.tool_errors.append(f"{name}: TLC produced no schedules")
        return
    stim = os.path.join(wd, name + ".stim.ndjson")
    trace = os.path.join(wd, name + ".trace.ndjson")
    with open(stim, "w") as f:
        for i, h in enumerate(schedules):
            f.write(json.dumps({"id": i, "clients": sorted(c["Clients"]), "page_size": page_size,
                                "steps": h}) + "\n")
    run_harness(["cloud-replay", "--in", stim, "--out", trace])
    tc = {"Clients": c["Clients"], "MaxVer": 60, "Dev": set(dev), "Faults": True,
          "PageSize": 0 if page_size >= 100000 else page_size}
    tcfg = write_cfg(os.path.join(wd, name + ".trace.cfg"), tc, spec="TSpec", invariants=invs,
                     postcondition="Accepted")
    stimuli = [json.loads(l) for l in open(stim)]
    cur = trace
    failures = 0
    mode = "impl"          # "impl": TraceCloud; "obs": ObsCloud (after a specification drift)
    oinvs = [i for i in invs if i != "TypeOK"] + [i for i in obs_invs if i not in invs]
    ocfg = write_cfg(os.path.join(wd, name + ".obs.cfg"), {"Clients": c["Clients"], "MaxVer": 60},
                     spec="OSpec", invariants=oinvs, postcondition="Accepted")
    while True:
        if mode == "impl":
            r = tlc_trace(wd, name + ".tv", "TraceCloud.tla", tcfg, cur)
        else:
            r = tlc_trace(wd, name + ".obs", "ObsCloud.tla", ocfg, cur)
        nev = sum(1 for _ in open(cur))
        if r["accepted"]:
            v.traces += len(split_behaviours(cur))
            v.events += nev
            if mode == "impl" and not dev and os.environ.get("VERIF_OBS_ALSO"):
                # self-test: whatever TraceCloud accepts, ObsCloud must accept too
                ro = tlc_trace(wd, name + ".obsalso", "ObsCloud.tla", ocfg, cur)
                v.extra["property_level_selftest_traces"] = \
                    v.extra.get("property_level_selftest_traces", 0) + len(split_behaviours(cur))
                if not ro["accepted"]:
                    v.tool_errors.append(f"{name}: ObsCloud rejects a trace that TraceCloud accepts: "
                                         f"{json.dumps(ro['event'])[:300]} invariant={ro['violated']} "
                                         f"(see {ro['out']})")
            if mode == "obs":
                v.extra["validated_at_property_level_only"] = \
                    v.extra.get("validated_at_property_level_only", 0) + len(split_behaviours(cur))
            if mode == "impl" and obs_invs and not dev:
                ocfg3 = write_cfg(os.path.join(wd, name + ".obsinv.cfg"),
                                  {"Clients": c["Clients"], "MaxVer": 60}, spec="OSpec",
                                  invariants=list(obs_invs), postcondition="Accepted")
                ro = tlc_trace(wd, name + ".obsinv", "ObsCloud.tla", ocfg3, cur)
                if ro["violated"]:
                    line = ro.get("violated_at_line", 1)
                    k, lines, off = behaviour_at(cur, line)
                    bid = json.loads(lines[0]).get("id") if lines else None
                    what = (f"invariant {ro['violated']} violated while following the recorded "
                            f"execution")
                    p = write_replay(v.pid, f"{name}-b{bid}-{ro['violated']}",
                                     {"kind": "trace-rejection", "check": name, "behaviour": bid,
                                      "driver": "cloud-replay", "level": "property-level",
                                      "stimulus": stimuli[bid] if bid is not None and bid < len(stimuli) else None,
                                      "invariant": ro["violated"], "what": what,
                                      "trace": [json.loads(x) for x in lines],
                                      "trace_module": "ObsCloud.tla", "invariants": list(obs_invs),
                                      "constants": {"Clients": sorted(c["Clients"]), "MaxVer": 60}})
                    v.violations.append((what, p))
                elif not ro["accepted"]:
                    v.tool_errors.append(f"{name}: ObsCloud did not accept a trace that TraceCloud "
                                         f"accepts (see {ro['out']})")
            break
        if r["timed_out"] or (r["rejected_at"] is None and not r["violated"]):
            v.tool_errors.append(f"{name}: trace validation did not finish: {r.get('error')} "
                                 f"(see {r['out']})")
            break
        line = r["rejected_at"] if r["rejected_at"] else r.get("violated_at_line", 1)
        k, lines, off = behaviour_at(cur, line)
        bid = json.loads(lines[0]).get("id") if lines else None
        level = "implementation-level" if mode == "impl" else "property-level"
        what = (f"invariant {r['violated']} violated while following the recorded execution"
                if r["violated"] else
                f"recorded step is not a step of the {level} specification: "
                f"{json.dumps(r['event'])[:300]}")
        payload = {"kind": "trace-rejection", "check": name, "behaviour": bid, "driver": "cloud-replay",
                   "level": level,
                   "stimulus": stimuli[bid] if bid is not None and bid < len(stimuli) else None,
                   "rejected_event_index": off, "rejected_event": r["event"],
                   "invariant": r["violated"], "trace": [json.loads(x) for x in lines],
                   "what": what, "trace_module": "TraceCloud.tla", "invariants": invs,
                   "constants": {k2: sorted(v2) if isinstance(v2, (set, frozenset)) else v2
                                 for k2, v2 in tc.items()}}
        drift = False
        if mode == "impl" and not r["violated"]:
            # property level (DESIGN.md 4.5): judge the recorded store and return values only
            one = os.path.join(wd, f"{name}.b{bid}.ndjson")
            with open(one, "w") as f:
                f.writelines(lines)
            ro = tlc_trace(wd, name + ".obs1", "ObsCloud.tla", ocfg, one)
            drift = ro["accepted"]
            payload["property_level"] = {"accepted": ro["accepted"], "rejected_event": ro["event"],
                                         "invariant": ro["violated"]}
            if not drift and (ro["timed_out"] or (ro["rejected_at"] is None and not ro["violated"])):
                v.tool_errors.append(f"{name}: property-level validation did not finish "
                                     f"(see {ro['out']})")
        if drift:
            v.drift.append(f"{name} behaviour {bid}: {json.dumps(r['event'])[:200]} is not the request "
                           f"CloudStore issues next, but the behaviour satisfies the property-level "
                           f"specification ObsCloud; all behaviours of this family are now judged at "
                           f"the property level")
            write_replay(v.pid, f"{name}-b{bid}-drift", payload)
            mode = "obs"
            continue
        p = write_replay(v.pid, f"{name}-b{bid}", payload)
        v.violations.append((what, p))
        failures += 1
        bs = split_behaviours(cur)
        nxt = os.path.join(wd, f"{name}.trace.{failures}.ndjson")
        with open(nxt, "w") as f:
            for j, (_, ls) in enumerate(bs):
                if j != k:
                    f.writelines(ls)
        cur = nxt
        if failures >= max_failures or len(bs) <= 1:
            break
    v.evaluations += len(schedules)
    if not v.samples:
        v.samples.append(schedules[0])
    log(f"[conform] {name}: {len(schedules)} interleavings replayed, {v.traces} accepted so far, "
        f"failures in this step: {failures}, validation {r['wall_s']}s for {nev} events")


def cwitness(wd, name, c, timeout=300, limit=5):
    """Schedules leading to property-violating states of the (deviating) specification."""
    c = dict(c, Emit=True)
    cfg = write_cfg(os.path.join(wd, name + ".cfg"), c, init="MInit", next_="MNext",
                    invariants=["MEmitBad"], view="MView")
    r = tlc_check(wd, name, "MCCloud.tla", cfg, timeout=timeout)
    sch = replay_lines(r["out"])
    sch.sort(key=len)
    os.remove(r["out"])
    log(f"[witness] {name}: {len(sch)} violating schedules, shortest {len(sch[0]) if sch else 0} steps")
    return sch[:limit]


def csituations(wd, name, c, sit, timeout=300, limit=20, faults=False):
    """Shortest schedules into a rarely reached situation (MCCloud.InSit); optionally continued
    by stopping the marked client's operation after 0..3 further requests."""
    c = dict(c, Emit=True, Sit=sit)
    cfg = write_cfg(os.path.join(wd, name + ".cfg"), c, init="MInit", next_="MNext",
                    invariants=["MEmitSit"], view="MView")
    r = tlc_check(wd, name, "MCCloud.tla", cfg, timeout=timeout)
    sch = replay_lines(r["out"])
    os.remove(r["out"])
    sch.sort(key=len)
    rnd = random.Random(seed())
    picked = sch[:limit // 2] + (rnd.sample(sch[limit // 2:], min(len(sch) - limit // 2, limit - limit // 2))
                                  if len(sch) > limit // 2 else [])
    out = []
    for h in picked:
        mark = h[-1]["c"]
        base = h[:-1]
        out.append(base)
        if faults:
            for j in range(0, 4):
                for kind in ("FailBefore", "FailAfter"):
                    out.append(base + [{"a": "Step", "c": mark, "draw": 255, "arg": 0}] * j
                               + [{"a": kind, "c": mark, "draw": -1, "arg": 0}])
    log(f"[situations] {name}: {len(sch)} schedules into '{sit}', {len(picked)} used "
        f"-> {len(out)} stimuli")
    return out


def salt_race(v, wd, thorough):
    """SaltStore: concurrently starting clients create the salt object (CloudServer::new)."""
    c = {"Clients": {"c1", "c2", "c3"}, "MaxSalts": 3, "Emit": False, "DevPut": False}
    cfg = write_cfg(os.path.join(wd, "salt.cfg"), c, init="Init", next_="Next",
                    invariants=["Agreement"], view="SView")
    r = tlc_check(wd, "salt-race-3c", "SaltStore.tla", cfg, timeout=300)
    log(f"[mc] salt-race-3c: {r['distinct']} distinct, violated={r['violated']}")
    v.mc(r)
    cfg = write_cfg(os.path.join(wd, "saltdev.cfg"), dict(c, DevPut=True), init="Init", next_="Next",
                    invariants=["Agreement"], view="SView")
    r = tlc_check(wd, "salt-race-plain-put", "SaltStore.tla", cfg, timeout=300)
    v.mc(r, expect_violation="Agreement")
    # every interleaving of 2 clients (3: a sample), replayed on CloudServer::new
    cg = dict(c, Clients={"c1", "c2"} if not thorough else {"c1", "c2", "c3"}, Emit=True)
    cfg = write_cfg(os.path.join(wd, "saltgen.cfg"), cg, init="Init", next_="Next",
                    invariants=["EmitReplay"])
    r = tlc_check(wd, "salt-gen", "SaltStore.tla", cfg, timeout=300)
    sch = replay_lines(r["out"])
    os.remove(r["out"])
    if len(sch) > (300 if thorough else 40):
        sch = random.Random(seed()).sample(sch, 300 if thorough else 40)
    stim = os.path.join(wd, "salt.stim.ndjson")
    trace = os.path.join(wd, "salt.trace.ndjson")
    with open(stim, "w") as f:
        for i, h in enumerate(sch):
            f.write(json.dumps({"id": i, "clients": sorted(cg["Clients"]), "steps": h}) + "\n")
    run_harness(["cloud-replay", "--salt", "--in", stim, "--out", trace], timeout=3000)
    tcfg = write_cfg(os.path.join(wd, "salt.trace.cfg"),
                     {"Clients": cg["Clients"], "MaxSalts": 99, "Emit": False, "DevPut": False},
                     spec="TSpec", invariants=["Agreement"], postcondition="Accepted")
    rt = tlc_trace(wd, "salt.tv", "TraceSalt.tla", tcfg, trace)
    if rt["accepted"]:
        v.traces += len(sch)
        v.events += sum(1 for _ in open(trace))
    elif rt["rejected_at"] or rt["violated"]:
        line = rt["rejected_at"] or rt.get("violated_at_line", 1)
        k, lines, off = behaviour_at(trace, line)
        p = write_replay(v.pid, "salt-race", {"kind": "salt-race-rejection", "rejected_event": rt["event"],
                                              "invariant": rt["violated"],
                                              "trace": [json.loads(x) for x in lines],
                                              "what": "clients starting concurrently do not agree on the salt"})
        v.violations.append((f"salt race: {json.dumps(rt['event'])[:200]} invariant={rt['violated']}", p))
    else:
        v.tool_errors.append(f"salt race: trace validation did not finish (see {rt['out']})")
    v.evaluations += len(sch)
    log(f"[conform] salt race: {len(sch)} interleavings of concurrent CloudServer::new, "
        f"accepted={rt['accepted']}")


# ---------------------------------------------------------------------------------------------
# CasInd: the add_version compare-and-swap skeleton with an inductive invariant (Apalache)
APALACHE_OBLIGATIONS = [
    # (name, --init, --inv, --length)
    ("init-implies-indinv", "Init", "IndInv", 0),
    ("indinv-is-inductive", "IndInit", "IndInv", 1),
    ("indinv-implies-safety", "IndInit", "Safety", 0),
]


def _apalache(wd, name, module_dir, init, inv, length, timeout):
    out = os.path.join(wd, "apa-" + name)
    t0 = time.time()
    try:
        p = subprocess.run(["timeout", str(timeout), "apalache-mc", "check", f"--init={init}",
                            f"--inv={inv}", f"--length={length}", f"--out-dir={out}",
                            "--run-dir=" + os.path.join(out, "run"), "CasInd.tla"],
                           cwd=module_dir, capture_output=True, text=True)
        txt = p.stdout + p.stderr
    except OSError as e:
        txt = f"cannot run apalache-mc: {e}"
    res = "error"
    if "The outcome is: NoError" in txt:
        res = "holds"
    elif "The outcome is: Error" in txt and "violated" in txt:
        res = "violated"
    with open(os.path.join(wd, "apa-" + name + ".log"), "w") as f:
        f.write(txt)
    return {"name": name, "result": res, "wall_s": round(time.time() - t0, 1),
            "log": os.path.join(wd, "apa-" + name + ".log")}


def cas_inductive_start(wd, thorough):
    """Start the Apalache obligations for CasInd in the background; returns the futures."""
    from concurrent.futures import ThreadPoolExecutor
    ex = ThreadPoolExecutor(max_workers=4)
    good = os.path.join(wd, "casind")
    blind = os.path.join(wd, "casind-blind")
    for d in (good, blind):
        os.makedirs(d, exist_ok=True)
    src = open(os.path.join(SPEC, "CasInd.tla")).read()
    assert "\nBlind == FALSE\n" in src
    open(os.path.join(good, "CasInd.tla"), "w").write(src)
    open(os.path.join(blind, "CasInd.tla"), "w").write(src.replace("\nBlind == FALSE\n", "\nBlind == TRUE\n"))
    to = 3000 if thorough else 900
    futs = [ex.submit(_apalache, wd, n, good, i, inv, k, to) for n, i, inv, k in APALACHE_OBLIGATIONS]
    futs.append(ex.submit(_apalache, wd, "blind-swap-not-inductive", blind, "IndInit", "IndInv", 1, to))
    ex.shutdown(wait=False)
    return futs


def cas_inductive_finish(v, wd, futs, thorough):
    res = [f.result() for f in futs]
    v.extra["apalache_inductive_invariant"] = {
        "module": "spec/CasInd.tla (3 clients, 5 ids; unbounded number of steps)", "obligations": res}
    for r in res:
        log(f"[apalache] {r['name']}: {r['result']} ({r['wall_s']}s)")
        if r["name"] == "blind-swap-not-inductive":
            if r["result"] != "violated":
                v.tool_errors.append("anti-vacuity: CasInd with an unconditional swap was not refuted "
                                     f"({r['result']}, see {r['log']})")
        elif r["result"] == "violated":
            p = write_replay(v.pid, "casind-" + r["name"],
                             {"kind": "apalache-counterexample", "obligation": r["name"],
                              "log": open(r["log"]).read()[-6000:]})
            v.violations.append((f"specification CasInd: obligation {r['name']} fails", p))
        elif r["result"] != "holds":
            v.tool_errors.append(f"apalache obligation {r['name']} did not finish (see {r['log']})")
    if thorough:
        # the same module under TLC (smaller bounds): both checkers agree on it
        cfg = os.path.join(SPEC, "MCCasInd.cfg")
        r = tlc_check(wd, "casind-tlc", "MCCasInd.tla", cfg, timeout=1500)
        log(f"[mc] casind-tlc: {r['distinct']} distinct, violated={r['violated']}")
        v.mc(r)
