"""C04 An interrupted sync loses nothing and can simply be repeated."""
from sync_family import *


def run(tier):
    v = Verdict("C04", tier)
    wd = workdir("C04-" + tier)
    build_harness()
    thorough = tier == "thorough"

    # 1. faults at every program counter of the sync: abort, lost add_version / add_snapshot reply
    cs = consts(Props={"p"}, Faults=True, MaxPending=2, MaxEdits=3, MaxChain=4,
                Urg={"none", "high"})
    mc_run(v, wd, "faults-seq-2r", cs, timeout=900)
    cb = consts(Props={"p", "q"}, Faults=True, Racing=True, MaxPending=2, MaxLong=2, MaxEdits=0,
                MaxChain=6, Cap=1)
    mc_run(v, wd, "faults-race-2r-batches", cb, init="PInit", timeout=900)
    if thorough:
        c3 = consts(Props={"p", "q"}, Faults=True, MaxPending=3, MaxEdits=4, MaxChain=5,
                    BigVals={"b"})
        mc_run(v, wd, "faults-seq-2r-big", c3, timeout=1700)
    # vacuity self-test: with faults, racing, snapshots and trimming enabled every action of the
    # specification must have been taken (TLC -coverage)
    cv = consts(Props={"p"}, Faults=True, Racing=True, MaxPending=2, MaxEdits=3, MaxChain=4,
                Urg={"none", "high"}, AvoidSet={"r2"}, WithTrim=True)
    if thorough:
        mc_run(v, wd, "coverage-all-actions", cv, invs=["ReplicaInvariant", "Converged"],
               timeout=1500, coverage=True)
    # anti-vacuity: pinned loop + lost reply on the first of several versions (D2)
    mc_run(v, wd, "faults-pinned-loop", dict(cb, Dev={"PIN"}), init="PInit", timeout=600,
           expect="ReplicaInvariant")

    # 2. fault injection on the real code: server request faults from TLC schedules ...
    g = consts(Replicas={"r1", "r2"}, Tasks={"u1", "u2"}, Props={"p", "q"}, Vals={"a", "b", "c"},
               BigVals={"b"}, Faults=True, MaxPending=4, MaxEdits=10, MaxChain=40,
               MaxLen=50, Urg={"none", "high"})
    sch, _ = gen_schedules(wd, "gen-faults", g, simulate=1500 if thorough else 150, depth=51)
    v.distinct += distinct_count(sch)
    conform(v, wd, "faults-sim", g, sch)
    gr = consts(Replicas={"r1", "r2", "r3"}, Vals={"a", "b", "c"}, Props={"p", "q"}, Racing=True,
                Faults=True, MaxPending=2, MaxLong=3, MaxEdits=0, MaxChain=20,
                BigVals={"a", "b", "c"})
    sch, _ = gen_schedules(wd, "gen-faults-race", gr, init="PInit",
                           simulate=1500 if thorough else 150, depth=100)
    v.distinct += distinct_count(sch)
    conform(v, wd, "faults-race-sim", gr, sch)

    # ... and a failure of every storage call of the sync transaction (call index sweep)
    base, _ = gen_schedules(wd, "gen-storage-base", consts(
        Replicas={"r1", "r2"}, Tasks={"u1"}, Props={"p", "q"}, Vals={"a", "b"}, BigVals={"b"},
        MaxPending=3, MaxEdits=6, MaxChain=20, MaxLen=30), simulate=40 if thorough else 6, depth=31,
        seed_=seed() + 7)
    sweep = []
    kmax = 45
    for h in base:
        starts = [i for i, s in enumerate(h) if s["a"] == "Start"]
        if not starts:
            continue
        pos = starts[len(starts) // 2]
        for k in range(1, kmax + 1):
            # cut after the faulted sync: TLC generated the rest assuming it succeeded (later
            # edits could be invalid operations otherwise); the harness lets the sync run, then
            # syncs everybody to quiescence
            hh = list(h[:pos]) + [{"a": "StorageFault", "r": h[pos]["r"], "k": k, "ops": [], "urg": "-"},
                                  h[pos]]
            sweep.append(hh)
    gsw = consts(Replicas={"r1", "r2"}, Tasks={"u1"}, Props={"p", "q"}, Vals={"a", "b"},
                 BigVals={"b"})
    v.distinct += distinct_count(sweep)
    conform(v, wd, "storage-call-sweep-mem", gsw, sweep)
    if thorough:
        conform(v, wd, "storage-call-sweep-sqlite", gsw, sweep[:600], storage="sqlite")
    v.extra["storage_call_indices_swept"] = kmax

    v.finish("fault_enumeration" if False else "model_checking",
             rule="TLC enables abort / lost-reply at every program counter of the sync "
                  "(exhaustive for small constants); on the real code every server request of "
                  "TLC-chosen schedules is failed before its effect or after it, and every "
                  "storage call index 1..45 of a sync transaction is failed; after each fault "
                  "the replica is re-read through a fresh transaction and all replicas sync to "
                  "quiescence; distinct = distinct fault schedules",
             assumptions=["process stop during the sync transaction is equivalent to an "
                          "abandoned transaction (checked for SQLite by C06)"])
