"""C10 Object-store cleanup never deletes history that is still needed."""
from cloud_family import *


OBSI = ["SnapshotRetained"]


def vlib_root():
    import vlib
    return vlib.VERIF


def run(tier):
    v = Verdict("C10", tier)
    wd = workdir("C10-" + tier)
    build_harness()
    thorough = tier == "thorough"
    ops = {"AV", "GC", "AS"}

    c = cconsts(Ops=ops, MaxOps=3, MaxVer=4, Draws={0, 255}, WithAges=True)
    cmc(v, wd, "cleanup-2c-3ops-snap-ages", c, timeout=1200)
    cmc(v, wd, "cleanup-2c-4ops", cconsts(Ops={"AV", "GC"}, MaxOps=4, MaxVer=5, Draws={0, 255}),
        timeout=1500)
    # a cleanup that stops after any of its requests / deletions (errors are ignored)
    cmc(v, wd, "cleanup-stops", cconsts(Ops=ops, MaxOps=3, MaxVer=3, Draws={0, 255}, WithAges=True,
                                        Faults=True, MaxFaults=1), timeout=1500)
    if thorough:
        cmc(v, wd, "cleanup-3c", cconsts(Clients={"c1", "c2", "c3"}, Ops={"AV", "GC", "AS"},
                                         MaxOps=2, MaxVer=4, Draws={0, 255}, WithAges=True),
            timeout=1700)
    # the cleanup's listings as sequences of page requests
    cmc(v, wd, "cleanup-2c-paged", cconsts(Ops={"AV", "GC", "AS"}, MaxOps=2, MaxVer=3,
                                           Draws={0, 255}, WithAges=True, PageSize=1), timeout=1500)
    # anti-vacuity + demonstration: the pinned order (list versions, then read latest)
    pin = cconsts(Ops={"AV", "GC"}, MaxOps=3, Draws={0, 255}, Dev={"GC1"})
    cmc(v, wd, "cleanup-pinned-order", pin, expect="RetainedComplete")

    g = cconsts(Ops=ops, MaxOps=4, MaxVer=12, MaxLen=120, Draws={0, 100, 255}, WithAges=True)
    sch = cgen(wd, "gen-cleanup-2c", g, simulate=2500 if thorough else 250, depth=121)
    v.distinct += len(sch)
    cconform(v, wd, "cleanup-2c-sim", g, sch, obs_invs=OBSI)
    g3 = cconsts(Clients={"c1", "c2", "c3"}, Ops=ops, MaxOps=3, MaxVer=14, MaxLen=140,
                 Draws={0, 255}, WithAges=True, Faults=True, MaxFaults=2)
    sch = cgen(wd, "gen-cleanup-3c-faults", g3, simulate=2500 if thorough else 250, depth=141)
    v.distinct += len(sch)
    cconform(v, wd, "cleanup-3c-faults-sim", g3, sch, obs_invs=OBSI)
    gp = cconsts(Ops=ops, MaxOps=3, MaxVer=9, MaxLen=150, Draws={0, 255}, WithAges=True, PageSize=1)
    sch = cgen(wd, "gen-cleanup-paged", gp, simulate=2000 if thorough else 150, depth=151)
    v.distinct += len(sch)
    cconform(v, wd, "cleanup-paged-sim", gp, sch, page_size=1, obs_invs=OBSI)
    # cleanups that have orphans, redundant snapshots AND old versions to delete, stopped after
    # each of their next deletions (errors inside cleanup are ignored by add_version)
    sits = [("orphans", cconsts(Ops={"AV", "GC"}, MaxOps=3, MaxVer=4, Draws={0, 255})),
            ("snapold", cconsts(Ops=ops, MaxOps=4 if thorough else 3, MaxVer=3, Draws={0, 255},
                                WithAges=True))]
    for sit, gs in sits:
        w = csituations(wd, "sit-" + sit, gs, sit, limit=20 if thorough else 6, faults=True,
                        timeout=600)
        v.distinct += len(w)
        cconform(v, wd, "sit-" + sit, gs, w, obs_invs=OBSI)
    # the schedules on which the pinned order loses history, replayed on the current code: it
    # must follow the repaired specification and keep every invariant
    wit = cwitness(wd, "witness-pinned-order", pin, limit=40 if thorough else 10)
    v.distinct += len(wit)
    cconform(v, wd, "pinned-order-witnesses-on-current-code", pin, wit, obs_invs=OBSI)
    # the schedule on which two overlapping cleanups (one of them working from an earlier
    # "latest") used to delete each other's retained snapshot (finding G6), and TLC's shortest
    # schedules into the same situation on the current specification
    g6 = [json.loads(l)["steps"] for l in open(os.path.join(
        vlib_root(), "findings", "G6-stale-cleanup-deletes-newer-snapshot.stim.ndjson"))]
    cconform(v, wd, "stale-cleanup-newer-snapshot", cconsts(Ops=ops | {"GC"}), g6, obs_invs=OBSI)
    # the sibling schedule: the other client's version is added BETWEEN the stale cleanup's read
    # of "latest" and its listing of the versions, so the cleanup lists a version that is not on
    # its chain (and must not touch that version's snapshot either: seed C10j)
    g6b = [json.loads(l)["steps"] for l in open(os.path.join(
        vlib_root(), "findings", "G6b-stale-cleanup-lists-newer-version.stim.ndjson"))]
    cconform(v, wd, "stale-cleanup-lists-newer-version", cconsts(Ops=ops | {"GC"}), g6b, obs_invs=OBSI)
    if thorough:
        # anti-vacuity: the former rule (every other snapshot is redundant) is refuted ...
        deep = cconsts(Ops={"AV", "AS", "GC"}, MaxOps=6, MaxVer=4, Draws={0, 255}, WithAges=True)
        cmc(v, wd, "cleanup-2c-6ops-former-snapshot-rule", dict(deep, Dev={"SNAPALL"}),
            timeout=1700, expect="SnapshotRetained")

    v.finish("model_checking",
             rule="TLC explores every interleaving of a cleanup (drawn at the tail of a "
                  "successful add_version, stopping after any request) with other clients' "
                  "add-version / add-snapshot / get-child-version / cleanup, snapshots at every "
                  "position and every old/new age split, checking RetainedComplete, "
                  "FreshCanReconstruct, SnapshotRetained, AckedOnChain; interleavings (incl. the "
                  "ones on which the pinned cleanup order loses history) are replayed on real "
                  "CloudServer instances; distinct = distinct interleavings",
             assumptions=["listings are atomic requests except in the *paged* families (one name "
                          "per page request); object ages are set by the harness "
                          "(creation time 1 = older than the retention age)"])
