"""C08, C11: the version-chain protocol (ChainServer.tla) and every backend's conformance to it,
at the grain of Server-trait calls, incl. injected failures inside add_version."""
import json
import os
import random

from vlib import (HARNESS, Verdict, build_harness, run_harness, tlc_check, tlc_trace, write_cfg,
                  replay_lines, drop_prefixes, workdir, log, seed, behaviour_at, write_replay,
                  split_behaviours, load_known)

MBASE = {"Handles": {"h1"}, "Bodies": {"small"}, "ParentChoices": {"latest", "prev", "nil", "unknown"},
         "Calls": {"AV", "GC"}, "MaxLen": 5, "Emit": False, "DevFork": False,
         "SingleSnap": False, "TrimRule": "none", "OlderSnaps": True}


def mconsts(**kw):
    c = dict(MBASE)
    c.update(kw)
    return c


def chain_mc(v, wd, name, c, timeout=600, expect=None, invariants=("VersionInvariant",)):
    cfg = write_cfg(os.path.join(wd, name + ".cfg"), c, init="MInit", next_="MNext",
                    invariants=list(invariants))
    r = tlc_check(wd, name, "MCChain.tla", cfg, timeout=timeout)
    log(f"[mc] {name}: {r['distinct']} distinct / {r['states']} generated, depth {r['depth']}, "
        f"{r['wall_s']}s, violated={r['violated']}")
    v.mc(r, expect_violation=expect)


def chain_gen(wd, name, c, simulate=None, timeout=300, limit=None):
    c = dict(c, Emit=True)
    cfg = write_cfg(os.path.join(wd, name + ".cfg"), c, init="MInit", next_="MNext",
                    invariants=["MEmit"])
    r = tlc_check(wd, name, "MCChain.tla", cfg, timeout=timeout, simulate=simulate,
                  depth=c["MaxLen"] + 1, seed_=seed(), workers=1 if simulate else None)
    sch = replay_lines(r["out"])
    os.remove(r["out"])
    if simulate and not limit:
        limit = simulate * 2
    if limit and len(sch) > limit:
        sch = random.Random(seed()).sample(sch, limit)
    log(f"[gen] {name}: {len(sch)} call sequences ({r['wall_s']}s)")
    return sch


def known_match(pid, backend, lines, event):
    """An open known finding matching this rejected behaviour (by its recorded signature)."""
    text = "".join(lines)
    for k in load_known():
        if k.get("status") != "open" or k.get("property") != pid:
            continue
        sig = k.get("signature", {})
        if sig.get("backend") and sig["backend"] != backend:
            continue
        if any(m not in text for m in sig.get("trace_contains", [])):
            continue
        if sig.get("rejected_action") and isinstance(event, dict) and event.get("a") != sig["rejected_action"]:
            continue
        if sig.get("rejected_res") and isinstance(event, dict) and event.get("res") != sig["rejected_res"]:
            continue
        return k
    return None


def count_discards(trace):
    """GC events answered 'no such version' for a parent whose child was accepted earlier in the
    same behaviour: versions the backend has discarded (git cleanup after a snapshot)."""
    n, child = 0, {}
    for l in open(trace):
        e = json.loads(l)
        if e.get("a") == "Reset":
            child = {}
        elif e.get("a") == "AV" and e.get("res") == "ok":
            child[e["parent"]] = e["ver"]
        elif e.get("a") == "GC" and e.get("res") == "none" and e.get("parent") in child:
            n += 1
    return n


def chain_conform(v, wd, name, backend, behaviours, snapshots=True, max_failures=4, git_wrap=False,
                  trim=False, expect_covers=True):
    """behaviours: list of dicts with 'steps' (+ optional 'converge', 'walk', 'old_epoch').
    trim: the backend may discard old versions covered by its snapshot (git with backdated
    commits); expect_covers: the snapshot it serves must then cover everything discarded."""
    if not behaviours:
        v.tool_errors.append(f"{name}: no behaviours")
        return
    stim = os.path.join(wd, name + ".stim.ndjson")
    trace = os.path.join(wd, name + ".trace.ndjson")
    with open(stim, "w") as f:
        for i, b in enumerate(behaviours):
            bb = dict(b, id=i, backend=backend)
            f.write(json.dumps(bb) + "\n")
    args = ["backend-replay", "--in", stim, "--out", trace, "--dir", os.path.join(wd, name + ".d")]
    if git_wrap:
        args += ["--git", os.path.join(HARNESS, "gitwrap.sh")]
    import time as _t
    _t0 = _t.time()
    # git sequences take seconds each (dozens of git processes); leave room on a loaded machine
    run_harness(args, timeout=max(3000, 150 * len(behaviours)) if git_wrap else 3000)
    log(f"[run] {name}: harness {_t.time() - _t0:.1f}s")
    if trim:
        nd = count_discards(trace)
        v.extra["discards_observed"] = v.extra.get("discards_observed", 0) + nd
        log(f"[run] {name}: {nd} reads of versions the backend had discarded")
    tcfg = write_cfg(os.path.join(wd, name + ".trace.cfg"),
                     {"WithSnapshots": snapshots, "CanTrim": trim, "ExpectCovers": expect_covers},
                     spec="TSpec", invariants=["VersionInvariant"], postcondition="Accepted")
    stimuli = [json.loads(l) for l in open(stim)]
    cur = trace
    failures = 0
    seen_known = set()
    while True:
        r = tlc_trace(wd, name + ".tv", "TraceChain.tla", tcfg, cur)
        nev = sum(1 for _ in open(cur))
        if r["accepted"]:
            v.traces += len(split_behaviours(cur))
            v.events += nev
            break
        if r["timed_out"] or (r["rejected_at"] is None and not r["violated"]):
            v.tool_errors.append(f"{name}: trace validation did not finish: {r.get('error')} "
                                 f"(see {r['out']})")
            break
        line = r["rejected_at"] if r["rejected_at"] else r.get("violated_at_line", 1)
        k, lines, off = behaviour_at(cur, line)
        bid = json.loads(lines[0]).get("id") if lines else None
        what = (f"invariant {r['violated']} violated while following the recorded execution"
                if r["violated"] else
                f"[{backend}] recorded call is not allowed by the chain protocol: "
                f"{json.dumps(r['event'])[:300]}")
        kf = known_match(v.pid, backend, lines, r["event"])
        if kf:
            if kf["id"] not in seen_known:
                v.known.append(f"{kf['id']}: {kf['what']}")
                seen_known.add(kf["id"])
        else:
            payload = {"kind": "chain-rejection", "check": name, "backend": backend, "behaviour": bid,
                       "stimulus": stimuli[bid] if bid is not None and bid < len(stimuli) else None,
                       "rejected_event_index": off, "rejected_event": r["event"],
                       "trace": [json.loads(x) for x in lines], "what": what}
            p = write_replay(v.pid, f"{name}-b{bid}", payload)
            v.violations.append((what, p))
            failures += 1
        bs = split_behaviours(cur)
        nxt = os.path.join(wd, f"{name}.trace.next.ndjson")
        with open(nxt + ".tmp", "w") as f:
            for j, (_, ls) in enumerate(bs):
                if j != k:
                    f.writelines(ls)
        os.replace(nxt + ".tmp", nxt)
        cur = nxt
        if failures >= max_failures or len(bs) <= 1:
            break
    v.evaluations += len(behaviours)
    if not v.samples:
        v.samples.append(behaviours[0])
    log(f"[conform] {name} on {backend}: {len(behaviours)} call sequences, {v.traces} accepted so "
        f"far, new failures: {failures}, known: {sorted(seen_known)}, {nev} events")


def trim_selftest(v, wd, name):
    """Binding self-test for the discarding clause: the recorded trace of a retention family with
    every version marked as recent ("old": false) must be REJECTED - a backend may answer 'no
    such version' for a version it holds only if that version is beyond the retention age."""
    trace = os.path.join(wd, name + ".trace.ndjson")
    if not os.path.exists(trace) or not count_discards(trace):
        return
    bad = os.path.join(wd, name + ".selftest.ndjson")
    with open(bad, "w") as f:
        for l in open(trace):
            e = json.loads(l)
            if e.get("a") == "AV":
                e["old"] = False
            f.write(json.dumps(e) + "\n")
    tcfg = os.path.join(wd, name + ".trace.cfg")
    r = tlc_trace(wd, name + ".selftest", "TraceChain.tla", tcfg, bad)
    ok = (not r["accepted"]) and r["rejected_at"] is not None
    v.extra.setdefault("selftests", []).append({"name": name + ": discards of recent versions rejected", "ok": ok})
    log(f"[selftest] {name}: trace with discards of recent versions rejected: {ok}")
    if not ok:
        v.tool_errors.append(f"self-test {name}: a trace in which recent versions are discarded was accepted")
