"""C19 Task mutators, their recorded operations and the task model agree.

spec/TaskModel.tla specifies every Task / TaskData mutator (effect on the object's map, on the
updated_modified flag, the operations recorded with their old values) and Replica::commit_operations
on the stored task and the working set; its invariants are the model rules of the property.  TLC
(spec/MCTask.tla, mode "mutate") enumerates all sequences of mutator calls from every prior state
of a small family, with commit+reload in between; the Rust harness runs each sequence on a Task
obtained from a real replica and records, after every call, the object's map and the Operations
vector, then the stored task after commit and every reader on the reloaded task; TLC validates the
recorded executions step by step against the specification (spec/TraceTask.tla)."""
import json
import os
import random

from vlib import Verdict, build_harness, workdir, log, seed
from c18 import (ALL_PRIORS, tconsts, task_mc, conform, run_task_harness, expect_rejection)


def compose(i, h, sweeps, vv, storage="mem", repeat=False):
    """Stimulus for the harness from a TLC history: reader sweeps on the object before and on the
    reloaded task after each commit (when `sweeps`), a final commit, and optionally the same calls
    once more on the reloaded task (repeated application)."""
    steps = []
    session = []          # everything from the first Load on, for the second round
    loaded = False
    for ev in h:
        a = ev["a"]
        if a == "Install":
            steps.append({"a": "Install", "e": ev["e"]})
            continue
        new = []
        if a == "Load":
            new.append({"a": "Load", "f": ev["f"]})
            loaded = True
        elif a == "Mut":
            new.append({"a": "Mut", "f": ev["f"], "k": ev["k"], "v": ev["v"]})
        elif a == "Commit":
            if sweeps:
                new.append({"a": "ReadObj"})
            new.append({"a": "Commit"})
            if sweeps:
                new.append({"a": "Read"})
        steps += new
        if loaded:
            session += new
    last = ([{"a": "ReadObj"}] if sweeps else []) + [{"a": "Commit"}]
    steps += last
    if repeat:
        # the same calls once more on the task as it is now (create_task returns it, or
        # creates it again if the first round deleted it)
        steps.append({"a": "Read"})
        steps += [dict(x, f="create_task") if x["a"] == "Load" else x for x in session] + last
    steps.append({"a": "Read", "expire": True})
    return {"id": i, "kv": vv, "vv": vv, "canon": True, "storage": storage, "steps": steps}


def behaviours(sch, every, start=0, storage="mem", repeat=False):
    return [compose(start + i, h, sweeps=(i % every == 0), vv=i % 3, storage=storage, repeat=repeat)
            for i, h in enumerate(sch)]


def mconsts(alpha, maxmut, commits, priors=ALL_PRIORS, dev=()):
    return tconsts(Mode="mutate", EnumKeys=set(), MaxEntries=0, Priors=set(priors),
                   AlphaName=alpha, MaxMut=maxmut, MaxCommits=commits, Dev=set(dev))


def run(tier):
    v = Verdict("C19", tier)
    wd = workdir("C19-" + tier)
    build_harness()
    thorough = tier == "thorough"
    rnd = random.Random(seed())

    def sample(s, n):
        return s if len(s) <= n else rnd.sample(s, n)

    # 1. the specification: all sequences of mutator calls from every prior state; the model
    #    rules (Agree, OldValuesTrue, EndRule, ModifiedOnce, Rejections, ReadBack, ModelRules)
    #    on every state.  The runs with emit also print the sequences as stimuli.
    _, full1 = task_mc(v, wd, "full-len1", mconsts("full", 1, 0), "MutateInv", emit=True)
    _, core2 = task_mc(v, wd, "core-len2-commit", mconsts("core", 2, 1), "MutateInv", emit=True)
    if thorough:
        _, core3 = task_mc(v, wd, "core-len3-commit", mconsts("core", 3, 1), "MutateInv",
                           emit=True, timeout=1500)
        _, full2 = task_mc(v, wd, "full-len2-commit", mconsts("full", 2, 1), "MutateInv",
                           emit=True, timeout=1500)
        _, core4 = task_mc(v, wd, "core-len4", mconsts("core", 4, 0, ["fresh", "done"]),
                           "MutateInv", emit=True, timeout=1500)
    else:
        # commit+reload inside a sequence is covered exhaustively at length 2 above
        _, core3 = task_mc(v, wd, "core-len3",
                           mconsts("core", 3, 0, ["absent", "fresh", "done", "pendend", "rich", "garbage"]),
                           "MutateInv", emit=True)
        _, full2 = task_mc(v, wd, "full-len2",
                           mconsts("full", 2, 0, ["fresh", "rich", "garbage"]),
                           "MutateInv", emit=True)
        core4 = []
    # anti-vacuity: named deviations of the mutators must violate the rules
    small = ["fresh", "done", "pendend"]
    devs = ["KeepEnd"] + (["ModAlways", "ModExplicit", "OldStale", "UdaOpen", "DepAny"] if thorough else [])
    for d in devs:
        pri = small + ["recurring"] if d == "DepAny" else small   # needs a non-pending target
        task_mc(v, wd, "dev-" + d.lower(), mconsts("core", 2, 1, pri, dev={d}), "MutateInv",
                expect="MutateInv")

    # 2. the sequences on the real code
    n0 = 0
    plan = [("full-len1", full1, 1, None),
            ("core-len2-commit", core2, 1 if thorough else 5, None),
            ("core-len3", core3, 10, 100000 if thorough else 5000),
            ("full-len2", full2, 10, 70000 if thorough else 4000),
            ("core-len4", core4, 20, 30000)]
    for name, sch, every, limit in plan:
        if not sch:
            if name != "core-len4" or thorough:
                v.tool_errors.append(f"{name}: TLC produced no sequences")
            continue
        sch = sample(sch, limit) if limit else sch
        bs = behaviours(sch, every, start=n0)
        n0 += len(bs)
        v.distinct += len(bs)
        if not v.samples:
            v.samples.append({"stimulus": bs[len(bs) // 3],
                              "meaning": "prior state, mutator calls, commit, reload; after each "
                                         "call the object's map and the recorded operations are "
                                         "compared with the specification"})
        conform(v, wd, name, bs, "task-mutate")
    # repeated application (as the crate's own with_mut_task does) and the SQLite storage
    rep = behaviours(sample(core2, 3000 if thorough else 600), 2, start=n0, repeat=True)
    n0 += len(rep)
    v.distinct += len(rep)
    conform(v, wd, "core-len2-repeat", rep, "task-mutate")
    sq = behaviours(sample(core3, 3000 if thorough else 200), 3, start=n0, storage="sqlite")
    n0 += len(sq)
    v.distinct += len(sq)
    conform(v, wd, "core-len3-sqlite", sq, "task-mutate", storage="sqlite")

    # 3. self-tests of the binding on a small real trace
    st = [h for h in core2 if any(e["a"] == "Mut" and e["f"] == "set_status" and e["v"] == "pending"
                                  for e in h)
          and any(e["a"] == "Install" and e["f"] in ("done", "deleted", "pendend") for e in h)][:60]
    if st:
        stim = os.path.join(wd, "selftest.stim.ndjson")
        trace = os.path.join(wd, "selftest.trace.ndjson")
        with open(stim, "w") as f:
            for b in behaviours(st, 1):
                f.write(json.dumps(b) + "\n")
        run_task_harness("task-mutate", ["--in", stim, "--out", trace])
        # (a) the old value of one recorded update altered
        bad = os.path.join(wd, "selftest.oldvalue.ndjson")
        done = False
        with open(trace) as f, open(bad, "w") as g:
            for line in f:
                if not done and line.startswith('{"a":"Mut"') and '"o":"completed"' in line:
                    line = line.replace('"o":"completed"', '"o":"pending"', 1)
                    done = True
                g.write(line)
        if done:
            expect_rejection(v, wd, "selftest-oldvalue", bad, "old value of one recorded update altered")
        # (b) one property of the stored task after commit altered
        bad2 = os.path.join(wd, "selftest.stored.ndjson")
        done = False
        with open(trace) as f, open(bad2, "w") as g:
            for line in f:
                if not done and line.startswith('{"a":"Commit"') and '["status","pending"]' in line:
                    line = line.replace('["status","pending"]', '["status","completed"]', 1)
                    done = True
                g.write(line)
        if done and thorough:
            expect_rejection(v, wd, "selftest-stored", bad2, "stored task after commit altered")
        # (c) the real trace against the deviating specification (re-opening keeps "end")
        expect_rejection(v, wd, "selftest-dev-keepend", trace,
                         "real trace of re-opened tasks against the deviating specification KeepEnd",
                         dev={"KeepEnd"})
    else:
        v.tool_errors.append("no sequence for the self-tests")

    # 5. the dependency map and the BLOCKED / BLOCKING tags across commits, rebuilds and SYNCS
    #    (TCReplica.DepMapOf; sync driver; every Observe event validated by TraceSync / ObsSync)
    import depmap_family
    depmap_family.depmap_conform(v, wd, "depmap-sync-mem", 60 if not thorough else 600, seed_=seed())
    depmap_family.depmap_conform(v, wd, "depmap-sync-sqlite", 15 if not thorough else 150,
                                 storage="sqlite", seed_=seed() + 1)

    v.finish("model_checking",
             rule="TLC enumerates all sequences of <= 3 (thorough 4) mutator calls over an alphabet "
                  "of 20 (core) / ~115 (full, length <= 2) call shapes from 10 prior states with "
                  "commit+reload in between, checking the model rules on every state; the "
                  "sequences (all of length <= 2 over the core alphabet and of length 1 over the "
                  "full one, seeded samples of the longer families: quick 5k/4k, thorough "
                  "100k/70k/30k) run on a Task obtained "
                  "from a real replica; after each call the object's map and the recorded "
                  "operations with old values, after each commit the stored task, working-set "
                  "membership and every reader, are validated by TLC against the specification; "
                  "distinct = sequences run; evaluations = mutator and reader calls; plus seeded "
                  "random schedules of status / dependency edits on two replicas with syncs, "
                  "rebuilds and Observe steps, in which the dependency map handed out by "
                  "dependency_map(false) and the BLOCKED / BLOCKING tags of get_task must equal "
                  "TCReplica.DepMapOf of the stored state after every step",
             exhaustive=True,
             assumptions=["values are class tokens with three concrete representatives each",
                          "'now' is any time within the wall-clock window of the run"])
