"""C05 Local commits are atomic and follow the documented operation model."""
from sync_family import *

TR_INVS = ["TypeOK", "ReplicaInvariant", "Converged", "NoOutOfSync", "WireClean"]


def run(tier):
    v = Verdict("C05", tier)
    wd = workdir("C05-" + tier)
    build_harness()
    thorough = tier == "thorough"

    # 1. the specification: every batch (valid or not) on every reachable prior state, with syncs
    #    in between so that "last synchronised state" is not trivially empty
    c = rconsts(Replicas={"r1", "r2"}, Tasks={"u1", "u2"}, Props={"p"}, Vals={"a"}, Times={1},
                MaxBatch=2, MaxEdits=2, MaxPending=4, MaxChain=3, LocalKinds={"Batch", "Sync"},
                OnlyValid=True)   # OT presupposes valid operations (docs/src/storage.md)
    rmc(v, wd, "batches-2r-with-sync", c, timeout=900)
    c1 = rconsts(Replicas={"r1"}, Tasks={"u1", "u2"}, Props={"p", "q"}, Vals={"a", "b"}, Times={1},
                 MaxBatch=3 if thorough else 2, MaxEdits=2, MaxPending=6, MaxChain=1)
    rmc(v, wd, "batches-1r", c1, timeout=1500)

    # 2. every batch committed through Replica::commit_operations on both storages
    g = rconsts(Replicas={"r1"}, Tasks={"u1", "u2"}, Props={"p"}, Vals={"a"}, Times={1},
                MaxBatch=2, MaxEdits=2, MaxPending=4, MaxChain=1)
    sch, _ = rgen(wd, "gen-all-batches-len2x2", g, timeout=600, limit=None if thorough else 2500)
    v.distinct += distinct_count(sch)
    conform(v, wd, "batches-len2x2-mem", g, sch, invs=TR_INVS, flush=0)
    conform(v, wd, "batches-len2x2-sqlite", g, sch if thorough else sch[:400], invs=TR_INVS,
            storage="sqlite", flush=0)
    g3 = rconsts(Replicas={"r1"}, Tasks={"u1", "u2"}, Props={"p"}, Vals={"a"}, Times={1},
                 MaxBatch=3, MaxEdits=1, MaxPending=3, MaxChain=1)
    sch3, _ = rgen(wd, "gen-all-batches-len3", g3, timeout=600)
    v.distinct += distinct_count(sch3)
    conform(v, wd, "batches-len3-mem", g3, sch3, invs=TR_INVS, flush=0)
    gs = rconsts(Replicas={"r1", "r2"}, Tasks={"u1", "u2"}, Props={"p", "q"}, Vals={"a", "b"},
                 Times={1, 2}, MaxBatch=2, MaxEdits=6, MaxPending=9, MaxChain=20, MaxLen=40,
                 LocalKinds={"Batch", "Sync"}, OnlyValid=True)
    schs, _ = rgen(wd, "gen-batches-sync-sim", gs, simulate=1000 if thorough else 120, depth=41)
    v.distinct += distinct_count(schs)
    conform(v, wd, "batches-sync-sim-mem", gs, schs, invs=TR_INVS)
    if thorough:
        conform(v, wd, "batches-sync-sim-unicode-sqlite", gs, schs[:300], invs=TR_INVS,
                storage="sqlite", valclass="unicode")

    # 3. all or nothing: a failure of the k-th storage call of the commit leaves nothing behind
    sweep = storage_fault_sweep(sch3[-40:] if thorough else sch3[-8:], "Edit", 14, per=None)
    v.distinct += distinct_count(sweep)
    conform(v, wd, "commit-storage-fault-sweep-mem", g3, sweep, invs=TR_INVS, flush=0)
    conform(v, wd, "commit-storage-fault-sweep-sqlite", g3, sweep[:len(sweep) // 2], invs=TR_INVS,
            storage="sqlite", flush=0)

    # ... including commits that add tasks to the working set (more storage calls)
    gp = rconsts(Replicas={"r1"}, Tasks={"u1", "u2"}, Props={"status"}, Vals={"pending", "completed"},
                 Times={1}, Statuses={"pending", "completed"}, Alphabet={"C", "S"}, MaxBatch=3,
                 MaxEdits=1, MaxPending=3, MaxChain=1)
    schp, _ = rgen(wd, "gen-pending-batches", gp, timeout=300)
    pend = [h for h in schp if any(o.get("v") == "pending" for st in h for o in st.get("ops", []))]
    sweep2 = storage_fault_sweep(pend[-12:] if thorough else pend[-4:], "Edit", 18, per=None)
    v.distinct += distinct_count(sweep2)
    conform(v, wd, "pending-commit-fault-sweep-mem", gp, sweep2, invs=TR_INVS, flush=0)
    conform(v, wd, "pending-commit-fault-sweep-sqlite", gp, sweep2[:len(sweep2) // 2],
            invs=TR_INVS, storage="sqlite", flush=0)

    v.finish("model_checking",
             rule="TLC enumerates all batches of length <= 2-3 over {create, delete, set, remove, "
                  "undo point} x 2 tasks, valid or not, on every prior state (exhaustive), and "
                  "longer histories with syncs by simulation; each is committed through "
                  "Replica::commit_operations on InMemoryStorage and SqliteStorage and the "
                  "committed state (tasks, operations, working set, base) validated against the "
                  "specification by TLC; every storage call index of a commit is failed; distinct "
                  "= distinct schedules",
             exhaustive=True,
             assumptions=["the tap reads the committed state back through the public StorageTxn API"])
