"""C14 What is sent to the server is the documented operation format only."""
from sync_family import *


def run(tier):
    v = Verdict("C14", tier)
    wd = workdir("C14-" + tier)
    build_harness()
    thorough = tier == "thorough"
    kinds = {"C", "D", "U", "P"}

    # 1. content: only stripped Create/Delete/Update operations are ever stored on the chain,
    #    with undo points and populated deletes among the local operations
    c = consts(Props={"p"}, MaxPending=3, MaxEdits=4, MaxChain=4, EditKinds=kinds)
    mc_run(v, wd, "wire-seq-2r", c, timeout=900)
    mc_run(v, wd, "wire-unstripped", dict(c, Dev={"WIRE"}), timeout=300, expect="WireClean")

    # 2. the real documents: every add_version body is parsed as generic JSON by the harness
    #    (exact field sets, RFC 3339 'Z' timestamps, UTF-8) and its content compared with the
    #    specification's outgoing list; the other direction by serving every stored version
    #    re-written in another rendering of the documented format
    g = consts(Replicas={"r1", "r2", "r3"}, Tasks={"u1", "u2"}, Props={"p", "q"},
               Vals={"a", "b", "c"}, BigVals={"b"}, MaxPending=5, MaxEdits=12, MaxChain=40,
               MaxLen=50, EditKinds=kinds)      # "b" = 600 kB: syncs that span several versions
    n = 1200 if thorough else 120
    sch, _ = gen_schedules(wd, "gen-wire", g, simulate=n, depth=51)
    v.distinct += distinct_count(sch)
    k = len(sch) // 3
    conform(v, wd, "wire-unicode-nanos", g, sch[:k], valclass="unicode",
            header={"nanos": 123456000, "restyle": 1})
    conform(v, wd, "wire-ascii-restyle2", g, sch[k:2 * k], header={"restyle": 2})
    conform(v, wd, "wire-unicode-restyle3", g, sch[2 * k:], valclass="unicode",
            header={"nanos": 500000000, "restyle": 3})
    v.extra["renderings_served"] = ["key order timestamp/value/property/uuid", "whitespace/newlines",
                                    "\\u escapes", "0/6/9 fractional digits"]
    v.finish("model_checking",
             rule="TLC checks WireClean on the sync specification with undo points and populated "
                  "deletes; on the code each sent version is parsed as generic JSON (field sets "
                  "compared exactly) and validated by TLC against the specification's outgoing "
                  "operation list; each pulled version is served re-rendered in a different "
                  "documented form; distinct = distinct schedules",
             assumptions=["the documented top-level shape is {\"operations\": [...]} "
                          "(docs/src/sync-protocol.md as corrected by fix a71c422)"])
