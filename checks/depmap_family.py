"""The dependency map across commits, undo and SYNC (C19: "the synthetic tags and the dependency
map reflect exactly the stored statuses ... and dependency keys"; TCReplica.DepMapOf).

Replica caches the map it hands out (dependency_map(false), and through it get_task / all_tasks /
pending_tasks and the BLOCKED / BLOCKING / UNBLOCKED tags).  Every action that changes the stored
tasks must drop that cache: local commits, undo - and a sync, which applies other replicas'
changes.  The family below drives real replicas through seeded random schedules of status /
dependency edits on two replicas, full syncs, rebuilds and Observe steps (each Observe fills the
cache, so a later change that does not drop it shows up in the next Observe), and TLC validates
every Observe event against DepMapOf of the recorded state (TraceSync.TObserve, ObsSync.OObserve).
"""
import random

import sync_family as sf

TASKS = ("u1", "u2", "u3")


def dep(u):
    return "dep_7a5c0000-0000-0000-0000-00000000000" + u[1:]


PROPS = {"status"} | {dep(u) for u in TASKS}
VALS = {"pending", "completed", "x"}


def upd(u, p, v, t):
    return {"k": "U", "u": u, "p": p, "v": v, "t": t, "o": []}


def depmap_schedules(seed_, n, steps=10):
    rnd = random.Random(seed_)
    out = []
    for _ in range(n):
        t = 1
        setup = [{"k": "C", "u": u, "p": "-", "v": "-", "t": 0, "o": []} for u in TASKS]
        for u in TASKS:
            setup.append(upd(u, "status", rnd.choice(["pending", "pending", "completed"]), t))
        # at least one dependency to start with
        a, b = rnd.sample(TASKS, 2)
        setup.append(upd(a, dep(b), "x", t))
        sch = [{"a": "Setup", "ops": setup}]
        for r in ("r1", "r2"):
            sch.append({"a": "Observe", "r": r})
        live = list(TASKS)          # a purged task is not edited again by anybody (keeps every
        for _ in range(steps):      # operation valid on the replica that makes it)
            t += 1
            r = rnd.choice(["r1", "r2"])
            k = rnd.random()
            if k < 0.08 and len(live) > 2:
                # the final purge of a task (TaskData::delete), whatever its status and edges
                u = rnd.choice(live)
                live.remove(u)
                sch.append({"a": "Observe", "r": r})
                sch.append({"a": "Edit", "r": r, "ops": [{"k": "D", "u": u, "p": "-", "v": "-", "t": 0, "o": []}]})
                sch.append({"a": "Observe", "r": r})
            elif k < 0.30:
                u = rnd.choice(live)
                sch.append({"a": "Edit", "r": r, "ops": [upd(u, "status", rnd.choice(["pending", "completed"]), t)]})
            elif k < 0.50:
                a = rnd.choice(live)
                b = rnd.choice([x for x in TASKS if x != a])
                sch.append({"a": "Edit", "r": r, "ops": [upd(a, dep(b), rnd.choice(["x", "~"]), t)]})
            elif k < 0.75:
                sch.append({"a": "FullSync", "r": r})
                sch.append({"a": "Observe", "r": r})
            elif k < 0.82:
                sch.append({"a": "Rebuild", "r": r, "urg": rnd.choice(["renumber", "keep"])})
            else:
                sch.append({"a": "Observe", "r": r})
        out.append(sch)
    return out


def depmap_constants(steps=10):
    return sf.consts(Replicas={"r1", "r2"}, Tasks=set(TASKS), Props=set(PROPS), Vals=set(VALS),
                     Times=set(range(0, steps + 3)), MaxChain=99)


def depmap_conform(v, wd, name, n, storage="mem", steps=10, seed_=1):
    sch = depmap_schedules(seed_, n, steps)
    v.distinct += len(sch)
    sf.conform(v, wd, name, depmap_constants(steps), sch, storage=storage,
               invs=["TypeOK", "ReplicaInvariant", "Converged", "NoOutOfSync"])
    return sch
