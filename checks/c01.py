"""C01 Replicas converge after any history of edits and syncs."""
from sync_family import *


def run(tier):
    v = Verdict("C01", tier)
    wd = workdir("C01-" + tier)
    build_harness()
    thorough = tier == "thorough"

    # 1. the specification satisfies the property: exhaustive, sequential syncs, batching
    c = consts(Props={"p", "q"}, BigVals={"b"}, MaxPending=3, MaxEdits=5 if thorough else 4,
               MaxChain=6)
    mc_run(v, wd, "seq-2r-batching", c, timeout=1500 if thorough else 300)
    if thorough:
        c3 = consts(Replicas={"r1", "r2", "r3"}, MaxPending=2, MaxEdits=4, MaxChain=5)
        mc_run(v, wd, "seq-3r", c3, timeout=1500)
    # anti-vacuity: the pinned loop structure (D1-D3) must be refuted by the same invariants
    mc_run(v, wd, "seq-2r-pinned-loop", consts(Cap=1, MaxPending=2, MaxEdits=3, MaxChain=6,
                                               Dev={"PIN"}),
           timeout=300, expect="ReplicaInvariant")

    # 2. the code follows the specification: TLC-generated histories replayed on real replicas
    g = consts(Replicas={"r1", "r2", "r3"}, Tasks={"u1", "u2"}, Props={"p", "q"},
               Vals={"a", "b", "c"}, Times={1, 2, 3}, BigVals={"b"}, MaxPending=4,
               MaxEdits=12, MaxChain=40, MaxLen=60 if thorough else 45)
    n = 1500 if thorough else 60
    sch, _ = gen_schedules(wd, "gen-sim-3r", g, simulate=n, depth=g["MaxLen"] + 1)
    v.distinct += distinct_count(sch)
    conform(v, wd, "sim-3r-mem", g, sch)
    if thorough:
        conform(v, wd, "sim-3r-sqlite", g, sch[:400], storage="sqlite")
        conform(v, wd, "sim-3r-unicode", g, sch[:400], valclass="unicode")
    # small exhaustive family: every history of <= 3 edits and <= 3 syncs, 2 replicas
    e = consts(Props={"p"}, BigVals={"b"}, MaxPending=3, MaxEdits=3 if thorough else 2,
               MaxSyncs=3, MaxChain=6)
    sch2, _ = gen_schedules(wd, "gen-exh-2r", e, timeout=600, limit=20000 if thorough else 3000)
    v.distinct += distinct_count(sch2)
    conform(v, wd, "exh-2r-mem", e, sch2)

    # the property says "any history of ... synchronizations": syncs of different replicas may
    # also overlap (C02 explores that in depth); here a sample with every update its own version
    gr = consts(Props={"p", "q"}, Racing=True, MaxPending=2, MaxLong=2, MaxEdits=0, MaxChain=12,
                Times={1, 2})
    gr = dict(gr, BigVals=gr["Vals"])
    sch3, _ = gen_schedules(wd, "gen-race-2r-batches", gr, init="PInit",
                            simulate=800 if thorough else 120, depth=80)
    v.distinct += distinct_count(sch3)
    conform(v, wd, "race-2r-batches", gr, sch3)

    v.finish("model_checking",
             rule="TLC enumerates (exhaustively for small constants, by simulation for larger "
                  "ones) histories of edits and complete syncs incl. multi-version syncs; each "
                  "is replayed on real replicas and the trace validated against TCSync with "
                  "ReplicaInvariant/Converged evaluated on every state; distinct = distinct "
                  "schedules (non-trivial: each contains at least one sync)",
             assumptions=["the harness chain server implements the abstract protocol "
                          "(checked for the real backends by C08)"])
