"""C07 Undo restores the exact prior state and withdraws the changes from sync."""
from sync_family import *

TR_INVS = ["TypeOK", "ReplicaInvariant", "Converged", "NoOutOfSync", "WireClean"]


def run(tier):
    v = Verdict("C07", tier)
    wd = workdir("C07-" + tier)
    build_harness()
    thorough = tier == "thorough"
    kinds = {"Batch", "Undo", "Sync"}

    # 1. valid sequences of changes after undo points: the undo clauses at every undo
    c = rconsts(Replicas={"r1"}, Tasks={"u1"}, Props={"p", "q"}, Vals={"a", "b"}, Times={1},
                MaxBatch=2, MaxEdits=3, MaxPending=6, MaxChain=2, LocalKinds=kinds, OnlyValid=True)
    rmc(v, wd, "undo-1r", c, invs=("TypeOK", "ReplicaInvariant", "UndoOK"), timeout=1500)
    c2 = rconsts(Replicas={"r1", "r2"}, Tasks={"u1"}, Props={"p"}, Vals={"a", "b"}, Times={1, 2},
                 MaxBatch=2, MaxEdits=3 if thorough else 2, MaxPending=4, MaxChain=3,
                 LocalKinds=kinds, OnlyValid=True)
    rmc(v, wd, "undo-2r-with-sync", c2, invs=("TypeOK", "ReplicaInvariant", "Converged", "UndoOK"),
        timeout=1500)
    # invalid operations in the history: the clauses are conditional on validity; the stale-list
    # clause (false + unchanged) is unconditional
    ci = rconsts(Replicas={"r1"}, Tasks={"u1"}, Props={"p"}, Vals={"a", "b"}, Times={1},
                 MaxBatch=2, MaxEdits=3, MaxPending=6, MaxChain=1, LocalKinds={"Batch", "Undo"})
    rmc(v, wd, "undo-1r-invalid-ops", ci, invs=("TypeOK", "UndoOK"), timeout=900)
    # anti-vacuity: reversing in forward order must violate the undo clauses
    rmc(v, wd, "undo-forward-order", dict(c, Dev={"UNDO1"}),
        invs=("TypeOK", "UndoOK"), timeout=600, expect="UndoOK")

    # 2. on the real code, both storages
    g = rconsts(Replicas={"r1", "r2"}, Tasks={"u1", "u2"}, Props={"p", "q"}, Vals={"a", "b"},
                Times={1, 2}, MaxBatch=2, MaxEdits=8, MaxPending=12, MaxChain=20, MaxLen=45,
                LocalKinds=kinds, OnlyValid=True)
    sch, _ = rgen(wd, "gen-undo-sim", g, simulate=1500 if thorough else 150, depth=46)
    v.distinct += distinct_count(sch)
    conform(v, wd, "undo-sim-mem", g, sch, invs=TR_INVS)
    conform(v, wd, "undo-sim-sqlite", g, sch[:400] if thorough else sch[:80], invs=TR_INVS,
            storage="sqlite")
    # exhaustive small family incl. invalid operations (binds what the code does with them; the
    # replica invariant is not claimed for reversals of invalid operations)
    e = rconsts(Replicas={"r1"}, Tasks={"u1"}, Props={"p"}, Vals={"a"}, Times={1},
                MaxBatch=2, MaxEdits=2, MaxPending=4, MaxChain=1, MaxLen=8,
                LocalKinds={"Batch", "Undo"})
    sche, _ = rgen(wd, "gen-undo-exh", e, timeout=300, limit=None if thorough else 2500)
    v.distinct += distinct_count(sche)
    conform(v, wd, "undo-exh-mem", e, sche, invs=["TypeOK"], flush=0)
    # every valid history of three commits (<= 2 operations each) and undos on one task: 362 k
    # schedules; a random sample, plus a sample of the stratum random choice rarely fills:
    # a task updated, deleted and created again inside the span that is then undone
    e3 = rconsts(Replicas={"r1"}, Tasks={"u1"}, Props={"p"}, Vals={"a", "b"}, Times={1},
                 MaxBatch=2, MaxEdits=3, MaxPending=6, MaxChain=1, MaxLen=10,
                 LocalKinds={"Batch", "Undo"}, OnlyValid=True)
    sch3, _ = rgen(wd, "gen-undo-exh3", e3, timeout=900, limit=None)

    def recreates(h):
        kinds_ = "".join(o["k"] for st in h for o in st.get("ops", []) if o["k"] != "P")
        return "DC" in kinds_ and any(st["a"] == "Undo" for st in h)
    rnd = random.Random(seed())
    strat = [h for h in sch3 if recreates(h)]
    pick = rnd.sample(sch3, min(len(sch3), 3000 if thorough else 300)) + \
        rnd.sample(strat, min(len(strat), 2000 if thorough else 300))
    v.distinct += distinct_count(pick)
    v.extra["undo_exh3"] = {"all_valid_histories": len(sch3), "with_delete_create_and_undo": len(strat),
                            "replayed": len(pick)}
    conform(v, wd, "undo-exh3-sample-mem", e3, pick, invs=TR_INVS, flush=0)
    # all or nothing for the undo transaction
    with_undo = [h for h in sch if any(s["a"] == "Undo" for s in h)]
    sweep = storage_fault_sweep(with_undo[:10 if thorough else 3], "Undo", 16, per=None)
    if sweep:
        v.distinct += distinct_count(sweep)
        conform(v, wd, "undo-storage-fault-sweep", g, sweep, invs=TR_INVS)

    v.finish("model_checking",
             rule="TLC explores commits (several undo points), get_undo_operations / "
                  "commit_reversed_operations with fresh and stale lists, repeated undo, and "
                  "syncs, checking the undo clauses (exact earlier content, exactly those "
                  "operations withdrawn, false + unchanged for a stale list) at every undo; "
                  "behaviours are replayed on both storages; the next version sent is compared "
                  "with the specification, so undone operations are never sent; distinct = "
                  "distinct schedules",
             assumptions=["the boolean returned for an undo list consisting only of undo points is "
                          "modelled as the code returns it (false); reversal of operations that "
                          "were invalid when committed is modelled as implemented and not claimed"])
