"""Pure-Python reference for docs/src/encryption.md: PBKDF2-HMAC-SHA256 (hashlib, 600000
iterations), ChaCha20-Poly1305 as in RFC 8439 written out below, AAD = 0x01 || 16-byte version id,
envelope = 0x01 || 12-byte nonce || ciphertext || 16-byte tag.  Used by c13.py to re-open blobs
dumped by the harness so that the byte-level claim does not rest on `ring` alone."""
import hashlib
import struct

ITERATIONS = 600000
_keys = {}


def derive_key(secret: bytes, salt: bytes) -> bytes:
    k = (secret, salt)
    if k not in _keys:
        _keys[k] = hashlib.pbkdf2_hmac("sha256", secret, salt, ITERATIONS, 32)
    return _keys[k]


def _rotl(v, c):
    return ((v << c) & 0xFFFFFFFF) | (v >> (32 - c))


def _qr(s, a, b, c, d):
    s[a] = (s[a] + s[b]) & 0xFFFFFFFF; s[d] = _rotl(s[d] ^ s[a], 16)
    s[c] = (s[c] + s[d]) & 0xFFFFFFFF; s[b] = _rotl(s[b] ^ s[c], 12)
    s[a] = (s[a] + s[b]) & 0xFFFFFFFF; s[d] = _rotl(s[d] ^ s[a], 8)
    s[c] = (s[c] + s[d]) & 0xFFFFFFFF; s[b] = _rotl(s[b] ^ s[c], 7)


def chacha20_block(key: bytes, counter: int, nonce: bytes) -> bytes:
    init = list(struct.unpack("<4I", b"expand 32-byte k")) + list(struct.unpack("<8I", key)) \
        + [counter & 0xFFFFFFFF] + list(struct.unpack("<3I", nonce))
    s = list(init)
    for _ in range(10):
        _qr(s, 0, 4, 8, 12); _qr(s, 1, 5, 9, 13); _qr(s, 2, 6, 10, 14); _qr(s, 3, 7, 11, 15)
        _qr(s, 0, 5, 10, 15); _qr(s, 1, 6, 11, 12); _qr(s, 2, 7, 8, 13); _qr(s, 3, 4, 9, 14)
    return struct.pack("<16I", *[(s[i] + init[i]) & 0xFFFFFFFF for i in range(16)])


def chacha20_xor(key: bytes, counter: int, nonce: bytes, data: bytes) -> bytes:
    out = bytearray()
    for i in range(0, len(data), 64):
        ks = chacha20_block(key, counter + i // 64, nonce)
        chunk = data[i:i + 64]
        out += bytes(a ^ b for a, b in zip(chunk, ks))
    return bytes(out)


def poly1305(key: bytes, msg: bytes) -> bytes:
    r = int.from_bytes(key[:16], "little") & 0x0FFFFFFC0FFFFFFC0FFFFFFC0FFFFFFF
    s = int.from_bytes(key[16:32], "little")
    p = (1 << 130) - 5
    acc = 0
    for i in range(0, len(msg), 16):
        n = int.from_bytes(msg[i:i + 16] + b"\x01", "little")
        acc = ((acc + n) * r) % p
    return ((acc + s) & ((1 << 128) - 1)).to_bytes(16, "little")


def _pad16(b: bytes) -> bytes:
    return b"\x00" * ((16 - len(b) % 16) % 16)


def aead_tag(key: bytes, nonce: bytes, aad: bytes, ct: bytes) -> bytes:
    otk = chacha20_block(key, 0, nonce)[:32]
    mac_data = aad + _pad16(aad) + ct + _pad16(ct) + struct.pack("<QQ", len(aad), len(ct))
    return poly1305(otk, mac_data)


def aead_open(key: bytes, nonce: bytes, aad: bytes, ct_and_tag: bytes):
    if len(ct_and_tag) < 16:
        return None
    ct, tag = ct_and_tag[:-16], ct_and_tag[-16:]
    if aead_tag(key, nonce, aad, ct) != tag:
        return None
    return chacha20_xor(key, 1, nonce, ct)


def aead_seal(key: bytes, nonce: bytes, aad: bytes, pt: bytes) -> bytes:
    ct = chacha20_xor(key, 1, nonce, pt)
    return ct + aead_tag(key, nonce, aad, ct)


def open_envelope(secret: bytes, salt: bytes, version_id: bytes, blob: bytes):
    """The plaintext, or None if the blob is not a documented envelope for that version id."""
    if len(blob) < 1 + 12 + 16 or blob[0] != 1 or len(version_id) != 16:
        return None
    return aead_open(derive_key(secret, salt), blob[1:13], b"\x01" + version_id, blob[13:])


def seal_envelope(secret: bytes, salt: bytes, version_id: bytes, nonce: bytes, pt: bytes) -> bytes:
    return b"\x01" + nonce + aead_seal(derive_key(secret, salt), nonce, b"\x01" + version_id, pt)


def selftest():
    """RFC 8439 section 2.8.2 test vector."""
    key = bytes(range(0x80, 0xA0))
    nonce = bytes.fromhex("070000004041424344454647")
    aad = bytes.fromhex("50515253c0c1c2c3c4c5c6c7")
    pt = (b"Ladies and Gentlemen of the class of '99: If I could offer you only one tip for "
          b"the future, sunscreen would be it.")
    out = aead_seal(key, nonce, aad, pt)
    assert out[-16:].hex() == "1ae10b594f09e26a7e902ecbd0600691", out[-16:].hex()
    assert out[:16].hex() == "d31a8d34648e60db7b86afbc53ef7ec2", out[:16].hex()
    assert aead_open(key, nonce, aad, out) == pt
    bad = bytearray(out); bad[3] ^= 1
    assert aead_open(key, nonce, aad, bytes(bad)) is None
    return True


if __name__ == "__main__":
    print("RFC 8439 vector:", selftest())
