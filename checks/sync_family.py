"""C01, C02, C04, C12, C14: the sync protocol (TCSync.tla), model checked with TLC and bound
to src/taskdb/sync.rs by replaying TLC-generated schedules on real replicas against the gated
chain server and validating the recorded traces with TraceSync.tla."""
import json
import os
import random

from vlib import (SPEC, Verdict, build_harness, run_harness, tlc_check, tlc_trace, write_cfg,
                  replay_lines, drop_prefixes, workdir, log, seed, behaviour_at, write_replay,
                  split_behaviours, load_known)

INVS = ["TypeOK", "ReplicaInvariant", "Converged", "NoOutOfSync", "SnapshotFaithful", "WireClean"]

BASE = {
    "Replicas": {"r1", "r2"}, "Tasks": {"u1"}, "Props": {"p"}, "Vals": {"a", "b"},
    "Times": {1, 2}, "Dev": set(), "MaxPending": 2, "MaxEdits": 4, "MaxChain": 4,
    "MaxSyncs": 99, "MaxLen": 9999, "MaxLong": 1, "Cap": 1999, "BigVals": set(),
    "BigSize": 1000, "AvoidSet": set(), "Urg": {"none"}, "Emit": False,
    "EditKinds": {"C", "D", "U"}, "WithTrim": False, "Sit": "-",
    "Racing": False, "Faults": False,
}


def consts(**kw):
    c = dict(BASE)
    c.update(kw)
    return c


def mc_run(v, wd, name, c, init="MCInit", invs=INVS, timeout=600, expect=None, simulate=None,
           depth=None, module="MCSync.tla", next_="MCNext", view="View", coverage=False):
    cfg = write_cfg(os.path.join(wd, name + ".cfg"), c, init=init, next_=next_,
                    invariants=invs, view=view)
    r = tlc_check(wd, name, module, cfg, timeout=timeout, simulate=simulate, depth=depth,
                  seed_=seed(), coverage=coverage)
    log(f"[mc] {name}: {r['distinct']} distinct / {r['states']} generated, depth {r['depth']}, "
        f"{r['wall_s']}s, violated={r['violated']}, timed_out={r['timed_out']}")
    v.mc(r, expect_violation=expect)
    return r


def gen_schedules(wd, name, c, init="MCInit", simulate=None, depth=None, timeout=300,
                  limit=None, seed_=None, module="MCSync.tla", next_="MCNext", emit="EmitReplay",
                  constraint=None):
    c = dict(c)
    c["Emit"] = True
    cfg = write_cfg(os.path.join(wd, name + ".cfg"), c, init=init, next_=next_,
                    invariants=[emit], constraint=constraint)
    r = tlc_check(wd, name, module, cfg, timeout=timeout, simulate=simulate, depth=depth,
                  seed_=seed_ if seed_ is not None else seed(), workers=1 if simulate else None)
    if os.path.getsize(r["out"]) > 3_000_000_000:
        os.remove(r["out"])
        raise RuntimeError(f"{name}: schedule output too large; tighten the bounds")
    sch = replay_lines(r["out"])
    sch = drop_prefixes(sch)
    if simulate and not limit:
        # TLC evaluates the emitting invariant on every candidate successor, so a simulation
        # run yields several sibling schedules per behaviour; keep a sample
        limit = simulate * 3
    if limit and len(sch) > limit:
        rnd = random.Random(seed())
        sch = rnd.sample(sch, limit)
    log(f"[gen] {name}: {len(sch)} schedules from TLC ({'simulation' if simulate else 'exhaustive'}"
        f", {r['wall_s']}s, timed_out={r['timed_out']})")
    try:
        os.remove(r["out"])
    except OSError:
        pass
    return sch, r


def gen_situations(wd, name, c, sit, init="PInit", timeout=300, limit=20):
    """Shortest schedules (TLC breadth-first search, VIEW without the history) into a situation."""
    c = dict(c, Emit=True, Sit=sit)
    cfg = write_cfg(os.path.join(wd, name + ".cfg"), c, init=init, next_="MCNext",
                    invariants=["EmitSit"], view="View")
    r = tlc_check(wd, name, "MCSync.tla", cfg, timeout=timeout)
    if os.path.getsize(r["out"]) > 3_000_000_000:
        os.remove(r["out"])
        raise RuntimeError(f"{name}: schedule output too large")
    sch = replay_lines(r["out"])
    os.remove(r["out"])
    sch.sort(key=len)
    rnd = random.Random(seed())
    half = limit // 2
    picked = sch[:half] + (rnd.sample(sch[half:], min(len(sch) - half, limit - half))
                           if len(sch) > half else [])
    log(f"[situations] {name}: {len(sch)} schedules into '{sit}', {len(picked)} used "
        f"({r['wall_s']}s, timed_out={r['timed_out']})")
    return picked


def write_stimuli(path, schedules, c, storage="mem", valclass="ascii", flush=2, extra_steps=None,
                  header=None):
    with open(path, "w") as f:
        for i, h in enumerate(schedules):
            steps = list(h)
            if extra_steps:
                steps = extra_steps(i, steps)
            b = {"id": i, "replicas": sorted(c["Replicas"]), "avoid": sorted(c["AvoidSet"]),
                 "big": sorted(c["BigVals"]), "storage": storage, "valclass": valclass,
                 "tasks": sorted(c["Tasks"]), "flush": flush, "steps": steps}
            b.update(header or {})
            f.write(json.dumps(b) + "\n")


def trace_constants(c, dev=frozenset()):
    return {
        "Replicas": c["Replicas"], "Tasks": c["Tasks"], "Props": c["Props"], "Vals": c["Vals"],
        "Times": c["Times"], "Dev": set(dev), "MaxChain": 99999, "Cap": c["Cap"],
        "BigVals": c["BigVals"], "BigSize": c["BigSize"], "Racing": True, "Faults": True,
    }


def classify_known(pid, lines, rej):
    """Match a rejected behaviour against the open entries of known-findings.json."""
    for k in load_known():
        if k.get("status") != "open" or k.get("property") != pid:
            continue
        sig = k.get("signature", {})
        if sig.get("rejected_action") and rej and rej.get("a") != sig["rejected_action"]:
            continue
        return k
    return None


OBS_ALSO = bool(os.environ.get("VERIF_OBS_ALSO"))


def conform(v, wd, name, c, schedules, storage="mem", valclass="ascii", invs=INVS,
            max_failures=3, extra_steps=None, flush=2, sqlite_dir=None, header=None, obs=True):
    """Replay schedules on the real code and validate the trace; account the result in v."""
    if not schedules:
        v.tool_errors.append(f"{name}: TLC produced no schedules")
        return
    stim = os.path.join(wd, name + ".stim.ndjson")
    trace = os.path.join(wd, name + ".trace.ndjson")
    write_stimuli(stim, schedules, c, storage=storage, valclass=valclass, flush=flush,
                  extra_steps=extra_steps, header=header)
    args = ["sync-replay", "--in", stim, "--out", trace]
    if storage == "sqlite":
        d = os.path.join(wd, name + ".sqlite")
        os.makedirs(d, exist_ok=True)
        args += ["--dir", d]
    run_harness(args)
    tcfg = write_cfg(os.path.join(wd, name + ".trace.cfg"), trace_constants(c), spec="TSpec",
                     invariants=invs, postcondition="Accepted")
    stimuli = [json.loads(l) for l in open(stim)]
    failures = 0
    cur = trace
    nb = len(schedules)
    ocfg = None
    mode = "impl"          # "impl": TraceSync; "obs": ObsSync (after a specification drift)
    while True:
        if mode == "impl":
            r = tlc_trace(wd, name + ".tv", "TraceSync.tla", tcfg, cur)
        else:
            r = tlc_trace(wd, name + ".obs", "ObsSync.tla", ocfg, cur)
        nev = sum(1 for _ in open(cur))
        if r["accepted"]:
            v.traces += len(split_behaviours(cur))
            v.events += nev
            if mode == "impl" and obs and OBS_ALSO:
                # self-test of the property-level specification: whatever TraceSync accepts,
                # ObsSync must accept too (else a harmless drift would end in a false alarm)
                ocfg2 = write_cfg(os.path.join(wd, name + ".obs.cfg"), trace_constants(c),
                                  spec="OSpec", invariants=invs, postcondition="Accepted")
                ro = tlc_trace(wd, name + ".obsalso", "ObsSync.tla", ocfg2, cur)
                v.extra["property_level_selftest_traces"] = \
                    v.extra.get("property_level_selftest_traces", 0) + len(split_behaviours(cur))
                if not ro["accepted"]:
                    v.tool_errors.append(f"{name}: ObsSync rejects a trace that TraceSync accepts: "
                                         f"{json.dumps(ro['event'])[:300]} invariant={ro['violated']} "
                                         f"(see {ro['out']})")
            if mode == "obs":
                v.extra["validated_at_property_level_only"] = \
                    v.extra.get("validated_at_property_level_only", 0) + len(split_behaviours(cur))
            break
        if r["timed_out"] or (r["rejected_at"] is None and not r["violated"]):
            v.tool_errors.append(f"{name}: trace validation did not finish: {r.get('error')} "
                                 f"(see {r['out']})")
            break
        line = r["rejected_at"] if r["rejected_at"] else r.get("violated_at_line", 1)
        k, lines, off = behaviour_at(cur, line)
        bid = json.loads(lines[0]).get("id") if lines else None
        level = "implementation-level" if mode == "impl" else "property-level"
        what = (f"invariant {r['violated']} violated while following the recorded execution"
                if r["violated"] else
                f"recorded step is not a step of the {level} specification: "
                f"{json.dumps(r['event'])[:300]}")
        payload = {"kind": "trace-rejection", "check": name, "behaviour": bid, "level": level,
                   "stimulus": stimuli[bid] if bid is not None and bid < len(stimuli) else None,
                   "rejected_event_index": off, "rejected_event": r["event"],
                   "invariant": r["violated"], "trace": [json.loads(x) for x in lines],
                   "what": what, "storage": storage, "valclass": valclass,
                   "constants": {k2: sorted(v2) if isinstance(v2, (set, frozenset)) else v2
                                 for k2, v2 in trace_constants(c).items()}}
        known = classify_known(v.pid, lines, r["event"] if isinstance(r["event"], dict) else None)
        drift = False
        if mode == "impl" and not known and obs and not r["violated"]:
            # property level (DESIGN.md 4.5): the same behaviour judged only by what the
            # properties state; accepted there = the implementation changed shape, not behaviour
            one = os.path.join(wd, f"{name}.b{bid}.ndjson")
            with open(one, "w") as f:
                f.writelines(lines)
            ocfg = write_cfg(os.path.join(wd, name + ".obs.cfg"), trace_constants(c), spec="OSpec",
                             invariants=invs, postcondition="Accepted")
            ro = tlc_trace(wd, name + ".obs1", "ObsSync.tla", ocfg, one)
            drift = ro["accepted"]
            payload["property_level"] = {"accepted": ro["accepted"], "rejected_event": ro["event"],
                                         "invariant": ro["violated"]}
            if not drift and (ro["timed_out"] or (ro["rejected_at"] is None and not ro["violated"])):
                v.tool_errors.append(f"{name}: property-level validation did not finish "
                                     f"(see {ro['out']})")
        if drift:
            v.drift.append(f"{name} behaviour {bid}: {json.dumps(r['event'])[:200]} is not the step "
                           f"TCSync takes, but the behaviour satisfies the property-level "
                           f"specification ObsSync; all behaviours of this family are now judged "
                           f"at the property level")
            write_replay(v.pid, f"{name}-b{bid}-drift", payload)
            mode = "obs"       # validate the whole family at the property level
            continue
        if known:
            v.known.append(f"{known['id']}: {known['what']} (behaviour {bid} of {name})")
        else:
            p = write_replay(v.pid, f"{name}-b{bid}", payload)
            v.violations.append((what, p))
        failures += 1
        # validate the rest without the failing behaviour
        bs = split_behaviours(cur)
        nxt = os.path.join(wd, f"{name}.trace.{failures}.ndjson")
        with open(nxt, "w") as f:
            for j, (_, ls) in enumerate(bs):
                if j != k:
                    f.writelines(ls)
        cur = nxt
        if failures >= max_failures or len(bs) <= 1:
            break
    v.evaluations += nb
    v.samples += [schedules[0]] if schedules and not v.samples else []
    log(f"[conform] {name}: {nb} behaviours replayed on {storage}/{valclass}, "
        f"{v.traces} accepted so far, failures in this step: {failures}, "
        f"validation {r['wall_s']}s for {nev} events")


def distinct_count(schedules):
    return len({json.dumps(s) for s in schedules})


# ---- replica-local family (MCReplica.tla)
RBASE = dict(BASE, MaxBatch=2, Alphabet={"C", "D", "U", "P"}, Statuses=set(),
             LocalKinds={"Batch"}, MaxWS=0, OnlyValid=False, EmitAll=False)


def rconsts(**kw):
    c = dict(RBASE)
    c.update(kw)
    return c


def rmc(v, wd, name, c, init="RInit", invs=("TypeOK", "ReplicaInvariant"), timeout=600, expect=None):
    return mc_run(v, wd, name, c, init=init, invs=list(invs), timeout=timeout, expect=expect,
                  module="MCReplica.tla", next_="RNext", view="RView")


def rgen(wd, name, c, init="RInit", simulate=None, depth=None, timeout=300, limit=None, seed_=None):
    c = dict(c, EmitAll=not simulate)
    return gen_schedules(wd, name, c, init=init, simulate=simulate, depth=depth, timeout=timeout,
                         limit=limit, seed_=seed_, module="MCReplica.tla", next_="RNext",
                         emit="REmit", constraint=None if simulate else "HBound")


def storage_fault_sweep(schedules, action, kmax, per=1):
    """For each schedule insert a StorageFault before its last `action` step, k = 1..kmax."""
    out = []
    for h in schedules[:per] if per else schedules:
        idx = [i for i, s in enumerate(h) if s["a"] == action]
        if not idx:
            continue
        pos = idx[-1]
        for k in range(1, kmax + 1):
            # the schedule is cut after the faulted action: TLC generated the rest assuming the
            # action succeeded (later edits could be invalid operations otherwise); the harness
            # then syncs everybody to quiescence
            hh = list(h[:pos]) + [{"a": "StorageFault", "r": h[pos]["r"], "k": k, "ops": [], "urg": "-"},
                                  h[pos]]
            out.append(hh)
    return out
