"""C03 No lost updates; documented conflict winners, independent of sync order."""
from sync_family import *

CINVS = ["ReplicaInvariant", "Converged", "NoOutOfSync", "OracleInv"]


def cmc(v, wd, name, c, timeout=900, expect=None):
    cfg = write_cfg(os.path.join(wd, name + ".cfg"), c, init="CInit", next_="CNext",
                    invariants=CINVS, view="CView")
    r = tlc_check(wd, name, "MCConflict.tla", cfg, timeout=timeout)
    log(f"[mc] {name}: {r['distinct']} distinct / {r['states']} generated, depth {r['depth']}, "
        f"{r['wall_s']}s, violated={r['violated']}, timed_out={r['timed_out']}")
    v.mc(r, expect_violation=expect)
    return r


def cgen(wd, name, c, simulate, depth):
    c = dict(c, Emit=True)
    cfg = write_cfg(os.path.join(wd, name + ".cfg"), c, init="CInit", next_="CNext",
                    invariants=["CEmit"])
    r = tlc_check(wd, name, "MCConflict.tla", cfg, timeout=300, simulate=simulate, depth=depth,
                  seed_=seed(), workers=1)
    sch = drop_prefixes(replay_lines(r["out"]))
    log(f"[gen] {name}: {len(sch)} schedules ({r['wall_s']}s)")
    os.remove(r["out"])
    return sch


def run(tier):
    v = Verdict("C03", tier)
    wd = workdir("C03-" + tier)
    build_harness()
    thorough = tier == "thorough"
    base = consts(Props={"p", "q"}, Vals={"a", "b", "c", "z"}, Times={1, 2}, MaxPending=3,
                  MaxEdits=0, MaxChain=8, BaseExists=True, WithRound2=True, OracleLatest=True,
                  SharedVal=False)

    # 1. all pairs/triples x all operation families x all timestamp orders x all sync orders
    mc2 = dict(base)
    cmc(v, wd, "pairs-existing-task", mc2)
    cmc(v, wd, "pairs-new-task", dict(base, BaseExists=False))
    cmc(v, wd, "pairs-two-tasks", dict(base, Tasks={"u1", "u2"}, Props={"p"}, WithRound2=False))
    cmc(v, wd, "pairs-racing", dict(base, Racing=True, WithRound2=False))
    t3 = dict(base, Replicas={"r1", "r2", "r3"}, WithRound2=False)
    if thorough:
        cmc(v, wd, "triples-existing-task", t3, timeout=1700)
        cmc(v, wd, "triples-new-task", dict(t3, BaseExists=False), timeout=1700)
    else:
        cmc(v, wd, "triples-existing-task-1prop", dict(t3, Props={"p"}), timeout=600)
    # concurrent updates to the SAME value (every replica may also write "s"): the latest
    # timestamp still decides.  With the former table (two updates to the same value cancel each
    # other, whatever their timestamps: defect EQ1) the oracle must be violated
    sv = dict(base, Props={"p"}, Vals={"a", "b", "c", "s", "z"}, Times={1, 2, 3}, SharedVal=True,
              WithRound2=False)
    cmc(v, wd, "pairs-shared-value", sv)
    cfg = write_cfg(os.path.join(wd, "pairs-shared-value-former-table.cfg"), sv, init="CInit",
                    next_="CNext", invariants=CINVS, view="CView", subst={"EqualCancels": "EqTrue"})
    r = tlc_check(wd, "pairs-shared-value-former-table", "MCConflict.tla", cfg, timeout=600)
    log(f"[mc] pairs-shared-value-former-table: {r['distinct']} distinct, violated={r['violated']}")
    v.mc(r, expect_violation="OracleInv")
    # anti-vacuity: an oracle preferring the earliest timestamp must be refuted
    cmc(v, wd, "oracle-earliest-wins", dict(base, OracleLatest=False, WithRound2=False),
        expect="OracleInv")

    # 2. rounds replayed on real replicas (final states validated against the spec state, which
    #    TLC has shown to equal the oracle)
    n = 1500 if thorough else 150
    g = dict(base, MaxChain=20)
    sch = cgen(wd, "gen-pairs", g, n, 80)
    v.distinct += distinct_count(sch)
    conform(v, wd, "pairs-rounds", g, sch, obs=False)
    gsv = dict(sv, MaxChain=20)
    sch = cgen(wd, "gen-shared-value", gsv, n, 80)
    v.distinct += distinct_count(sch)
    conform(v, wd, "shared-value-rounds", gsv, sch, obs=False)
    g3 = dict(base, Replicas={"r1", "r2", "r3"}, MaxChain=30)
    sch = cgen(wd, "gen-triples", g3, n, 120)
    v.distinct += distinct_count(sch)
    conform(v, wd, "triples-rounds", g3, sch, obs=False)
    gn = dict(g3, BaseExists=False, Tasks={"u1", "u2"})
    sch = cgen(wd, "gen-triples-new", gn, n, 120)
    v.distinct += distinct_count(sch)
    conform(v, wd, "triples-new-task-rounds", gn, sch, obs=False)

    v.finish("model_checking",
             rule="TLC enumerates all combinations of concurrent operation families (update p, "
                  "update q, two updates, delete, update-then-delete, other task; create, "
                  "create+update, create+update+delete) x timestamps earlier/later/equal x all "
                  "sync orders, plus a causally later change with an arbitrary timestamp, and "
                  "checks the final state against an oracle written from the documented rules; "
                  "rounds are replayed on real replicas and validated by TLC; distinct = "
                  "distinct (families, order) schedules",
             assumptions=["equal timestamps with different values: the documentation leaves the "
                          "winner open, the oracle admits either value"])
