"""C16 SQLite and in-memory storage are observationally equivalent and persistent.

TCStorage.tla is the StorageTxn contract; TLC (MCStorage.tla) checks the documented return values
clause by clause and enumerates call sequences; stordrv.rs (storage-replay) runs each sequence on
InMemoryStorage and SqliteStorage (also with close/reopen, read-only handles and databases
rewritten under the historical schemas); TraceStorage.tla validates every recorded call result
against the contract, and the two backends' traces are additionally compared line by line."""
import json
import os
import random
import shutil
import time
from concurrent.futures import ThreadPoolExecutor

from vlib import (Verdict, build_harness, run_harness, tlc_check, tlc_trace, write_cfg,
                  replay_lines, drop_prefixes, workdir, log, seed, behaviour_at, write_replay,
                  split_behaviours)

READERS = ["GetTask", "AllTasks", "AllTaskUuids", "BaseVersion", "UnsyncedOperations",
           "NumUnsynced", "GetTaskOperations", "GetWorkingSet", "GetPendingTasks", "IsEmpty"]
MUTATORS = ["CreateTask", "SetTask", "DeleteTask", "SetBaseVersion", "AddOperation",
            "RemoveOperation", "SyncComplete", "AddToWorkingSet", "SetWorkingSetItem",
            "ClearWorkingSet"]

BASE = {
    "Tasks": {"u1", "u2", "u3"}, "Props": {"p", "q"}, "Vals": {"a", "b"}, "Times": {1},
    "Cap": 1, "BigVals": set(), "BigSize": 1, "Versions": {"v1", "v2"}, "SDev": set(),
    "TaskArgs": {"u1", "u2"}, "OpTaskArgs": {"u1", "u2"}, "MapSel": "small",
    "Kinds": set(READERS + MUTATORS), "Modes": {"reopen"},
    "MaxLen": 9999, "MaxMut": 3, "MaxTxn": 2, "Emit": False, "EmitAll": False,
}
INVS = ["STypeOK", "WellFormed", "ContractOK"]


def consts(**kw):
    c = dict(BASE)
    c.update(kw)
    return c


def trace_consts(c, dev=()):
    return {k: c[k] for k in ("Tasks", "Props", "Vals", "Times", "Cap", "BigVals", "BigSize",
                              "Versions")} | {"SDev": set(dev)}


def mc(v, wd, name, c, timeout=600, expect=None):
    cfg = write_cfg(os.path.join(wd, name + ".cfg"), c, init="MInit", next_="MNext",
                    invariants=INVS, view="SView", properties=["Atomic"])
    r = tlc_check(wd, name, "MCStorage.tla", cfg, timeout=timeout)
    log(f"[mc] {name}: {r['distinct']} distinct / {r['states']} generated, depth {r['depth']}, "
        f"{r['wall_s']}s, violated={r['violated']}, timed_out={r['timed_out']}")
    v.mc(r, expect_violation=expect)
    return r


def gen(wd, name, c, simulate=None, depth=None, timeout=300, limit=None):
    """Call sequences from TLC: exhaustive (every sequence with Len(h) <= MaxLen, prefixes
    dropped) or simulation (one per behaviour of length MaxLen)."""
    c = dict(c, Emit=True, EmitAll=not simulate)
    cfg = write_cfg(os.path.join(wd, name + ".cfg"), c, init="MInit", next_="MNext",
                    invariants=["MEmit"], constraint=None if simulate else "HBound")
    r = tlc_check(wd, name, "MCStorage.tla", cfg, timeout=timeout, simulate=simulate, depth=depth,
                  seed_=seed(), workers=1 if simulate else None)
    if r["error"] or (not r["completed"] and not r["timed_out"]):
        raise RuntimeError(f"{name}: TLC failed: {r['error']} (see {r['out']})")
    sch = drop_prefixes(replay_lines(r["out"]))
    if simulate and not limit:
        limit = simulate
    if limit and len(sch) > limit:
        sch = random.Random(seed()).sample(sch, limit)
    log(f"[gen] {name}: {len(sch)} call sequences from TLC "
        f"({'simulation' if simulate else 'exhaustive'}, {r['wall_s']}s)")
    try:
        os.remove(r["out"])
    except OSError:
        pass
    return sch


def mk(a, **kw):
    d = {"a": a, "u": "-", "m": {"p": "~", "q": "~"}, "v": "-", "i": 0, "x": "-",
         "op": {"k": "N", "u": "-", "p": "-", "v": "-", "t": 0, "o": {"p": "~", "q": "~"}}}
    d.update(kw)
    return d


def probes(tasks, short=False):
    """The battery of readers run at the end of every stimulus (short: inside the transaction
    that is about to be committed or abandoned)."""
    if short:
        return [mk("AllTasks"), mk("BaseVersion"), mk("UnsyncedOperations"), mk("GetWorkingSet")]
    out = [mk("GetTask", u=u) for u in tasks]
    out += [mk("AllTasks"), mk("AllTaskUuids"), mk("BaseVersion"), mk("UnsyncedOperations"),
            mk("NumUnsynced")]
    out += [mk("GetTaskOperations", u=u) for u in tasks]
    out += [mk("GetWorkingSet"), mk("GetPendingTasks"), mk("IsEmpty")]
    return out


def finish_steps(steps, tasks, variant, reopen):
    """Close an open transaction (committing or abandoning it, by `variant`), optionally reopen,
    then read everything back in a fresh transaction."""
    steps = list(steps)
    is_open = False
    ro = False
    for s in steps:
        if s["a"] == "Begin":
            is_open = True
        elif s["a"] in ("Abandon", "Commit"):
            is_open = False
        elif s["a"] == "Reopen":
            ro = s["v"] == "ro"
        elif s["a"] == "Legacy":
            ro = False
    if is_open:
        steps += probes(tasks, short=True)
        steps.append(mk("Commit") if variant == 0 else mk("Abandon"))
    if reopen:
        steps.append(mk("Reopen", v="rw"))
    steps += [mk("Begin")] + probes(tasks) + [mk("Abandon")]
    return steps


def plain(steps):
    return all(s["a"] != "Legacy" and not (s["a"] == "Reopen" and s["v"] == "ro") for s in steps)


def write_stimuli(path, seqs, backend, valclass, tasks, reopen_end=False):
    n = 0
    with open(path, "w") as f:
        for i, h in enumerate(seqs):
            steps = finish_steps(h, tasks, i % 2, reopen_end and backend == "sqlite")
            f.write(json.dumps({"id": i, "backend": backend, "valclass": valclass,
                                "steps": steps}) + "\n")
            n += 1
    return n


def sqlite3_cli():
    for cand in [shutil.which("sqlite3"), "/usr/bin/sqlite3", "/root/miniconda/bin/sqlite3"]:
        if cand and os.path.exists(cand):
            return cand
    return None


def validate(v, wd, name, c, trace, stimuli, chunk=60000, dev=(), expect_reject=False):
    """TLC trace validation of one recorded trace (split into chunks at Reset events, validated
    in parallel).  Returns the number of rejected behaviours."""
    bs = split_behaviours(trace)
    chunks, cur, cur_n = [], [], 0
    for b in bs:
        if cur and cur_n + len(b[1]) > chunk:
            chunks.append(cur)
            cur, cur_n = [], 0
        cur.append(b)
        cur_n += len(b[1])
    if cur:
        chunks.append(cur)
    tcfg = write_cfg(os.path.join(wd, name + ".trace.cfg"), trace_consts(c, dev), spec="TSpec",
                     invariants=["WellFormed"], postcondition="Accepted")

    def one(k):
        failures = []
        behs = chunks[k]
        rounds = 0
        while behs and rounds < 4:
            p = os.path.join(wd, f"{name}.c{k}.r{rounds}.ndjson")
            with open(p, "w") as f:
                for _, ls in behs:
                    f.writelines(ls)
            r = tlc_trace(wd, f"{name}.tv{k}r{rounds}", "TraceStorage.tla", tcfg, p)
            if r["accepted"]:
                return failures, len(behs), sum(len(b[1]) for b in behs), None, r
            if r["timed_out"] or (r["rejected_at"] is None and not r["violated"]):
                return failures, 0, 0, f"{name}: trace validation did not finish: " \
                    f"{r.get('error')} (see {r['out']})", r
            line = r["rejected_at"] if r["rejected_at"] else r.get("violated_at_line", 1)
            kk, lines, off = behaviour_at(p, line)
            failures.append((lines, off, r["event"], r["violated"]))
            behs = [b for j, b in enumerate(behs) if j != kk]
            rounds += 1
        return failures, len(behs), sum(len(b[1]) for b in behs), None, None

    t_ok = e_ok = 0
    nfail = 0
    with ThreadPoolExecutor(max_workers=4) as ex:
        for failures, nb, ne, err, r in ex.map(one, range(len(chunks))):
            if err:
                v.tool_errors.append(err)
            t_ok += nb
            e_ok += ne
            for lines, off, ev, inv in failures:
                nfail += 1
                if expect_reject:
                    continue
                hdr = json.loads(lines[0])
                bid = hdr.get("id")
                if isinstance(ev, dict) and ev.get("st") == "toolerror":
                    v.tool_errors.append(f"{name}: {ev.get('msg')}")
                    continue
                what = (f"invariant {inv} violated while following the recorded execution" if inv
                        else "recorded storage call is not a step of the StorageTxn contract: "
                             f"{json.dumps(ev)[:400]}")
                payload = {"kind": "storage-trace-rejection", "check": name, "behaviour": bid,
                           "backend": hdr.get("backend"), "valclass": hdr.get("valclass"),
                           "stimulus": stimuli[bid] if bid is not None and bid < len(stimuli) else None,
                           "rejected_event_index": off, "rejected_event": ev, "invariant": inv,
                           "trace": [json.loads(x) for x in lines], "what": what,
                           "constants": {k2: sorted(v2) if isinstance(v2, (set, frozenset)) else v2
                                         for k2, v2 in trace_consts(c).items()}}
                pth = write_replay(v.pid, f"{name}-b{bid}", payload)
                v.violations.append((what, pth))
    if not expect_reject:
        v.traces += t_ok
        v.events += e_ok
    return nfail, t_ok, e_ok


def replay(wd, name, seqs, backend, valclass, tasks, reopen_end=False, cli=None):
    stim = os.path.join(wd, f"{name}.stim.ndjson")
    trace = os.path.join(wd, f"{name}.trace.ndjson")
    write_stimuli(stim, seqs, backend, valclass, tasks, reopen_end)
    d = scratch_dir(wd, name)
    args = ["storage-replay", "--in", stim, "--out", trace, "--dir", d, "--jobs", "6"]
    if cli:
        args += ["--sqlite3", cli]
    try:
        run_harness(args)
    finally:
        shutil.rmtree(d, ignore_errors=True)
    return stim, trace


def conform(v, wd, name, c, seqs, backend, valclass="ascii", reopen_end=False, cli=None):
    if not seqs:
        v.tool_errors.append(f"{name}: TLC produced no call sequences")
        return None
    tasks = sorted(c["TaskArgs"] | c["OpTaskArgs"])
    t0 = time.time()
    stim, trace = replay(wd, name, seqs, backend, valclass, tasks, reopen_end, cli)
    t1 = time.time()
    stimuli = [json.loads(x) for x in open(stim)]
    nfail, t_ok, e_ok = validate(v, wd, name, c, trace, stimuli)
    t2 = time.time()
    v.evaluations += len(seqs)
    if not v.samples:
        v.samples.append({"backend": backend, "stimulus": stimuli[0]["steps"][:8],
                          "recorded": [json.loads(x) for x in open(trace).readlines()[:6]]})
    log(f"[conform] {name}: {len(seqs)} sequences on {backend}/{valclass}: {t_ok} traces, "
        f"{e_ok} events accepted, {nfail} rejected (replay {t1 - t0:.1f}s, validation {t2 - t1:.1f}s)")
    return trace


def differential(v, name, trace_a, trace_b):
    """Direct comparison of two backends' records of the same stimuli (results as logged, with
    unordered collections sorted by the harness); reopen events are ignored."""
    def norm(path):
        out = []
        for line in open(path):
            e = json.loads(line)
            if e["a"] in ("Reopen",):
                continue
            e.pop("backend", None)
            e.pop("msg", None)
            out.append(e)
        return out
    a, b = norm(trace_a), norm(trace_b)
    diffs = 0
    if len(a) != len(b):
        diffs += 1
    for x, y in zip(a, b):
        if x != y:
            diffs += 1
            if diffs <= 3:
                p = write_replay(v.pid, f"{name}-diff{diffs}", {"kind": "backend-difference",
                                                               "in_memory": x, "sqlite": y})
                v.violations.append((f"in-memory and SQLite storage disagree: {json.dumps(x)[:200]} "
                                     f"vs {json.dumps(y)[:200]}", p))
    log(f"[diff] {name}: {len(a)} events compared across backends, {diffs} differences")
    v.extra.setdefault("backend_events_compared", 0)
    v.extra["backend_events_compared"] += len(a)
    return diffs


def scratch_dir(wd, name):
    """Scratch SQLite directories: tmpfs when there is one (fsync is the dominant cost of the
    thousands of short-lived databases), else the work directory."""
    shm = "/dev/shm"
    if os.path.isdir(shm) and os.access(shm, os.W_OK):
        d = os.path.join(shm, f"verif-C16-{os.getpid()}-{name}")
        return d
    return os.path.join(wd, name + ".dbs")


MUT_ONLY = set(MUTATORS)


def run(tier):
    v = Verdict("C16", tier)
    wd = workdir("C16-" + tier)
    build_harness()
    thorough = tier == "thorough"
    cli = sqlite3_cli()
    rnd = random.Random(seed())

    # 1. the contract: documented return values hold in every reachable buffer
    c = consts(MaxMut=4 if thorough else 3, MaxTxn=2, Modes={"reopen", "ro", "legacy"})
    mc(v, wd, "contract", c, timeout=1500)
    # anti-vacuity: the two deviations must violate the documented clauses
    mc(v, wd, "dev-delete-true", dict(c, SDev={"DEL"}), expect="ContractOK")
    mc(v, wd, "dev-add-index-plus-1", dict(c, SDev={"ADD"}), expect="ContractOK")

    # 2. every call sequence up to a length, within and across transactions (exhaustive):
    #    A: all 45 call shapes (2 task ids);  B: the 21 mutator shapes of one task, longer
    ga = consts(MaxLen=4 if thorough else 3, MaxMut=99, MaxTxn=99)
    sa = gen(wd, "gen-all-sequences-45-shapes", ga, timeout=1200)
    gb = consts(MaxLen=5 if thorough else 4, MaxMut=99, MaxTxn=99, TaskArgs={"u1"},
                OpTaskArgs={"u1"}, Kinds=MUT_ONLY)
    sb = gen(wd, "gen-all-sequences-21-mutators", gb, timeout=1200)
    v.distinct += len(sa) + len(sb)
    tm = conform(v, wd, "seqA-mem", ga, sa, "mem")
    ts = conform(v, wd, "seqA-sqlite", ga, sa, "sqlite", reopen_end=True)
    differential(v, "seqA", tm, ts)
    tm = conform(v, wd, "seqB-mem", gb, sb, "mem")
    sbq = sb if len(sb) <= 60000 else rnd.sample(sb, 60000)
    ts = conform(v, wd, "seqB-sqlite", gb, sbq, "sqlite", reopen_end=True)
    if len(sbq) == len(sb):
        differential(v, "seqB", tm, ts)
    if not thorough:
        # a sample of the next length with all shapes
        gs = consts(MaxLen=4, MaxMut=99, MaxTxn=99)
        s4 = gen(wd, "gen-sequences-len4-sample", gs, timeout=600, limit=2500)
        v.distinct += len(s4)
        tm = conform(v, wd, "seq4-mem", gs, s4, "mem")
        ts = conform(v, wd, "seq4-sqlite", gs, s4, "sqlite", reopen_end=True)
        differential(v, "seq4", tm, ts)

    # 3. long sequences by simulation: all tasks, all maps, several transactions, reopen anywhere
    s = consts(TaskArgs={"u1", "u2", "u3"}, OpTaskArgs={"u1", "u2", "u3"}, MapSel="all",
               MaxLen=40, MaxMut=99, MaxTxn=99)
    sim = gen(wd, "gen-sim-depth40", s, simulate=4000 if thorough else 300, depth=41, timeout=900)
    v.distinct += len(sim)
    tm = conform(v, wd, "sim-mem", s, sim, "mem")
    ts_sim = conform(v, wd, "sim-sqlite", s, sim, "sqlite", reopen_end=True)
    differential(v, "sim", tm, ts_sim)
    for vc in ("unicode", "edge"):
        part = sim if thorough else sim[:100]
        tm2 = conform(v, wd, f"sim-mem-{vc}", s, part, "mem", valclass=vc)
        ts2 = conform(v, wd, f"sim-sqlite-{vc}", s, part, "sqlite", valclass=vc, reopen_end=True)
        differential(v, f"sim-{vc}", tm2, ts2)

    # 4. read-only handles and databases written under older schemas (SQLite only)
    r = consts(Modes={"reopen", "ro"}, MaxLen=30, MaxMut=99, MaxTxn=99)
    ros = gen(wd, "gen-sim-readonly", r, simulate=2000 if thorough else 250, depth=31)
    ros = [h for h in ros if any(x["a"] == "Reopen" and x["v"] == "ro" for x in h)]
    v.distinct += len(ros)
    conform(v, wd, "readonly-sqlite", r, ros, "sqlite")
    legacy_note = None
    if cli:
        lg = consts(Modes={"legacy", "reopen"}, MaxLen=30, MaxMut=99, MaxTxn=99,
                    OpTaskArgs={"u1", "u2", "u3"})
        leg = gen(wd, "gen-sim-legacy", lg, simulate=2000 if thorough else 250, depth=31)
        leg = [h for h in leg if any(x["a"] == "Legacy" for x in h)]
        v.distinct += len(leg)
        conform(v, wd, "legacy-sqlite", lg, leg, "sqlite", cli=cli)
        conform(v, wd, "legacy-sqlite-unicode", lg, leg[:100], "sqlite", valclass="unicode", cli=cli)
        per = {ver: sum(1 for h in leg for x in h if x["a"] == "Legacy" and x["v"] == ver)
               for ver in ("0.8", "0.9", "0.1", "0.2")}
        v.extra["legacy_schemas"] = {"rewrites_per_schema": per, "created_with": cli,
                                     "sequences_with_a_schema_rewrite": len(leg)}
    else:
        legacy_note = "no sqlite3 command-line tool found: legacy schemas skipped"
        v.extra["legacy_schemas"] = {"skipped": legacy_note}

    # 5. binding demonstration: the recorded traces pin the return values -- validated against
    #    the specification with a deviation switched on, the same real traces must be rejected
    if ts_sim:
        few = os.path.join(wd, "binding.trace.ndjson")
        with open(few, "w") as f:
            for _, ls in split_behaviours(ts_sim)[:100]:
                f.writelines(ls)
        for dev in ("DEL", "ADD"):
            nfail, _, _ = validate(v, wd, f"binding-{dev}", s, few, [], dev=[dev],
                                   expect_reject=True)
            v.extra.setdefault("binding_demonstration", {})[dev] = \
                f">= {nfail} of 100 real SQLite traces rejected under deviation {dev}"
            if nfail == 0:
                v.tool_errors.append(f"binding demonstration: no real trace distinguishes {dev}")

    assumptions = ["contract-respecting call sequences only (one transaction at a time per "
                   "handle, no call after commit, set_working_set_item within the range)",
                   "string contents: three value/key classes (ASCII; non-ASCII with quotes, "
                   "backslash, newline, emoji; empty string, NUL, JSON-path-like keys), "
                   "sub-second timestamps"]
    if legacy_note:
        assumptions.append(legacy_note)
    else:
        assumptions.append("legacy databases are produced by running the historical DDL "
                           "(schema.rs, the 0.8.0 dump of the tests) with the sqlite3 "
                           f"command-line tool ({cli}) over the rows of the current database")
    v.finish("model_checking",
             rule="TLC checks the documented return value of every StorageTxn method in every "
                  "reachable buffer (exhaustive, bounded mutators) and enumerates every call "
                  f"sequence of length <= {ga['MaxLen']} over 45 call shapes and <= "
                  f"{gb['MaxLen']} over the 21 mutator shapes of one task (exhaustive), plus "
                  "simulated sequences of length 40 / 30; each sequence, followed by a battery "
                  "of all readers, is run on InMemoryStorage and SqliteStorage (also closed and "
                  "reopened, read-only, rewritten under schemas 0.8/0.9/(0,1)/(0,2)); every "
                  "recorded result is validated by TLC against the contract and the two "
                  "backends' records are compared line by line; distinct = distinct call "
                  "sequences",
             exhaustive=True, assumptions=assumptions)
