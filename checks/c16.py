"""C16 SQLite and in-memory storage are observationally equivalent and persistent.

TCStorage.tla is the StorageTxn contract; TLC (MCStorage.tla) checks the documented return values
clause by clause and enumerates call sequences; stordrv.rs (storage-replay) runs each sequence on
InMemoryStorage and SqliteStorage (also with close/reopen, read-only handles and databases
rewritten under the historical schemas); TraceStorage.tla validates every recorded call result
against the contract, and the two backends' traces are additionally compared line by line."""
import json
import os
import random
import re
import shutil
import subprocess
import threading
import time
from concurrent.futures import ThreadPoolExecutor

import vlib
from vlib import (Verdict, build_harness, run_harness, tlc_check, write_cfg, replay_lines,
                  drop_prefixes, workdir, log, seed, write_replay)

READERS = ["GetTask", "AllTasks", "AllTaskUuids", "BaseVersion", "UnsyncedOperations",
           "NumUnsynced", "GetTaskOperations", "GetWorkingSet", "GetPendingTasks", "IsEmpty"]
MUTATORS = ["CreateTask", "SetTask", "DeleteTask", "SetBaseVersion", "AddOperation",
            "RemoveOperation", "SyncComplete", "AddToWorkingSet", "SetWorkingSetItem",
            "ClearWorkingSet"]

BASE = {
    "Tasks": {"u1", "u2", "u3"}, "Props": {"p", "q"}, "Vals": {"a", "b"}, "Times": {1},
    "Cap": 1, "BigVals": set(), "BigSize": 1, "Versions": {"v1", "v2"}, "SDev": set(),
    "TaskArgs": {"u1", "u2"}, "OpTaskArgs": {"u1", "u2"}, "MapSel": "small",
    "Kinds": set(READERS + MUTATORS), "Modes": {"reopen"},
    "MaxLen": 9999, "MaxMut": 3, "MaxTxn": 2, "Emit": False, "EmitAll": False,
}
INVS = ["STypeOK", "WellFormed", "ContractOK"]
LOCK = threading.Lock()
# short JVM runs: C1 only and two GC threads cost a quarter of the CPU time of the defaults
JVM_LIGHT = "-XX:TieredStopAtLevel=1 -XX:ParallelGCThreads=2"


def consts(**kw):
    c = dict(BASE)
    c.update(kw)
    return c


def trace_consts(dev=()):
    return {k: BASE[k] for k in ("Tasks", "Props", "Vals", "Times", "Cap", "BigVals", "BigSize",
                                 "Versions")} | {"SDev": set(dev)}


def mc(v, wd, name, c, timeout=600, expect=None):
    cfg = write_cfg(os.path.join(wd, name + ".cfg"), c, init="MInit", next_="MNext",
                    invariants=INVS, view="SView", properties=["Atomic"])
    r = tlc_check(wd, name, "MCStorage.tla", cfg, timeout=timeout, workers=4)
    log(f"[mc] {name}: {r['distinct']} distinct / {r['states']} generated, depth {r['depth']}, "
        f"{r['wall_s']}s, violated={r['violated']}, timed_out={r['timed_out']}")
    with LOCK:
        v.mc(r, expect_violation=expect)
    return r


def gen(wd, name, c, simulate=None, depth=None, timeout=300, limit=None):
    """Call sequences from TLC: exhaustive (every sequence with Len(h) <= MaxLen, prefixes
    dropped) or simulation (one per behaviour of length MaxLen)."""
    c = dict(c, Emit=True, EmitAll=not simulate)
    cfg = write_cfg(os.path.join(wd, name + ".cfg"), c, init="MInit", next_="MNext",
                    invariants=["MEmit"], constraint=None if simulate else "HBound")
    r = tlc_check(wd, name, "MCStorage.tla", cfg, timeout=timeout, simulate=simulate, depth=depth,
                  seed_=seed(), workers=1 if simulate else 4)
    if r["error"] or (not r["completed"] and not r["timed_out"]):
        raise vlib.ToolError(f"{name}: TLC failed: {r['error']} (see {r['out']})")
    sch = drop_prefixes(replay_lines(r["out"]))
    if simulate and not limit:
        limit = simulate
    if limit and len(sch) > limit:
        sch = random.Random(seed()).sample(sch, limit)
    log(f"[gen] {name}: {len(sch)} call sequences from TLC "
        f"({'simulation' if simulate else 'exhaustive'}, {r['wall_s']}s)")
    try:
        os.remove(r["out"])
    except OSError:
        pass
    return sch


def mk(a, **kw):
    d = {"a": a, "u": "-", "m": {"p": "~", "q": "~"}, "v": "-", "i": 0, "x": "-",
         "op": {"k": "N", "u": "-", "p": "-", "v": "-", "t": 0, "o": {"p": "~", "q": "~"}}}
    d.update(kw)
    return d


def probes(tasks, short=False):
    """The battery of readers run at the end of every stimulus (short: inside the transaction
    that is about to be committed or abandoned)."""
    if short:
        return [mk("AllTasks"), mk("BaseVersion"), mk("UnsyncedOperations"), mk("GetWorkingSet")]
    out = [mk("GetTask", u=u) for u in tasks]
    out += [mk("AllTasks"), mk("AllTaskUuids"), mk("BaseVersion"), mk("UnsyncedOperations"),
            mk("NumUnsynced")]
    out += [mk("GetTaskOperations", u=u) for u in tasks]
    out += [mk("GetWorkingSet"), mk("GetPendingTasks"), mk("IsEmpty")]
    return out


def finish_steps(steps, tasks, variant, reopen):
    """Close an open transaction (committing or abandoning it, by `variant`), optionally reopen,
    then read everything back in a fresh transaction."""
    steps = list(steps)
    is_open = False
    for s in steps:
        if s["a"] == "Begin":
            is_open = True
        elif s["a"] in ("Abandon", "Commit"):
            is_open = False
    if is_open:
        steps += probes(tasks, short=True)
        steps.append(mk("Commit") if variant == 0 else mk("Abandon"))
    if reopen:
        steps.append(mk("Reopen", v="rw"))
    steps += [mk("Begin")] + probes(tasks) + [mk("Abandon")]
    return steps


def brief(e):
    """One recorded event as 'call(arguments) -> status value'."""
    if e["a"] != "Call":
        return " ".join(str(e.get(k)) for k in ("a", "v", "st") if e.get(k) is not None)
    c = e["c"]
    args = []
    if c["u"] != "-":
        args.append(c["u"])
    if c["a"] == "SetTask":
        args.append(",".join(f"{k}={x}" for k, x in sorted(c["m"].items()) if x != "~"))
    if c["a"] in ("AddOperation", "RemoveOperation"):
        o = c["op"]
        args.append(o["k"] + (f"({o['u']},{o['p']},{o['v']})" if o["k"] == "U" else
                              f"({o['u']})" if o["k"] != "P" else ""))
    if c["a"] == "SetBaseVersion":
        args.append(c["v"])
    if c["a"] == "SetWorkingSetItem":
        args += [str(c["i"]), c["x"]]
    return f"{c['a']}({' '.join(args)}) -> {e['st']} {json.dumps(e['v'])}"


def sqlite3_cli():
    for cand in [shutil.which("sqlite3"), "/usr/bin/sqlite3", "/root/miniconda/bin/sqlite3"]:
        if cand and os.path.exists(cand):
            return cand
    return None


def scratch_dir(wd, name):
    """Scratch SQLite directories: tmpfs when there is one (fsync is the dominant cost of the
    thousands of short-lived databases), else the work directory."""
    shm = "/dev/shm"
    if os.path.isdir(shm) and os.access(shm, os.W_OK):
        return os.path.join(shm, f"verif-C16-{os.getpid()}-{name}")
    return os.path.join(wd, name + ".dbs")



def lifecycle_sequences(pool_seqs):
    """Deterministic family around the life cycle of a task's operations across TWO committed
    syncs (longer than the exhaustive families reach, rarely hit by the random ones): operations
    added and committed; sync_complete committed or abandoned; the task deleted (with or without
    its Delete operation), or updated, or left alone; sync_complete again; then the readers on
    every task, before and after reopening.  Events are taken from TLC's own output (same record
    shapes), the task id substituted."""
    proto = {}
    for h in pool_seqs:
        for x in h:
            k = (x["a"], x["op"]["k"], tuple(sorted((x["op"].get("o") or {}).items())) if x["op"]["k"] == "D" else ())
            proto.setdefault(k, x)
    need = ["Begin", "Commit", "Abandon", "CreateTask", "DeleteTask", "SyncComplete", "GetTaskOperations",
            "UnsyncedOperations", "AllTasks"]
    if any(not any(k[0] == a for k in proto) for a in need + ["AddOperation"]):
        return []

    def ev(a, u=None, opk=None, dmap=None):
        for k, x in proto.items():
            if k[0] != a:
                continue
            if a in ("AddOperation", "RemoveOperation"):
                if k[1] != opk:
                    continue
                if opk == "D" and dmap is not None and dict(k[2]) != dmap:
                    continue
            e = json.loads(json.dumps(x))
            if u:
                if e["u"] != "-":
                    e["u"] = u
                if e["op"]["u"] != "-":
                    e["op"]["u"] = u
            return e
        return None

    dmaps = [dict(k[2]) for k in proto if k[0] == "AddOperation" and k[1] == "D"]
    out = []
    reopen = ev("Reopen")
    for tasks in (("u1",), ("u1", "u2")):
        for first_sync in ("Commit", "Abandon"):
            for fate in ("delete", "delete+op", "update", "none"):
                for reop in (False, True):
                    for third in (False, True):
                        h = [ev("Begin")]
                        for u in tasks:
                            h += [ev("CreateTask", u), ev("AddOperation", u, "C"), ev("AddOperation", u, "U")]
                        h += [ev("Commit"), ev("Begin"), ev("SyncComplete"), ev(first_sync)]
                        if reop and reopen:
                            h.append(reopen)
                        h.append(ev("Begin"))
                        u = tasks[0]
                        if fate.startswith("delete"):
                            h.append(ev("DeleteTask", u))
                            if fate == "delete+op" and dmaps:
                                h.append(ev("AddOperation", u, "D", dmaps[len(out) % len(dmaps)]))
                        elif fate == "update":
                            h.append(ev("AddOperation", u, "U"))
                        h += [ev("Commit"), ev("Begin"), ev("SyncComplete"), ev("Commit")]
                        if third:
                            h += [ev("Begin"), ev("CreateTask", u), ev("AddOperation", u, "C"), ev("Commit"),
                                  ev("Begin"), ev("SyncComplete"), ev("Commit")]
                        h.append(ev("Begin"))
                        for t in ("u1", "u2"):
                            h.append(ev("GetTaskOperations", t))
                        h += [ev("UnsyncedOperations"), ev("AllTasks"), ev("Commit")]
                        if all(x is not None for x in h):
                            out.append(h)
    return out


class Run:
    """One check run: the recorded traces of all steps are validated together at the end."""

    def __init__(self, v, wd):
        self.v = v
        self.wd = wd
        self.traces = []          # (name, trace path)
        self.stimuli = {}         # name -> list of stimuli

    def replay(self, name, c, seqs, backend, valclass="ascii", reopen_end=False, cli=None):
        """Run the sequences on one backend; returns the trace path."""
        if not seqs:
            with LOCK:
                self.v.tool_errors.append(f"{name}: TLC produced no call sequences")
            return None
        tasks = sorted(c["TaskArgs"] | c["OpTaskArgs"])
        stim = os.path.join(self.wd, f"{name}.stim.ndjson")
        trace = os.path.join(self.wd, f"{name}.trace.ndjson")
        stimuli = []
        with open(stim, "w") as f:
            for i, h in enumerate(seqs):
                b = {"id": i, "check": name, "backend": backend, "valclass": valclass,
                     "steps": finish_steps(h, tasks, i % 2, reopen_end and backend == "sqlite")}
                stimuli.append(b)
                f.write(json.dumps(b) + "\n")
        d = scratch_dir(self.wd, name)
        args = ["storage-replay", "--in", stim, "--out", trace, "--dir", d, "--jobs", "4"]
        if cli:
            args += ["--sqlite3", cli]
        t0 = time.time()
        try:
            run_harness(args)
        finally:
            shutil.rmtree(d, ignore_errors=True)
        with LOCK:
            self.traces.append((name, trace))
            self.stimuli[name] = stimuli
            self.v.evaluations += len(seqs)
            if backend == "sqlite" and (name.startswith("sim-") or name.startswith("legacy")
                                        or name.startswith("readonly")) and len(self.v.samples) < 4:
                with open(trace) as tf:
                    evs = [json.loads(next(tf)) for _ in range(14)]
                self.v.samples.append({"check": name, "backend": backend, "valclass": valclass,
                                       "first_recorded_calls": [brief(e) for e in evs]})
        log(f"[replay] {name}: {len(seqs)} sequences on {backend}/{valclass} "
            f"({time.time() - t0:.1f}s)")
        return trace

    def pair(self, name, c, seqs, valclass="ascii", sqlite_cap=None):
        """The same sequences on the in-memory and on the SQLite backend (closed and reopened
        before the final readers), compared with each other line by line."""
        tm = self.replay(name + "-mem", c, seqs, "mem", valclass=valclass)
        sq = seqs
        if sqlite_cap and len(seqs) > sqlite_cap:
            sq = random.Random(seed()).sample(seqs, sqlite_cap)
            with LOCK:
                self.v.extra[name + "_sqlite_sample"] = (
                    f"{len(sq)} of {len(seqs)} sequences on SQLite (all of them in memory)")
        ts = self.replay(name + "-sqlite", c, sq, "sqlite", valclass=valclass, reopen_end=True)
        if tm and ts and len(sq) == len(seqs):
            self.differential(name, tm, ts)
        return ts

    def differential(self, name, trace_a, trace_b):
        """Direct comparison of two backends' records of the same stimuli (results as logged,
        unordered collections sorted by the harness); reopen events are ignored."""
        def norm(path):
            out = []
            for line in open(path):
                e = json.loads(line)
                if e["a"] == "Reopen":
                    continue
                for k in ("backend", "msg", "check"):
                    e.pop(k, None)
                out.append(e)
            return out
        a, b = norm(trace_a), norm(trace_b)
        diffs = 0 if len(a) == len(b) else 1
        for x, y in zip(a, b):
            if x != y:
                diffs += 1
                if diffs <= 3:
                    p = write_replay(self.v.pid, f"{name}-diff{diffs}",
                                     {"kind": "backend-difference", "in_memory": x, "sqlite": y})
                    with LOCK:
                        self.v.violations.append(
                            (f"in-memory and SQLite storage disagree: {json.dumps(x)[:200]} vs "
                             f"{json.dumps(y)[:200]}", p))
        log(f"[diff] {name}: {len(a)} events compared across backends, {diffs} differences")
        with LOCK:
            self.v.extra.setdefault("backend_events_compared", 0)
            self.v.extra["backend_events_compared"] += len(a)
            self.v.extra.setdefault("backend_differences", 0)
            self.v.extra["backend_differences"] += diffs

    # ---- TLC trace validation
    def tlc_trace(self, name, cfg, trace, timeout=900):
        metadir = os.path.join(self.wd, "tlc_" + name)
        outp = os.path.join(self.wd, name + ".out")
        env = dict(os.environ)
        env["TRACE"] = trace
        env["JAVA_TOOL_OPTIONS"] = ("-Xss1g -Dtlc2.tool.queue.IStateQueue=StateDeque " + JVM_LIGHT)
        cmd = ["timeout", str(timeout)] + vlib._tlc_cmd("TraceStorage.tla", cfg, metadir, 1, [])
        t0 = time.time()
        with open(outp, "w") as f:
            p = subprocess.run(cmd, stdout=f, stderr=subprocess.STDOUT, env=env, cwd=self.wd)
        out = open(outp, errors="replace").read()
        r = vlib.parse_tlc(out)
        r.update(rc=p.returncode, timed_out=p.returncode == 124, out=outp,
                 wall_s=round(time.time() - t0, 1), rejected_at=None, event=None)
        m = re.search(r'<<"TRACE-REJECTED-AT", (\d+), (".*")>>', out)
        if m:
            r["rejected_at"] = int(m.group(1))
            try:
                r["event"] = json.loads(json.loads(m.group(2)))
            except Exception:
                r["event"] = m.group(2)
        r["accepted"] = (r["completed"] and r["violated"] is None and r["rejected_at"] is None
                         and p.returncode == 0)
        if r["violated"]:
            mm = re.findall(r"/\\ l = (\d+)", out)
            if mm:
                r["violated_at_line"] = int(mm[-1]) - 1
        shutil.rmtree(metadir, ignore_errors=True)
        return r

    def validate(self, label, traces, dev=(), expect_reject=False, chunk=50000, max_rounds=4):
        """Validate recorded traces against TraceStorage.tla: behaviours (Reset .. next Reset)
        are packed into chunks, each chunk one TLC run; a rejected behaviour is reported and the
        rest of its chunk validated again without it."""
        behs = []
        for _, path in traces:
            cur = None
            for line in open(path):
                if line.startswith('{"a":"Reset"'):
                    cur = []
                    behs.append(cur)
                cur.append(line)
        chunks, cur, n = [], [], 0
        for b in behs:
            if cur and n + len(b) > chunk:
                chunks.append(cur)
                cur, n = [], 0
            cur.append(b)
            n += len(b)
        if cur:
            chunks.append(cur)
        cfg = write_cfg(os.path.join(self.wd, label + ".trace.cfg"), trace_consts(dev),
                        spec="TSpec", invariants=["WellFormed"], postcondition="Accepted")

        def one(k):
            bs = chunks[k]
            failures = []
            for rnd in range(max_rounds):
                if not bs:
                    break
                p = os.path.join(self.wd, f"{label}.c{k}.r{rnd}.ndjson")
                with open(p, "w") as f:
                    for b in bs:
                        f.writelines(b)
                r = self.tlc_trace(f"{label}.tv{k}r{rnd}", cfg, p)
                if r["accepted"]:
                    os.remove(p)
                    return failures, len(bs), sum(map(len, bs)), None
                if r["timed_out"] or (r["rejected_at"] is None and not r["violated"]):
                    return failures, 0, 0, (f"{label}: trace validation did not finish: "
                                            f"{r.get('error')} (see {r['out']})")
                line = r["rejected_at"] if r["rejected_at"] else r.get("violated_at_line", 1)
                acc = 0
                for j, b in enumerate(bs):
                    if acc < line <= acc + len(b):
                        failures.append((b, line - acc - 1, r["event"], r["violated"]))
                        bs = bs[:j] + bs[j + 1:]
                        break
                    acc += len(b)
                else:
                    return failures, 0, 0, f"{label}: cannot locate rejected line {line}"
                if expect_reject:
                    break
            return failures, 0, 0, None

        t_ok = e_ok = nfail = 0
        t0 = time.time()
        with ThreadPoolExecutor(max_workers=4) as ex:
            for failures, nb, ne, err in ex.map(one, range(len(chunks))):
                if err:
                    with LOCK:
                        self.v.tool_errors.append(err)
                t_ok += nb
                e_ok += ne
                for lines, off, ev, inv in failures:
                    nfail += 1
                    if not expect_reject:
                        self.report(lines, off, ev, inv)
        if not expect_reject:
            with LOCK:
                self.v.traces += t_ok
                self.v.events += e_ok
        log(f"[validate] {label}: {len(behs)} recorded behaviours in {len(chunks)} TLC runs: "
            f"{t_ok} accepted ({e_ok} events), {nfail} rejected, {time.time() - t0:.1f}s")
        return nfail

    def report(self, lines, off, ev, inv):
        hdr = json.loads(lines[0])
        bid, name = hdr.get("id"), hdr.get("check")
        if isinstance(ev, dict) and ev.get("st") == "toolerror":
            with LOCK:
                self.v.tool_errors.append(f"{name}: {ev.get('msg')}")
            return
        what = (f"invariant {inv} violated while following the recorded execution" if inv
                else "recorded storage call is not a step of the StorageTxn contract: "
                     f"{json.dumps(ev)[:400]}")
        st = self.stimuli.get(name, [])
        payload = {"kind": "trace-rejection", "driver": "storage-replay",
                   "trace_module": "TraceStorage.tla", "invariants": ["WellFormed"],
                   "storage": hdr.get("backend"), "check": name, "behaviour": bid,
                   "backend": hdr.get("backend"), "valclass": hdr.get("valclass"),
                   "stimulus": st[bid] if bid is not None and bid < len(st) else None,
                   "rejected_event_index": off, "rejected_event": ev, "invariant": inv,
                   "trace": [json.loads(x) for x in lines], "what": what,
                   "constants": {k: sorted(x) if isinstance(x, (set, frozenset)) else x
                                 for k, x in trace_consts().items()}}
        pth = write_replay(self.v.pid, f"{name}-b{bid}", payload)
        with LOCK:
            self.v.violations.append((what, pth))


def run(tier):
    v = Verdict("C16", tier)
    wd = workdir("C16-" + tier)
    build_harness()
    os.environ.setdefault("JAVA_TOOL_OPTIONS", "-Xss512m " + JVM_LIGHT)
    thorough = tier == "thorough"
    cli = sqlite3_cli()
    run_ = Run(v, wd)
    ex = ThreadPoolExecutor(max_workers=4)

    # ---- TLC runs
    # 1. the contract: documented return values hold in every reachable buffer; anti-vacuity:
    #    the two deviations must violate the documented clauses
    c = consts(MaxMut=4 if thorough else 3, MaxTxn=2, Modes={"reopen", "ro", "legacy"})
    f_mc = [ex.submit(mc, v, wd, "contract", c, 1500),
            ex.submit(mc, v, wd, "dev-delete-true", dict(c, SDev={"DEL"}), 600, "ContractOK"),
            ex.submit(mc, v, wd, "dev-add-index-plus-1", dict(c, SDev={"ADD"}), 600, "ContractOK")]
    # 2. every call sequence up to a length, within and across transactions (exhaustive):
    #    A: all 45 call shapes (2 task ids);  B: the 21 mutator shapes of one task, longer
    ga = consts(MaxLen=4 if thorough else 3, MaxMut=99, MaxTxn=99)
    gb = consts(MaxLen=5 if thorough else 4, MaxMut=99, MaxTxn=99, TaskArgs={"u1"},
                OpTaskArgs={"u1"}, Kinds=set(MUTATORS))
    # 3. long sequences by simulation: all tasks, all maps, several transactions, reopen anywhere
    s = consts(TaskArgs={"u1", "u2", "u3"}, OpTaskArgs={"u1", "u2", "u3"}, MapSel="all",
               MaxLen=40, MaxMut=99, MaxTxn=99)
    # 4. read-only handles and databases written under older schemas (SQLite only)
    r = consts(Modes={"reopen", "ro"}, MaxLen=30, MaxMut=99, MaxTxn=99)
    lg = consts(Modes={"legacy", "reopen"}, MaxLen=30, MaxMut=99, MaxTxn=99,
                OpTaskArgs={"u1", "u2", "u3"})
    # 2b. the operation log on its own: every operation shape incl. deletes with one- and
    #     two-property old tasks, added / removed / synced in every order
    go = consts(MaxLen=5 if thorough else 4, MaxMut=99, MaxTxn=99, TaskArgs={"u1"},
                OpTaskArgs={"u1"}, MapSel="all",
                Kinds={"AddOperation", "RemoveOperation", "SyncComplete", "UnsyncedOperations"})
    f_o = ex.submit(gen, wd, "gen-all-sequences-oplog", go, None, None, 1200)
    f_a = ex.submit(gen, wd, "gen-all-sequences-45-shapes", ga, None, None, 1200)
    f_b = ex.submit(gen, wd, "gen-all-sequences-21-mutators", gb, None, None, 1200)
    f_s = ex.submit(gen, wd, "gen-sim-depth40", s, 2500 if thorough else 300, 41, 900)
    f_r = ex.submit(gen, wd, "gen-sim-readonly", r, 2000 if thorough else 250, 31)
    f_l = ex.submit(gen, wd, "gen-sim-legacy", lg, 2000 if thorough else 250, 31) if cli else None
    sa, sb, sim, ros = f_a.result(), f_b.result(), f_s.result(), f_r.result()
    so = f_o.result()
    ros = [h for h in ros if any(x["a"] == "Reopen" and x["v"] == "ro" for x in h)]
    leg = [h for h in f_l.result() if any(x["a"] == "Legacy" for x in h)] if cli else []
    for f in f_mc:
        f.result()
    life = lifecycle_sequences(so + sa)
    if not life:
        v.tool_errors.append("life-cycle family: the event vocabulary is incomplete")
    lcc = consts(TaskArgs={"u1", "u2"}, OpTaskArgs={"u1", "u2"}, MapSel="all")
    v.distinct += len(sa) + len(sb) + len(sim) + len(ros) + len(leg) + len(so) + len(life)

    # ---- the sequences on the real backends
    jobs = [ex.submit(run_.pair, "seqB", gb, sb, "ascii", 20000 if thorough else 2000),
            ex.submit(run_.pair, "seqA", ga, sa, "ascii", 20000),
            ex.submit(run_.pair, "seqO", go, so, "ascii", 20000)]
    if life:
        jobs.append(ex.submit(run_.pair, "life", lcc, life, "ascii", 20000))
    f_sim = ex.submit(run_.pair, "sim", s, sim)
    for vc in ("unicode", "edge"):
        jobs.append(ex.submit(run_.pair, f"sim-{vc}", s, sim[:1500] if thorough else sim[:100], vc))
    jobs.append(ex.submit(run_.replay, "readonly-sqlite", r, ros, "sqlite"))
    legacy_note = None
    if cli:
        jobs.append(ex.submit(run_.replay, "legacy-sqlite", lg, leg, "sqlite", "ascii", False, cli))
        jobs.append(ex.submit(run_.replay, "legacy-sqlite-unicode", lg, leg[:100], "sqlite",
                              "unicode", False, cli))
        per = {ver: sum(1 for h in leg for x in h if x["a"] == "Legacy" and x["v"] == ver)
               for ver in ("0.8", "0.9", "0.1", "0.2")}
        v.extra["legacy_schemas"] = {"rewrites_per_schema": per, "created_with": cli,
                                     "sequences_with_a_schema_rewrite": len(leg)}
    else:
        legacy_note = "no sqlite3 command-line tool found: legacy schemas skipped"
        v.extra["legacy_schemas"] = {"skipped": legacy_note}
    ts_sim = f_sim.result()
    for j in jobs:
        j.result()
    ex.shutdown()

    # ---- every recorded call validated against the contract by TLC
    run_.validate("contract-traces", run_.traces)

    # 5. binding demonstration: the recorded traces pin the return values -- validated against
    #    the specification with a deviation switched on, real traces must be rejected
    if ts_sim:
        small = os.path.join(wd, "binding.trace.ndjson")
        with open(small, "w") as f:
            n = 0
            for line in open(ts_sim):
                if line.startswith('{"a":"Reset"'):
                    n += 1
                    if n > 300:
                        break
                f.write(line)
        few = [("sim-sqlite", small)]
        for dev in ("DEL", "ADD"):
            nfail = run_.validate(f"binding-{dev}", few, dev=[dev], expect_reject=True)
            v.extra.setdefault("binding_demonstration", {})[dev] = \
                f"real SQLite traces rejected under deviation {dev}: {nfail > 0}"
            if nfail == 0:
                v.tool_errors.append(f"binding demonstration: no real trace distinguishes {dev}")

    assumptions = ["contract-respecting call sequences only (one transaction at a time per "
                   "handle, nothing called on a transaction after commit, set_working_set_item "
                   "within the range)",
                   "string contents: three value/key classes (ASCII; non-ASCII with quotes, "
                   "backslash, newline, emoji; empty string, NUL, JSON-path-like keys), "
                   "sub-second timestamps",
                   "most scratch databases start as a file copy of an empty database created by "
                   "SqliteStorage::new (every 16th is created from nothing)"]
    if legacy_note:
        assumptions.append(legacy_note)
    else:
        assumptions.append("legacy databases are produced by running the historical DDL "
                           "(schema.rs, the 0.8.0 dump of the tests) with the sqlite3 "
                           f"command-line tool ({cli}) over the rows of the current database")
    v.finish("model_checking",
             rule="TLC checks the documented return value of every StorageTxn method in every "
                  "reachable buffer (exhaustive, bounded mutators) and enumerates every call "
                  f"sequence of length <= {ga['MaxLen']} over 45 call shapes and <= "
                  f"{gb['MaxLen']} over the 21 mutator shapes of one task (exhaustive), plus "
                  "simulated sequences of length 40 / 30; each sequence, followed by a battery "
                  "of all readers, is run on InMemoryStorage and SqliteStorage (also closed and "
                  "reopened, read-only, rewritten under schemas 0.8/0.9/(0,1)/(0,2)); every "
                  "recorded result is validated by TLC against the contract and the two "
                  "backends' records are compared line by line; distinct = distinct call "
                  "sequences",
             exhaustive=True, assumptions=assumptions)
