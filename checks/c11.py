"""C11 A failure inside a server's add-version leaves the backend usable."""
from chain_family import *


def fault_behaviours(backend, faults, handles=("h1",), pre=1, post=2):
    """base history, then one add_version with an injected fault, then further use by the same
    and another handle, a walk of the chain and two replicas syncing through the backend"""
    out = []
    for f in faults:
        for other_first in (False, True):
            steps = []
            for i in range(pre):
                steps.append({"a": "AV", "h": handles[0], "p": "latest", "body": "small"})
            steps.append(dict(f, a="Fault"))
            steps.append({"a": "AV", "h": handles[0], "p": "latest", "body": "small"})
            hs = list(handles) if not other_first else list(reversed(handles))
            # right after the fault every handle asks for the child of the version the faulted
            # call was based on: all must get the same answer (added for everybody or for nobody)
            for hh in hs:
                steps.append({"a": "GC", "h": hh, "p": "first"})
            for i in range(post):
                hh = hs[i % len(hs)]
                steps.append({"a": "GC", "h": hh, "p": "latest"})
                steps.append({"a": "AV", "h": hh, "p": "latest", "body": "small"})
            out.append({"steps": steps, "converge": True, "fault": f})
            if f.get("kind") != "stop":
                # the same in a long-lived process: the handle that saw the error is kept
                keep = [dict(st, reopen_after_error=False) if st["a"] == "AV" else st for st in steps]
                out.append({"steps": keep, "converge": True, "fault": f, "restart": False})
            if len(handles) == 1:
                break
    return out


def run(tier):
    v = Verdict("C11", tier)
    wd = workdir("C11-" + tier)
    build_harness()
    thorough = tier == "thorough"

    # 1. the protocol with failing calls: a failed add_version is "nothing happened" or
    #    "accepted, reply lost" -- checked as part of every trace below (TraceChain.TAddFailed);
    #    the backends' internal steps with a stop at every point are model checked here
    from c11_specs import backend_specs
    backend_specs(v, wd, thorough)

    # 2. faults injected at every internal step of the real backends
    local = [{"point": "local.add_version.between", "kind": k} for k in ("error", "stop")]
    chain_conform(v, wd, "local-faults", "local", fault_behaviours("local", local, ("h1", "h2")),
                  snapshots=False)
    cloud = [{"at": k, "after": a} for k in range(1, 8) for a in (False, True)]
    chain_conform(v, wd, "cloud-faults", "cloud", fault_behaviours("cloud", cloud, ("h1", "h2")))
    gitl = ([{"point": p, "kind": k} for p in ("git.add_version.after_version_file",
                                                "git.add_version.after_meta") for k in ("error", "stop")]
            + [{"cmd": c, "at": n, "after": a} for (c, n) in (("add", 1), ("add", 2), ("commit", 1))
               for a in (False, True)])
    gitl_all = gitl + [{"cmd": "commit", "at": 1, "after": a, "kind": "stop"} for a in (False, True)]
    chain_conform(v, wd, "git-local-faults", "git-local", fault_behaviours("git-local", gitl_all),
                  git_wrap=True)
    gitr = gitl + [{"cmd": c, "at": 1, "after": a} for c in ("push", "ls-remote", "fetch")
                   for a in (False, True)]
    # the remote becomes unreachable: the push fails and so does everything that would consult it
    gitr += [{"cmd": "push", "at": 1, "after": False,
              "also": [{"cmd": "ls-remote", "at": 1}, {"cmd": "fetch", "at": 1}]},
             {"cmd": "push", "at": 1, "after": False, "also": [{"cmd": "ls-remote", "at": 1}]}]
    # the process stops at a git command (every later command of the call fails, then restart)
    stops = [{"cmd": c, "at": 1, "after": a, "kind": "stop"} for c in ("commit", "push") for a in (False, True)]
    if not thorough:     # ~7 s per sequence (x2: restarted and long-lived handle)
        gitr = gitr[1::5] + gitr[-8:-2:3] + gitr[-2:]
    gitr += stops
    chain_conform(v, wd, "git-remote-faults", "git-remote",
                  fault_behaviours("git-remote", gitr, ("h1", "h2")), git_wrap=True)
    # a 500 response before / after the effect, and a connection closed without any response
    # (a reply that is really lost: what a client-side retry would react to)
    http = [{"at": 1, "after": a} for a in (False, True)] + [{"at": 1, "after": a, "drop": True} for a in (False, True)]
    chain_conform(v, wd, "http-lost-reply", "http", fault_behaviours("http", http, ("h1", "h2")))

    v.finish("fault_enumeration",
             rule="every internal step of add_version in the local backend (between its two SQL "
                  "statements), the object-store backend (each of its requests, error before / "
                  "after effect) and the git backend (after each file write; each git command "
                  "failing before / after it ran; local-only and two clones of a bare remote) is "
                  "failed once, by an error return and by a stop (panic: nothing after the point "
                  "runs, handle discarded); afterwards the same and another handle go on using "
                  "the backend, the chain is walked from the start, and two replicas sync through "
                  "it; all replies are validated by TLC against ChainServer with failed calls "
                  "(nothing happened / accepted with lost reply); distinct = distinct fault points",
             extra={"evaluations": v.evaluations, "distinct_nontrivial": v.evaluations})
