"""C09 Object-store server keeps one version chain under concurrent clients."""
from cloud_family import *

# RetainedComplete: an accepted version "stays on the chain reachable from latest" only while
# its object is stored (nothing in these families is old enough to be cleaned up)
INV9 = ["OneChildPerParent", "AckedOnChain", "ReadsOnChain", "RetainedComplete"]


def run(tier):
    v = Verdict("C09", tier)
    wd = workdir("C09-" + tier)
    build_harness()
    thorough = tier == "thorough"
    ops = {"AV", "GC", "AS", "GS"}

    # 0. (in the background) Apalache: the inductive invariant of the add_version CAS skeleton
    apa = cas_inductive_start(wd, thorough)

    # 1. all interleavings at single-request grain
    cmc(v, wd, "2c-3ops", cconsts(Ops={"AV", "GC"}, MaxOps=3), invs=INV9)
    cmc(v, wd, "2c-3ops-snapshots", cconsts(Ops=ops, MaxOps=3, MaxVer=3), invs=INV9, timeout=1200)
    cmc(v, wd, "3c-2ops", cconsts(Clients={"c1", "c2", "c3"}, Ops={"AV", "GC"}, MaxOps=2),
        invs=INV9, timeout=1500)
    if thorough:
        cmc(v, wd, "3c-3ops", cconsts(Clients={"c1", "c2", "c3"}, Ops={"AV", "GC"}, MaxOps=3,
                                      MaxVer=5), invs=INV9, timeout=1700)
    # with the cleanup drawn at the tail of successful add_versions
    cmc(v, wd, "2c-3ops-cleanup", cconsts(Ops={"AV", "GC"}, MaxOps=3, Draws={0, 255}), invs=INV9)
    # listings as sequences of page requests (one name per page), every relative order of names
    cmc(v, wd, "2c-2ops-paged", cconsts(Ops={"AV", "GC"}, MaxOps=2, MaxVer=3, Draws={0, 255},
                                        PageSize=1), invs=INV9, timeout=1200)
    if thorough:
        cmc(v, wd, "2c-3ops-paged", cconsts(Ops={"AV", "GC"}, MaxOps=3, MaxVer=3, Draws={255},
                                            PageSize=1), invs=INV9, timeout=1700)
    # anti-vacuity: the pinned cleanup order lets a reader lose an accepted version
    cmc(v, wd, "2c-3ops-pinned-cleanup", cconsts(Ops={"AV", "GC"}, MaxOps=3, Draws={0, 255},
                                                 Dev={"GC1"}), invs=INV9 + ["RetainedComplete"],
        expect="AckedOnChain")

    # 2. interleavings replayed request by request on real CloudServer instances
    g = cconsts(Ops={"AV", "GC"}, MaxOps=2, MaxLen=70)
    sch = cgen(wd, "gen-2c-exh", g, timeout=300, limit=6000 if thorough else 800)
    v.distinct += len(sch)
    cconform(v, wd, "2c-exh", g, sch, invs=INV9)
    g3 = cconsts(Clients={"c1", "c2", "c3"}, Ops=ops, MaxOps=3, MaxVer=12, MaxLen=110,
                 Draws={0, 255})
    sch = cgen(wd, "gen-3c-sim", g3, simulate=2500 if thorough else 250, depth=111)
    v.distinct += len(sch)
    cconform(v, wd, "3c-sim", g3, sch, invs=INV9)
    gp = cconsts(Clients={"c1", "c2", "c3"}, Ops={"AV", "GC"}, MaxOps=3, MaxVer=9, MaxLen=140,
                 Draws={0, 255}, PageSize=1)
    sch = cgen(wd, "gen-3c-paged-sim", gp, simulate=2000 if thorough else 150, depth=141)
    v.distinct += len(sch)
    cconform(v, wd, "3c-paged-sim", gp, sch, invs=INV9, page_size=1)
    # situations random schedules rarely reach: a reader probing candidates that are not the
    # latest version (incl. a single, uncommitted candidate), a lost compare-and-swap (also
    # one lost while latest moved on by two versions)
    gs = cconsts(Clients={"c1", "c2", "c3"}, Ops={"AV", "GC"}, MaxOps=2, MaxVer=4)
    for sit in ("probe1", "probe2", "lostcas", "lostcas2"):
        w = csituations(wd, "sit-" + sit, gs, sit, limit=40 if thorough else 12)
        v.distinct += len(w)
        cconform(v, wd, "sit-" + sit, gs, w, invs=INV9)
    g4 = cconsts(Clients={"c1", "c2", "c3", "c4"}, Ops=ops, MaxOps=3, MaxVer=16, MaxLen=140,
                 Draws={0, 100, 255})
    sch = cgen(wd, "gen-4c-sim", g4, simulate=2500 if thorough else 150, depth=141)
    v.distinct += len(sch)
    cconform(v, wd, "4c-sim", g4, sch, invs=INV9)

    # the clients' own start: creating / reading the salt object concurrently
    salt_race(v, wd, thorough)
    cas_inductive_finish(v, wd, apa, thorough)

    v.finish("model_checking",
             rule="TLC explores every interleaving of the individual get/put/del/cas/list "
                  "requests of 2-3 clients each doing <= 3 operations (add-version, "
                  "get-child-version, add/get-snapshot, with the cleanup drawn), 4 clients by "
                  "simulation; interleavings are replayed through the gate of the in-memory "
                  "object store on real CloudServer instances and every request, reply and "
                  "return value is validated against CloudStore with OneChildPerParent, "
                  "AckedOnChain, ReadsOnChain evaluated on every state; afterwards every client "
                  "walks the chain; distinct = distinct interleavings.  Independently, Apalache "
                  "proves an inductive invariant of the add_version skeleton (read latest, put, "
                  "CAS, delete own object, crash anywhere; spec/CasInd.tla) that implies "
                  "OneChildPerParent, a single chain ending at latest, committed versions "
                  "stored, and soundness of get_child_version's choice rule, for any number of "
                  "steps (3 clients, 5 ids)",
             assumptions=["listings are atomic requests in most families and sequences of "
                          "one-name pages in the *paged* ones; "
                          "the Service contract (atomic per-object operations, CAS) is what the "
                          "AWS/GCP adaptors are supposed to provide and cannot be run offline"])
